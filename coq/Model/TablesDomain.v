(* The finite domains of C05, defined from the regenerated linter tables (tie T), and the accessors
   of the observed tables (tie O) and of the known-gap list.  No proofs here. *)
From Coq Require Import NArith List String Bool Ascii.
From Falco Require Import Base.TablesBase Model.ScopeMask Model.LintTables Model.LintOps.
From Falco Require Import Gen.LintConsts Gen.LintVars Gen.LintFuncs Gen.RefVars Gen.RefFuncs Gen.InterpFuncs.
From Falco Require Import Gen.ObsVars Gen.ObsFuncs Gen.ObsStmts Gen.ObsOps Gen.ObsWide Gen.ObsCoerce Gen.ObsInferred Gen.ObsIdArgs Gen.KnownGaps.
Import ListNotations.
Local Open Scope N_scope.
Local Open Scope string_scope.

(* ---- 45 scope masks: the nine scopes, then the 36 two-scope annotations (compact 9-bit masks) *)
Definition single_masks : list N := map (fun i => N.shiftl 1 i) idx9.
Definition pair_masks : list N :=
  flat_map (fun i => map (fun j => (N.shiftl 1 i + N.shiftl 1 j)%N) (filter (fun j => (i <? j)%N) idx9)) idx9.
Definition masks45 : list N := single_masks ++ pair_masks.
Definition positions45 : list N := map N.of_nat (seq 0 45).
Definition positions9 : list N := idx9.
Definition mask_at (p : N) : N := nth (N.to_nat p) masks45 0.

(* annotation masks of any width: the 84 three-scope masks and the nine-scope mask (quick tier observes these,
   the thorough tier all 511) *)
Definition popcount9 (m : N) : nat := List.length (filter (N.testbit m) idx9).
Definition masks_1_511 : list N := map N.of_nat (seq 1 511).
Definition three_scope_masks : list N := filter (fun m => Nat.eqb (popcount9 m) 3 || N.eqb m 511) masks_1_511.

(* ---- variables: every leaf of the linter tree, wildcards instantiated, x {get,set,unset} *)
Definition lint_var_flat : list (string * accessor) := vflatten_top lint_var_tree.
Definition lint_func_flat : list (string * bfunc) := fflatten_top lint_func_tree.

Definition backend_names : list string := ["be_one"; "be_two"].
Definition director_names : list string := ["dr_one"; "dr_two"].
Definition ratecounter_names : list string := ["rc_one"; "rc_two"].

Definition instantiate (http_names : list string) (template : string) : list string :=
  let segs := split_on "." template in
  if mem_str "%any%" segs then
    let first := hd "" segs in
    let names := if String.eqb first "backend" then backend_names
                 else if String.eqb first "director" then director_names
                 else if String.eqb first "ratecounter" then ratecounter_names
                 else http_names in
    map (fun w => join_with "." (map (fun s => if String.eqb s "%any%" then w else s) segs)) names
  else [template].

(* the linter context after the declarations of the observation preamble *)
Definition the_ctx : lint_ctx := declared_ctx backend_names director_names ratecounter_names.

Definition var_ops : list string := ["get"; "set"; "unset"].

Definition var_rows (http_names : list string) : list (string * string * string) :=
  flat_map (fun kv => flat_map (fun n => map (fun op => (fst kv, n, op)) var_ops) (instantiate http_names (fst kv)))
           lint_var_flat.

Definition obs_var_key (r : string * string * string * N * N * N) : string * string * string :=
  match r with (t, n, op, _, _, _) => (t, n, op) end.

(* ---- functions: every leaf of the linter's function tree x its declared signatures *)
Definition func_rows : list (string * N) :=
  flat_map (fun kv =>
              let nsig := Nat.max 1 (List.length (f_args (snd kv))) in
              map (fun i => (fst kv, N.of_nat i)) (seq 0 nsig))
           lint_func_flat.
Definition obs_func_key (r : string * N * N * N) : string * N := match r with (n, i, _, _) => (n, i) end.

(* ---- statements *)
Definition actions : list string :=
  ["lookup"; "pass"; "error"; "restart"; "hash"; "deliver"; "deliver_stale"; "fetch"; "hit_for_pass"].
Definition stmt_kinds : list string :=
  ["restart"; "error"; "esi"; "synthetic"; "synthetic.base64"] ++ map (fun a => "return:" ++ a) actions.

(* ---- operators *)
Definition op_types : list string := ["INTEGER"; "FLOAT"; "STRING"; "BOOL"; "RTIME"; "TIME"; "IP"; "BACKEND"; "ACL"; "header"].
Definition op_forms : list string :=
  ["lit"; "local"; "predef"; "plit"; "plocal"; "ppredef"; "ifexp"; "call";
   "dinit"; "dexpr"; "copy"; "compound"; "default"; "inif"].
(* how a local variable operand got its value: declared with an initialiser (literal / another variable), assigned
   from another variable, updated by a compound operator, never assigned, assigned inside an if block *)
Definition prov_forms : list string := ["dinit"; "dexpr"; "copy"; "compound"; "default"; "inif"].
Definition base_forms : list string := ["lit"; "local"; "predef"].
Definition all_ops : list string := assign_ops ++ compare_ops.
Definition op_rows : list (string * string) := flat_map (fun op => map (fun l => (op, l)) op_types) all_ops.
(* position 14 * value type index + form index *)
Definition op_cells : list (N * string * string) :=
  flat_map (fun ri => map (fun fi => ((14 * fst ri + fst fi)%N, snd ri, snd fi))
                          (combine [0; 1; 2; 3; 4; 5; 6; 7; 8; 9; 10; 11; 12; 13] op_forms))
           (combine [0; 1; 2; 3; 4; 5; 6; 7; 8; 9] op_types).
Definition base_form_exists (rty form : string) : bool :=
  if String.eqb form "lit" then mem_str rty ["INTEGER"; "FLOAT"; "STRING"; "BOOL"; "RTIME"; "BACKEND"; "ACL"]
  else if String.eqb form "predef" then negb (String.eqb rty "ACL")
  else true.
Definition base_of_form (form : string) : string :=
  if String.eqb form "plit" then "lit" else if String.eqb form "plocal" then "local"
  else if String.eqb form "ppredef" then "predef" else form.
(* a parameter and a function result have a declared type (no header); if() takes two locals / headers *)
Definition form_exists (rty form : string) : bool :=
  if mem_str form base_forms then base_form_exists rty form
  else if mem_str form ["plit"; "plocal"; "ppredef"] then negb (String.eqb rty "header") && base_form_exists rty (base_of_form form)
  else if String.eqb form "call" then negb (String.eqb rty "header")
  else if String.eqb form "dinit" then base_form_exists rty "lit"
  else if String.eqb form "compound" then mem_str rty ["INTEGER"; "FLOAT"; "RTIME"; "TIME"; "STRING"; "BOOL"]
  else if mem_str form prov_forms then negb (String.eqb rty "header")
  else String.eqb form "ifexp".
Definition op_cells_existing : list (N * string * string) :=
  filter (fun c => match c with (_, r, f) => form_exists r f end) op_cells.
(* the cells whose value is written directly (literal, local variable, predefined variable) *)
Definition op_cells_base : list (N * string * string) :=
  filter (fun c => match c with (_, _, f) => mem_str f base_forms end) op_cells_existing.
(* provenance of the LEFT operand: rows (operator, left type, provenance) where the provenance exists for the type;
   cells: the value written as a literal or a plain local *)
Definition opl_rows : list (string * string * string) :=
  flat_map (fun op => flat_map (fun l => map (fun lp => (op, l, lp)) (filter (form_exists l) prov_forms)) op_types) all_ops.
Definition op_cells_left : list (N * string * string) :=
  filter (fun c => match c with (_, _, f) => mem_str f ["lit"; "local"] end) op_cells_existing.
(* other spellings of a literal and a header sub-field as right operand: (bit, variant, value type, form of the base cell) *)
Definition lit_variants : list (N * string * string * string) :=
  [(0, "int-neg", "INTEGER", "lit"); (1, "float-neg", "FLOAT", "lit"); (2, "rtime-m", "RTIME", "lit"); (3, "rtime-h", "RTIME", "lit");
   (4, "rtime-d", "RTIME", "lit"); (5, "rtime-y", "RTIME", "lit"); (6, "rtime-ms", "RTIME", "lit"); (7, "str-long", "STRING", "lit");
   (8, "bool-false", "BOOL", "lit"); (9, "hdr-field", "header", "local")]%N.
Definition obs_op_key (r : string * string * N * N) : string * string := match r with (o, l, _, _) => (o, l) end.

(* ---- known gaps: (kind, name, at, bits) *)
Definition gap_covers (kind name at_ : string) (p : N) : bool :=
  existsb (fun g => match g with (k, n, a, bits) =>
                      String.eqb k kind && String.eqb n name && String.eqb a at_ && N.testbit bits p end)
          known_gaps.

(* ---- reference tables *)
Definition ref_on_mask (on : list string) : N := mask_of_names on.
Definition ref_var_type (r : refvar) (op : string) : string :=
  if String.eqb op "get" then r_get r else if String.eqb op "set" then r_set r else "".
(* the reference allows the operation in every scope of the (compact) mask *)
Definition ref_var_allows (r : refvar) (op : string) (m : N) : bool :=
  (if String.eqb op "unset" then r_unset r else negb (String.eqb (ref_var_type r op) ""))
  && forallb (fun s => mem_str (scope_name s) (r_on r)) (scopes_of m).
Definition ref_func_allows (r : reffunc) (m : N) : bool :=
  forallb (fun s => mem_str (scope_name s) (rf_on r)) (scopes_of m).

(* a YAML type name against a linter type constant: "" is NeverType *)
Definition type_agrees (yaml : string) (t : N) : bool :=
  String.eqb (if String.eqb yaml "" then "NEVER" else yaml) (type_name t).

Definition var_entry_agrees (a : accessor) (r : refvar) : bool :=
  type_agrees (r_get r) (a_get a) && type_agrees (r_set r) (a_set a) && Bool.eqb (r_unset r) (a_unset a)
  && N.eqb (ref_on_mask (r_on r)) (a_scopes a) && Bool.eqb (r_depr r) (a_depr a).

Definition func_entry_agrees (f : bfunc) (r : reffunc) : bool :=
  list_eqb (fun ys ts => list_eqb type_agrees ys ts) (rf_args r) (f_args f)
  && type_agrees (rf_ret r) (f_ret f)
  && N.eqb (ref_on_mask (rf_on r)) (f_scopes f)
  && Bool.eqb (negb (String.eqb (rf_extra r) "")) (f_extra f).

Definition option_rel {A B} (R : A -> B -> bool) (a : option A) (b : option B) : bool :=
  match a, b with
  | Some x, Some y => R x y
  | None, None => true
  | _, _ => false
  end.

(* ---- linter scope mask <-> interpreter scope mask (interpreter/context/scope.go) *)
Definition interp_scope_name (i : N) : string :=
  nth (N.to_nat i) ["RecvScope"; "HashScope"; "HitScope"; "MissScope"; "PassScope"; "FetchScope"; "ErrorScope"; "DeliverScope"; "LogScope"] "".
Definition interp_scope_bit (i : N) : N := match assoc (interp_scope_name i) interp_scope_consts with Some v => v | None => 0 end.
(* scope indices in which a mask (given its per-index bit function) is set *)
Definition compact_of (bit_of : N -> N) (mask : N) : N :=
  fold_right (fun i acc => if negb (N.eqb (N.land mask (bit_of i)) 0) then N.lor (N.shiftl 1 i) acc else acc) 0 idx9.

(* positions of ID-typed arguments over all signatures of a linter function; agreement of the simulator's entry *)
Definition id_positions (f : bfunc) : list N :=
  nodup N.eq_dec
    (flat_map (fun sig => flat_map (fun it => if N.eqb (snd it) (tyc "IDType") then [fst it] else [])
                                   (combine (map N.of_nat (seq 0 (List.length sig))) sig)) (f_args f)).

Definition interp_func_agrees (f : bfunc) (g : ifunc) : bool :=
  N.eqb (compact_of lint_scope_bit (f_scopes f)) (compact_of interp_scope_bit (if_scope g))
  && Bool.eqb (if_stmt g) (N.eqb (f_ret f) T_Never)
  && forallb (fun i => mem_N i (if_ident g)) (id_positions f) && forallb (fun i => mem_N i (id_positions f)) (if_ident g).

(* ---- a value where a type is expected: contexts x expected types; positions are those of the operator cells *)
Definition coerce_ctxs : list string := ["arg"; "ret"; "par"].
Definition value_types : list string := ["INTEGER"; "FLOAT"; "STRING"; "BOOL"; "RTIME"; "TIME"; "IP"; "BACKEND"; "ACL"].
Definition coerce_rows : list (string * string) := flat_map (fun c => map (fun e => (c, e)) value_types) coerce_ctxs.

(* ---- scopes obtained by call-graph inference: the use in the innermost of 1..3 un-annotated helpers called from
   every pair of lifecycle subroutines.  Quick tier: one representative per accessor class (scope mask, readable,
   writable, unsettable) and per function scope mask - the first in table order; thorough tier: every variable and
   function.  Triples of lifecycle subroutines (thorough tier): the representatives, depth 2. *)
Fixpoint first_per_class {A K} (key : A -> K) (keqb : K -> K -> bool) (l : list A) (seen : list K) : list A :=
  match l with
  | [] => []
  | x :: r => if existsb (keqb (key x)) seen then first_per_class key keqb r seen
              else x :: first_per_class key keqb r (key x :: seen)
  end.
Definition var_class (kv : string * accessor) : N * bool * bool * bool :=
  (compact_of lint_scope_bit (a_scopes (snd kv)), negb (N.eqb (a_get (snd kv)) T_Never), negb (N.eqb (a_set (snd kv)) T_Never), a_unset (snd kv)).
Definition var_class_eqb (a b : N * bool * bool * bool) : bool :=
  match a, b with (s, g, w, u), (s', g', w', u') => N.eqb s s' && Bool.eqb g g' && Bool.eqb w w' && Bool.eqb u u' end.
Definition var_reps : list (string * accessor) := first_per_class var_class var_class_eqb lint_var_flat [].
Definition func_reps : list (string * bfunc) := first_per_class (fun kv => compact_of lint_scope_bit (f_scopes (snd kv))) N.eqb lint_func_flat [].

Definition inferred_uses (http_names : list string) (full : bool) : list (string * string * string) :=
  flat_map (fun kv => flat_map (fun n => map (fun op => ("IV", n, op)) var_ops) (instantiate http_names (fst kv)))
           (if full then lint_var_flat else var_reps)
  ++ map (fun kv => ("IF", fst kv, "0")) (if full then lint_func_flat else func_reps)
  ++ map (fun k => ("IS", k, "")) stmt_kinds.
Definition depths : list N := [1; 2; 3]%N.
Definition inferred_rows (http_names : list string) (full : bool) : list (string * string * string * N) :=
  flat_map (fun u => map (fun d => (u, d)) depths) (inferred_uses http_names full).
Definition rep_names (http_names : list string) : list string :=
  flat_map (fun kv => instantiate http_names (fst kv)) var_reps ++ map fst func_reps.
Definition inferred3_rows (http_names : list string) (full : bool) : list (string * string * string * N) :=
  if full then
    map (fun u => (u, 2%N))
        (filter (fun u => match u with (k, n, _) => String.eqb k "IS" || mem_str n (rep_names http_names) end)
                (inferred_uses http_names true))
  else [].
Definition obs_inferred_key (r : string * string * string * N * N * N) : string * string * string * N :=
  match r with (k, n, a, d, _, _) => (k, n, a, d) end.
Definition triple_masks : list N := filter (fun m => Nat.eqb (popcount9 m) 3) masks_1_511.

(* the linter's verdict on a use whose subroutine runs in the scopes of the compact mask m *)
Definition lint_use_model (c : lint_ctx) (kind name at_ : string) (m : N) : bool :=
  if String.eqb kind "IV" then lint_var_op c name at_ (lint_mode m)
  else if String.eqb kind "IF" then is_some (lint_get_function name (lint_mode m))
  else lint_stmt name (lint_mode m).
Definition gap_kind (kind : string) : string :=
  if String.eqb kind "IV" then "var-interp" else if String.eqb kind "IF" then "func-interp" else "stmt-interp".
(* a recorded gap of the use under a single scope or a two-scope annotation contained in the mask
   (a use that fails from one entry subroutine, or for one pair of entries, fails for every superset) *)
Definition use_gap_covers (kind name at_ : string) (m : N) : bool :=
  existsb (fun p => N.eqb (N.land (mask_at p) m) (mask_at p) && gap_covers (gap_kind kind) name at_ p) positions45.

(* ---- the first ID-typed argument of a built-in (and the target of `add`) drawn from every identifier family:
   the five HTTP objects as header, header collection and object, declared objects, enumeration identifiers *)
Definition id_objects : list string := ["req"; "bereq"; "beresp"; "resp"; "obj"].
Definition idarg_idents : list string :=
  map (fun o => o ++ ".http.X-Verif-One") id_objects ++ map (fun o => o ++ ".headers") id_objects ++ id_objects
  ++ ["pb_one"; "rc_one"; "tbl_one"; "acl_one"; "be_one"; "aes128"; "sha256"].
Definition idarg_rows : list (string * N) :=
  flat_map (fun kv => flat_map (fun isg => if existsb (N.eqb (tyc "IDType")) (snd isg) then [(fst kv, fst isg)] else [])
                               (combine (map N.of_nat (seq 0 (List.length (f_args (snd kv))))) (f_args (snd kv))))
           lint_func_flat
  ++ [("stmt:add", 0%N)].
(* bit 9 * identifier index + scope index *)
Definition idarg_cells : list (N * string * N) :=
  flat_map (fun ki => map (fun s => ((9 * fst ki + s)%N, snd ki, s)) idx9)
           (combine (map N.of_nat (seq 0 (List.length idarg_idents))) idarg_idents).
