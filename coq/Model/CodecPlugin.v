(* The plugin path of C19: Encoder.Encode (ONE statement, then FIN) as linter/custom_linter.go
   calls it, and plugin.ReadLinterRequest[T] (plugin/linter.go) on the receiving side.
   No proofs here. *)
From Coq Require Import List NArith ZArith Bool String.
From Falco Require Import Base.Res Base.Bytes Base.Utf8 Gen.CodecFrames Gen.CodecPlugin
  Model.CodecAst Model.Codec.
Import ListNotations.

(* Encoder.Encode: frame, err := c.encode(stmt); bin := frame.Encode(); append(bin, fin()...) *)
Definition encode1 (s : stmt) : res (list byte) :=
  do bx <- enc_stmt s; OK (bx ++ FIN_B).

(* the dynamic type of a decoded statement *)
Inductive kind :=
| KAcl | KBackend | KDirector | KTable | KSub | KPenaltybox | KRatecounter
| KBlock | KImport | KInclude | KDeclare | KSet | KUnset | KRemove | KIf | KSwitch
| KRestart | KEsi | KAdd | KCall | KError | KLog | KReturn | KSynthetic | KSyntheticB64
| KGoto | KGotoDest | KFunCall
| KBreak | KFallthrough | KCase
| KUnknown.

Definition all_kinds : list kind :=
  [KAcl; KBackend; KDirector; KTable; KSub; KPenaltybox; KRatecounter;
   KBlock; KImport; KInclude; KDeclare; KSet; KUnset; KRemove; KIf; KSwitch;
   KRestart; KEsi; KAdd; KCall; KError; KLog; KReturn; KSynthetic; KSyntheticB64;
   KGoto; KGotoDest; KFunCall; KBreak; KFallthrough; KCase].

Definition kind_of (s : stmt) : kind :=
  match s with
  | SAdd _ _ _ => KAdd | SSet _ _ _ => KSet | SBlock _ => KBlock
  | SBreak => KBreak | SEsi => KEsi | SFallthrough => KFallthrough | SRestart => KRestart
  | SCall _ _ => KCall | SCase _ => KCase | SDeclare _ _ _ => KDeclare | SError _ _ => KError
  | SFunCall _ _ => KFunCall | SGoto _ => KGoto | SGotoDest _ => KGotoDest | SIf _ => KIf
  | SImport _ => KImport | SInclude _ => KInclude | SLog _ => KLog | SRemove _ => KRemove
  | SUnset _ => KUnset | SReturn _ _ => KReturn | SSwitch _ _ _ => KSwitch
  | SSynthetic _ => KSynthetic | SSyntheticB64 _ => KSyntheticB64
  | DAcl _ _ => KAcl | DBackend _ _ => KBackend | DDirector _ _ _ => KDirector
  | DPenaltybox _ => KPenaltybox | DRatecounter _ => KRatecounter | DSub _ _ _ _ => KSub
  | DTable _ _ _ => KTable | SUnknownStmt => KUnknown
  end.

(* reflect.TypeOf(stmt).Elem().Name() *)
Definition kind_name (k : kind) : string :=
  match k with
  | KAcl => "AclDeclaration" | KBackend => "BackendDeclaration" | KDirector => "DirectorDeclaration"
  | KTable => "TableDeclaration" | KSub => "SubroutineDeclaration"
  | KPenaltybox => "PenaltyboxDeclaration" | KRatecounter => "RatecounterDeclaration"
  | KBlock => "BlockStatement" | KImport => "ImportStatement" | KInclude => "IncludeStatement"
  | KDeclare => "DeclareStatement" | KSet => "SetStatement" | KUnset => "UnsetStatement"
  | KRemove => "RemoveStatement" | KIf => "IfStatement" | KSwitch => "SwitchStatement"
  | KRestart => "RestartStatement" | KEsi => "EsiStatement" | KAdd => "AddStatement"
  | KCall => "CallStatement" | KError => "ErrorStatement" | KLog => "LogStatement"
  | KReturn => "ReturnStatement" | KSynthetic => "SyntheticStatement"
  | KSyntheticB64 => "SyntheticBase64Statement" | KGoto => "GotoStatement"
  | KGotoDest => "GotoDestinationStatement" | KFunCall => "FunctionCallStatement"
  | KBreak => "BreakStatement" | KFallthrough => "FallthroughStatement" | KCase => "CaseStatement"
  | KUnknown => ""
  end%string.

Definition mem (n : string) (l : list string) : bool := existsb (String.eqb n) l.

(* T ranges over plugin.LintStatement (regenerated union) *)
Definition lintable (k : kind) : bool := mem (kind_name k) lint_statement_types.

Definition kind_eqb (a b : kind) : bool := String.eqb (kind_name a) (kind_name b).

(* ReadLinterRequest[T]: decode; error / nothing decoded / statements[0].(T) *)
Inductive req_result :=
| ROk (s : stmt)          (* &LinterRequest{Statement: stmt} *)
| RDecodeErr              (* LinterRequestError "Failed to decode from input stream" *)
| REmpty                  (* LinterRequestError "Nothing statement from decoded AST" *)
| RType (k : kind)        (* LinterRequestError "Type conversion failed, cannot convert <k> statement" *)
| RCrash | RHang.

(* what ReadLinterRequest[T] makes of the decoder's result *)
Definition classify (t : kind) (d : res (list stmt)) : req_result :=
  match d with
  | OK [] => REmpty
  | OK (s :: _) => if kind_eqb (kind_of s) t then ROk s else RType (kind_of s)
  | Err => RDecodeErr
  | Crash => RCrash
  | OutOfFuel => RHang
  end.
Definition read_request (t : kind) (bs : list byte) : req_result := classify t (decode bs).
