(* C16 - `falco fmt --write FILE` as a sequence of file-system operations with fault points:
   cmd/falco/runner.go Runner.Format + overwriteFile (repaired), and the protocol before the
   repair (O_TRUNC open first) for the refuted statement.

   File system = path -> option bytes.  Every operation can fail (no effect, the program takes
   its error path), a write can be short, and the process can be killed after any ATOMIC effect
   (a write of n bytes is n one-byte effects, so every byte boundary is a crash point).
   What the formatter returns for a content is an oracle ([fmt_result]); no proofs here. *)
From Coq Require Import List NArith Bool.
From Coq Require Import Strings.Byte.
From Falco Require Import Base.Bytes.
Import ListNotations.

Definition bytes := list byte.

Inductive path := FILE | TMP | Other (n : nat).
Definition path_eqb (a b : path) : bool :=
  match a, b with
  | FILE, FILE => true
  | TMP, TMP => true
  | Other n, Other m => Nat.eqb n m
  | _, _ => false
  end.

Definition fs := path -> option bytes.
Definition fs_set (f : fs) (p : path) (v : option bytes) : fs := fun q => if path_eqb p q then v else f q.

(* operations of the program *)
Inductive op :=
| OStat (p : path)            (* EvalSymlinks + Stat *)
| OProbe (p : path)           (* open O_WRONLY (no O_TRUNC, no O_CREAT) and close *)
| OOpenTrunc (p : path)       (* open O_TRUNC|O_WRONLY   (the protocol before the repair) *)
| OCreateTmp (p : path)       (* os.CreateTemp in the directory of the target: O_CREAT|O_EXCL *)
| OWrite (p : path) (d : bytes)
| OChmod (p : path)
| OFsync (p : path)
| OClose (p : path)
| ORename (s d : path)
| ORemove (p : path).

(* atomic effects on the file system *)
Inductive eff :=
| ETrunc (p : path)
| ECreate (p : path)
| EAppend (p : path) (b : byte)
| ERename (s d : path)
| ERemove (p : path).

Definition apply_eff (e : eff) (f : fs) : fs :=
  match e with
  | ETrunc p => match f p with Some _ => fs_set f p (Some []) | None => f end
  | ECreate p => fs_set f p (Some [])
  | EAppend p b => match f p with Some x => fs_set f p (Some (x ++ [b])) | None => f end
  | ERename s d => match f s with Some x => fs_set (fs_set f d (Some x)) s None | None => f end
  | ERemove p => fs_set f p None
  end.

Fixpoint run_effs (es : list eff) (f : fs) : fs :=
  match es with
  | [] => f
  | e :: t => run_effs t (apply_eff e f)
  end.

(* the process is killed after k atomic effects *)
Definition run_prefix (k : nat) (es : list eff) (f : fs) : fs := run_effs (firstn k es) f.

(* what can go wrong with one operation *)
Inductive fault :=
| FNone
| FFail              (* the call returns an error, nothing happened *)
| FShort (j : nat).  (* a write: j bytes reach the file, then the call returns an error *)

Definition is_none_fault (f : fault) : bool := match f with FNone => true | _ => false end.

(* effects of one operation under a fault, and whether the call reported success *)
Definition effects_of (o : op) (f : fault) : list eff * bool :=
  match o with
  | OStat _ | OProbe _ | OChmod _ | OFsync _ | OClose _ => ([], is_none_fault f)
  | OOpenTrunc p => if is_none_fault f then ([ETrunc p], true) else ([], false)
  | OCreateTmp p => if is_none_fault f then ([ECreate p], true) else ([], false)
  | OWrite p d =>
    match f with
    | FNone => (map (EAppend p) d, true)
    | FFail => ([], false)
    | FShort j => (map (EAppend p) (firstn j d), false)
    end
  | ORename s d => if is_none_fault f then ([ERename s d], true) else ([], false)
  | ORemove p => if is_none_fault f then ([ERemove p], true) else ([], false)
  end.

(* a protocol step: the operation and the clean-up run when it reports an error *)
Definition pstep := (op * list op)%type.

(* clean-up operations are all attempted, their own failures are ignored *)
Fixpoint cleanup_effs (i : nat) (faults : nat -> fault) (cl : list op) : list eff :=
  match cl with
  | [] => []
  | o :: t => fst (effects_of o (faults i)) ++ cleanup_effs (S i) faults t
  end.

(* executed effects and exit status; faults are indexed by the position of the operation in
   the sequence of operations actually executed *)
Fixpoint exec (i : nat) (faults : nat -> fault) (ps : list pstep) : list eff * nat :=
  match ps with
  | [] => ([], 0)
  | (o, cl) :: rest =>
    let (es, ok) := effects_of o (faults i) in
    if ok then let (es2, x) := exec (S i) faults rest in (es ++ es2, x)
    else (es ++ cleanup_effs (S i) faults cl, 1)
  end.

(* the operations actually executed (for the comparison with a system-call trace) *)
Fixpoint exec_ops (i : nat) (faults : nat -> fault) (ps : list pstep) : list (op * bool) :=
  match ps with
  | [] => []
  | (o, cl) :: rest =>
    let ok := snd (effects_of o (faults i)) in
    if ok then (o, true) :: exec_ops (S i) faults rest
    else (o, false) ::
         (fix go (j : nat) (l : list op) : list (op * bool) :=
            match l with [] => [] | c :: t => (c, snd (effects_of c (faults j))) :: go (S j) t end) (S i) cl
  end.

(* what the formatter does with a content *)
Inductive fmt_result :=
| FmtOk (out : bytes)
| FmtParseError          (* falco prints the error, exit 1 *)
| FmtNil                 (* a statement-only snippet: formatter.Format returns nil *)
| FmtPanic.              (* the formatter panics: exit 2 *)

Definition cl_open : list op := [OClose TMP; ORemove TMP].
Definition cl_closed : list op := [ORemove TMP].

(* the repaired protocol *)
Definition fmt_w (r : fmt_result) : list pstep :=
  match r with
  | FmtOk out =>
    [ (OStat FILE, []); (OProbe FILE, []); (OCreateTmp TMP, []);
      (OWrite TMP out, cl_open); (OChmod TMP, cl_open); (OFsync TMP, cl_open);
      (OClose TMP, cl_closed); (ORename TMP FILE, cl_closed) ]
  | _ => []
  end.
(* exit status when the protocol ran without a reported error *)
Definition fmt_w_exit (r : fmt_result) : nat :=
  match r with FmtOk _ => 0 | FmtParseError => 1 | FmtNil => 1 | FmtPanic => 2 end.

Definition inject (faults : nat -> fault) (ps : list pstep) : list eff := fst (exec 0 faults ps).
Definition exit_of (faults : nat -> fault) (r : fmt_result) : nat :=
  match snd (exec 0 faults (fmt_w r)) with 0 => fmt_w_exit r | x => x end.

(* the protocol before the repair: the file is opened with O_TRUNC before anything is known
   about the result; a nil result makes io.Copy panic after the truncation *)
Definition fmt_w_old (r : fmt_result) : list pstep :=
  match r with
  | FmtOk out => [ (OOpenTrunc FILE, []); (OWrite FILE out, [OClose FILE]); (OClose FILE, []) ]
  | FmtNil => [ (OOpenTrunc FILE, []) ]
  | _ => []
  end.
Definition fmt_w_old_exit (r : fmt_result) : nat :=
  match r with FmtOk _ => 0 | FmtParseError => 1 | FmtNil => 2 | FmtPanic => 2 end.
Definition exit_of_old (faults : nat -> fault) (r : fmt_result) : nat :=
  match snd (exec 0 faults (fmt_w_old r)) with 0 => fmt_w_old_exit r | x => x end.
