(* Executable model of the parser's token pump: Parser.ReadPeek of parser/parser.go (the
   repaired tree) over the token stream the lexer delivers.

   The Tokenizer is modelled as the stream  ts ++ e e e ...  : [ts] the tokens not yet
   delivered, [e] the EOF token, which the lexer repeats unchanged for ever once the input
   ended (lexer fix: the EOF token is stable).  NextToken = [s_next], PeekToken = [s_peek].
   Every `for` of ReadPeek is a recursion on fuel. p.level is a Go int that may go negative: Z. *)
From Coq Require Import List NArith ZArith Bool.
From Falco Require Import Base.Res Base.Bytes Base.Utf8 Gen.Tokens Model.Lex.
Import ListNotations.

Record comment := mkC { ctok : token; clf : bool; cprev : N }.
Record meta := mkM { mtok : token; mnest : Z; mprev : N; mlead : list comment }.

Definition s_next (e : token) (ts : list token) : token * list token :=
  match ts with [] => (e, []) | t :: r => (t, r) end.
Definition s_peek (e : token) (ts : list token) : token :=
  match ts with [] => e | t :: _ => t end.

Definition is_type (ty : str) (t : token) : bool := str_eqb (ttype t) ty.

(* case token.LF: for { peek := PeekToken(); if peek.Type != LF { break }; previousEmptyLines++; NextToken() } *)
Fixpoint skip_lf (n : nat) (e : token) (ts : list token) (cnt : N) : res (N * list token) :=
  match n with
  | O => OutOfFuel
  | S n' =>
    if is_type T_LF (s_peek e ts) then skip_lf n' e (snd (s_next e ts)) (cnt + 1)%N
    else OK (cnt, ts)
  end.

(* case token.PRAGMA: for { t = NextToken(); if t.Type == SEMICOLON || t.Type == EOF { break } } *)
Fixpoint skip_pragma (n : nat) (e : token) (ts : list token) : res (list token) :=
  match n with
  | O => OutOfFuel
  | S n' =>
    let '(t, ts1) := s_next e ts in
    if is_type T_SEMICOLON t || is_type T_EOF t then OK ts1
    else skip_pragma n' e ts1
  end.

(* ReadPeek: the new peekToken, the remaining stream, the new brace level *)
Fixpoint read_peek (n : nat) (e : token) (ts : list token) (level : Z)
         (lead : list comment) (lf : bool) (prev : N) : res (meta * list token * Z) :=
  match n with
  | O => OutOfFuel
  | S n' =>
    let '(t, ts1) := s_next e ts in
    if is_type T_LF t then
      do (prev', ts2) <- skip_lf n' e ts1 prev;
      read_peek n' e ts2 level lead true prev'
    else if is_type T_COMMENT t then
      read_peek n' e ts1 level (lead ++ [mkC t lf prev]) lf 0%N
    else if is_type T_FASTLY_CONTROL t then
      read_peek n' e ts1 level lead lf prev
    else if is_type T_PRAGMA t then
      do ts2 <- skip_pragma n' e ts1;
      read_peek n' e ts2 level lead lf prev
    else
      let level' :=
        if is_type T_LEFT_BRACE t then (level + 1)%Z
        else if is_type T_RIGHT_BRACE t then (level - 1)%Z
        else level in
      OK (mkM t level' prev lead, ts1, level')
  end.

(* what the parser sees: successive ReadPeek results up to the first EOF (included) *)
Fixpoint pump_loop (outer inner : nat) (e : token) (ts : list token) (level : Z) : res (list meta) :=
  match outer with
  | O => OutOfFuel
  | S o =>
    do (r, level') <- read_peek inner e ts level [] false 0%N;
    let '(m, ts1) := r in
    if is_eof (mtok m) then OK [m]
    else match pump_loop o inner e ts1 level' with
         | OK ms => OK (m :: ms)
         | Err => Err | Crash => Crash | OutOfFuel => OutOfFuel
         end
  end.

Definition pump_all (fuel : nat) (e : token) (ts : list token) : res (list meta) :=
  pump_loop fuel fuel e ts 0%Z.

(* lexer + pump on a source text; the EOF token is the last token of the lexer's output *)
Definition pump (s : list byte) : res (list meta) :=
  do ts <- tokens s;
  match rev ts with
  | [] => Crash
  | e :: _ => pump_all (S (length ts)) e ts
  end.
