(* C09 - the hand-audited list of reads, in linter/ and interpreter/, of the fields that carry comments,
   layout or positions (ast.Meta Leading / Trailing / Infix / PreviousEmptyLines / Nest / EndLine / EndPosition,
   ast.Comment Value / PrefixedLineFeed / PreviousEmptyLines / Token, token.Token Line / Position / Offset / File),
   compared with Gen/MetaReads.v (regenerated with go/types) by meta_reads_audited.  Every read belongs to one
   of the documented consumers:
     PositionReport    file / line / position copied into a diagnostic, a runtime error, a log entry, a flow
                       entry or a coverage marker (reported, never decided on)
     IgnoreDirective   linter/ignore.go: falco-ignore* directives in leading / trailing / infix comments
     ScopeAnnotation   @scope / @recv,... annotations of subroutines and snippet files
     FastlyMacro       #FASTLY <scope> boilerplate macros (linter and interpreter)
     ProcessMark       @process <name> marks of the simulator (an extra flow entry)
     PluginAnnotation  @plugin annotations of custom linters
   All of them read annotation comments (a comment text with a falco meaning), which Model/Decor.v keeps apart
   from ordinary comments; none reads PreviousEmptyLines, PrefixedLineFeed, Nest, EndLine, EndPosition or Offset. *)
From Coq Require Import List String.
Import ListNotations.
Local Open Scope string_scope.

Inductive consumer : Type :=
| PositionReport | IgnoreDirective | ScopeAnnotation | FastlyMacro | ProcessMark | PluginAnnotation.

Definition audited_reads : list ((string * string * string) * consumer) := [
  (("interpreter/coverage.go", "createMarker", "Token.Line"), PositionReport);
  (("interpreter/coverage.go", "createMarker", "Token.Position"), PositionReport);
  (("interpreter/exception/exception.go", "Error", "Token.File"), PositionReport);
  (("interpreter/exception/exception.go", "Error", "Token.Line"), PositionReport);
  (("interpreter/exception/exception.go", "Error", "Token.Position"), PositionReport);
  (("interpreter/exception/exception.go", "MaxCallStackExceeded", "Token.File"), PositionReport);
  (("interpreter/exception/exception.go", "MaxCallStackExceeded", "Token.Line"), PositionReport);
  (("interpreter/helper.go", "findProcessMark", "Comment.Value"), ProcessMark);
  (("interpreter/process/log.go", "NewLog", "Token.File"), PositionReport);
  (("interpreter/process/log.go", "NewLog", "Token.Line"), PositionReport);
  (("interpreter/process/log.go", "NewLog", "Token.Position"), PositionReport);
  (("interpreter/process/option.go", "WithSubroutine", "Token.File"), PositionReport);
  (("interpreter/process/option.go", "WithSubroutine", "Token.Line"), PositionReport);
  (("interpreter/process/option.go", "WithSubroutine", "Token.Position"), PositionReport);
  (("interpreter/process/option.go", "WithToken", "Token.File"), PositionReport);
  (("interpreter/process/option.go", "WithToken", "Token.Line"), PositionReport);
  (("interpreter/process/option.go", "WithToken", "Token.Position"), PositionReport);
  (("interpreter/statement.go", "ProcessBlockStatement", "Meta.Leading"), ProcessMark);
  (("interpreter/subroutine.go", "ProcessFunctionSubroutine", "Meta.Leading"), ProcessMark);
  (("interpreter/subroutine.go", "extractBoilerplateMacro", "Meta.Infix"), FastlyMacro);
  (("interpreter/subroutine.go", "extractBoilerplateMacro", "Meta.Leading"), FastlyMacro);
  (("linter/custom_linter.go", "parseCustomLinterCall", "Comment.Value"), PluginAnnotation);
  (("linter/custom_linter.go", "parseCustomLinterCall", "Meta.Leading"), PluginAnnotation);
  (("linter/errors.go", "Error", "Token.File"), PositionReport);
  (("linter/errors.go", "Error", "Token.Line"), PositionReport);
  (("linter/errors.go", "Error", "Token.Position"), PositionReport);
  (("linter/helper.go", "annotations", "Comment.Value"), ScopeAnnotation);
  (("linter/helper.go", "getFileLevelScope", "Meta.Leading"), ScopeAnnotation);
  (("linter/helper.go", "getSubroutineCallScope", "Meta.Leading"), ScopeAnnotation);
  (("linter/ignore.go", "SetupBlockStatement", "Meta.Leading"), IgnoreDirective);
  (("linter/ignore.go", "SetupStatement", "Meta.Leading"), IgnoreDirective);
  (("linter/ignore.go", "SetupStatement", "Meta.Trailing"), IgnoreDirective);
  (("linter/ignore.go", "TeardownBlockStatement", "Meta.Infix"), IgnoreDirective);
  (("linter/ignore.go", "TeardownBlockStatement", "Meta.Trailing"), IgnoreDirective);
  (("linter/linter.go", "lintFastlyBoilerPlateMacro", "Meta.Infix"), FastlyMacro);
  (("linter/linter.go", "lintFastlyBoilerPlateMacro", "Meta.Leading"), FastlyMacro)
].

(* the fields whose value is pure layout: never read by linter / interpreter *)
Definition layout_fields : list string :=
  ["Meta.PreviousEmptyLines"; "Meta.Nest"; "Meta.EndLine"; "Meta.EndPosition";
   "Comment.PrefixedLineFeed"; "Comment.PreviousEmptyLines"; "Comment.Token"; "Token.Offset"].

Definition reads_layout (r : string * string * string) : bool :=
  existsb (String.eqb (snd r)) layout_fields.

(* a position field is only read where a position is reported *)
Definition position_field (f : string) : bool :=
  existsb (String.eqb f) ["Token.Line"; "Token.Position"; "Token.File"].
Definition consistent_read (x : (string * string * string) * consumer) : bool :=
  match snd x with
  | PositionReport => position_field (snd (fst x))
  | _ => negb (position_field (snd (fst x)))
  end.
