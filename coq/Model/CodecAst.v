(* What the AST codec is required to preserve: names, operators, literal values,
   arguments, parameters, nested statements.  Positions, comments and purely
   presentational flags (LongString, Explicit, HasComma ...) are not part of it.
   Strings are rune lists exactly as Go's `for _, r := range s` yields them. *)
From Coq Require Import List NArith ZArith.
From Falco Require Import Base.Utf8.
Import ListNotations.

Definition str := list rune.

Inductive expr :=
| EIdent (v : str) | EString (v : str) | EIp (v : str) | ERTime (v : str)
| EBool (b : bool)
| EInt (v : Z) (lit : str)       (* v: the uint64 bit pattern of the int64 value; lit: source literal, [] if none *)
| EFloat (bits : Z) (lit : str)  (* IEEE-754 bits *)
| EGroup (r : expr)
| EInfix (l : option expr) (op : str) (r : expr)   (* l = None only for switch-case tests *)
| EPostfix (l : expr) (op : str)
| EPrefix (op : str) (r : expr)
| EIfExp (c t e : expr)
| ECall (f : str) (args : list expr)
| EUnknown.                      (* nil / a node the encoder does not know: UNKNOWN frame *)

Definition infix := (option expr * str * expr)%type.

Inductive cidr := Cidr (inv : option bool) (ip : str) (mask : option (Z * str)).
Inductive bprop := BProp (k : str) (v : expr) | BProbe (k : str) (vs : list (str * expr)).
Inductive dprop := DProp (k : str) (v : expr) | DBackendObj (vs : list (str * expr)).

Inductive stmt :=
| SAdd (id op : str) (v : expr) | SSet (id op : str) (v : expr)
| SBlock (b : list stmt)
| SBreak | SEsi | SFallthrough | SRestart
| SCall (sub : str) (args : list expr)
| SCase (c : cas)
| SDeclare (name ty : str) (v : option expr)
| SError (code arg : option expr)
| SFunCall (f : str) (args : list expr)
| SGoto (d : str) | SGotoDest (n : str)
| SIf (i : ifs)
| SImport (n : str) | SInclude (m : str)
| SLog (v : expr) | SRemove (id : str) | SUnset (id : str)
| SReturn (paren : bool) (v : option expr)
| SSwitch (ctl : expr) (cases : list cas) (dflt : Z)
| SSynthetic (v : expr) | SSyntheticB64 (v : expr)
| DAcl (name : str) (cidrs : list cidr)
| DBackend (name : str) (props : list bprop)
| DDirector (name ty : str) (props : list dprop)
| DPenaltybox (name : str) | DRatecounter (name : str)
| DSub (name : str) (params : list (str * str)) (ret : option str) (b : list stmt)   (* params: (type, name) *)
| DTable (name : str) (ty : option str) (props : list (str * expr))
| SUnknownStmt                    (* a node Encoder.encode rejects *)
with ifs := IfS (kw : str) (c : expr) (csq : list stmt) (another : list ifs) (alt : option (list stmt))
with cas := Cas (test : option infix) (b : list stmt) (ft : bool).
