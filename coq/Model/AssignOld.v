(* C08 - the assignment operators of the UNCHANGED tree at the points that were repaired
   (known_findings.txt, fixed: property=C08): the same Go primitives, without the guards.
   Only used by the refutation theorems of Props/C08.v and Props/C07.v.  No proofs in this file. *)
From Coq Require Import List NArith ZArith Bool Floats.SpecFloat.
From Falco Require Import Base.Res Base.Bytes Model.Float Model.Acl Model.Val Model.Assign.
Import ListNotations.
Local Open Scope Z_scope.

(* bitshift.go: lv.Value <<= rv.Value *)
Definition old_shift_left := int_binop goshl.
Definition old_shift_right := int_binop goshr.

(* bitrotate.go: v := (lv.Value << rv.Value) | (lv.Value >> (64 - rv.Value)) on int64 *)
Definition old_rotate_left := int_binop (fun a b =>
  match goshl a b, goshr a (wrap64 (64 - b)) with
  | OK x, OK y => OK (Z.lor x y)
  | _, _ => Crash
  end).
Definition old_rotate_right := int_binop (fun a b =>
  match goshr a b, goshl a (wrap64 (64 - b)) with
  | OK x, OK y => OK (Z.lor x y)
  | _, _ => Crash
  end).

(* division.go *)
Definition old_division (l : val) (r : operand) : ares :=
  match l, oval r with
  | VInt a n ni pi, VFloat f _ rni rpi =>
      if olit r then AErr l
      else if is_fzero f then AErr (VInt a true ni pi)
      else if rpi || is_pinf (fdiv (f_of_int a) f) then AOk (VInt max64 n ni true)
      else if rni || is_ninf (fdiv (f_of_int a) f) then AOk (VInt min64 n true pi)
      else lift (godiv a (f_to_int f)) (fun q => AOk (VInt q n ni pi))      (* lv.Value /= int64(rv.Value) *)
  | VRTime a, VInt b _ _ _ => lift (godiv a b) (fun q => AOk (VRTime q))
  | VRTime a, VFloat f _ _ _ => lift (godiv a (f_to_int f)) (fun q => AOk (VRTime q))
  | _, _ => division l r
  end.

(* remainder.go *)
Definition old_remainder (l : val) (r : operand) : ares :=
  match l, oval r with
  | VInt a n ni pi, VInt b _ rni rpi =>
      if pi || rpi then AOk (VInt 0 n ni true)
      else if ni || rni then AOk (VInt 0 n true pi)
      else lift (gorem a b) (fun q => AOk (VInt q n ni pi))
  | VInt a n ni pi, VFloat f _ rni rpi =>
      if olit r then AErr l
      else if pi || rpi then AOk (VInt 0 n ni true)
      else if ni || rni then AOk (VInt 0 n true pi)
      else lift (gorem a (f_to_int f)) (fun q => AOk (VInt q n ni pi))
  | VFloat a n ni pi, VInt b _ rni rpi =>
      if pi || rpi then AOk (VFloat fzero n ni true)
      else if ni || rni then AOk (VFloat fzero n true pi)
      else lift (gorem (f_to_int a) b) (fun q => AOk (VFloat (f_of_int q) n ni pi))
  | VFloat a n ni pi, VFloat b _ rni rpi =>
      if pi || rpi then AOk (VFloat fzero n ni true)
      else if ni || rni then AOk (VFloat fzero n true pi)
      else lift (gorem (f_to_int a) (f_to_int b)) (fun q => AOk (VFloat (f_of_int q) n ni pi))
  | VRTime a, VInt b _ _ _ => lift (gorem a (wrap64 (b * Second))) (fun q => AOk (VRTime q))
  | VRTime a, VFloat f _ _ _ => lift (gorem a (wrap64 (f_to_int f * Second))) (fun q => AOk (VRTime q))
  | _, _ => AErr l
  end.

Definition assign_old (parse_ip : str -> option addr) (op : aop) (l : val) (r : operand) : ares :=
  match op with
  | OpShl => old_shift_left l r
  | OpShr => old_shift_right l r
  | OpRol => old_rotate_left l r
  | OpRor => old_rotate_right l r
  | OpDiv => old_division l r
  | OpRem => old_remainder l r
  | _ => assign parse_ip op l r
  end.
