(* C17 - the five HTTP objects of one request as the simulator holds them: one header store per
   object (Model/Hdr.v), operations addressed to one object, and the derivations the simulator
   performs: bereq from req (createBackendRequest: the header map is cloned, the assigned-key
   set starts empty), resp / obj from another response (Response.Clone: the same). *)
From Coq Require Import List NArith Bool.
From Coq Require Import Strings.Byte.
From Falco Require Import Base.Bytes Model.HdrField Model.Hdr.
Import ListNotations.

Inductive obj := Req | Bereq | Beresp | Obj | Resp.

Definition obj_eqb (a b : obj) : bool :=
  match a, b with
  | Req, Req | Bereq, Bereq | Beresp, Beresp | Obj, Obj | Resp, Resp => true
  | _, _ => false
  end.

Definition kind_of (o : obj) : kind := match o with Req | Bereq => KReq | _ => KResp end.

Definition mstate := obj -> hstate.
Definition mst0 : mstate := fun _ => st0.
Definition mset (m : mstate) (o : obj) (s : hstate) : mstate := fun p => if obj_eqb o p then s else m p.

(* Header.Clone() into a freshly wrapped object *)
Definition derive (s : hstate) : hstate := {| hmap := hmap s; akeys := [] |}.

Inductive mop :=
| MOp (o : obj) (x : op)          (* get / set / add / unset on one object *)
| MDerive (dst src : obj).        (* dst is rebuilt from src *)

Definition mstep (m : mstate) (x : mop) : mstate * obs :=
  match x with
  | MOp o y => let (s, r) := step (kind_of o) (m o) y in (mset m o s, r)
  | MDerive dst src => (mset m dst (derive (m src)), OOk)
  end.

Fixpoint mrun (m : mstate) (h : list mop) : mstate * list obs :=
  match h with
  | [] => (m, [])
  | x :: t => let (m1, r) := mstep m x in
              let (m2, rs) := mrun m1 t in (m2, r :: rs)
  end.
