(* C20 - the statements falco writes for a Fastly header rule (snippet/template.go headerTemplate,
   actions set and delete, with and without ignore_if_set, no condition) and for the content type
   of a response object.  Byte exact, as the template prints them.  Definitions only.
   The source of a set rule is VCL text the user wrote; it is interpolated as it is. *)
From Coq Require Import List NArith Bool.
From Coq Require Import Strings.Byte.
From Falco Require Import Base.Bytes Model.Escape.
Import ListNotations.
Local Open Scope N_scope.

(* objectify: the variable prefix of the rule type (1 request, 2 cache, 3 response) *)
Definition objectify (ty : N) : bytes :=
  if ty =? 1 then [x72; x65; x71]
  else if ty =? 2 then [x62; x65; x72; x65; x73; x70]
  else if ty =? 3 then [x72; x65; x73; x70] else [].

Inductive action := RSet (source : bytes) | RDelete.

Definition target_of (ty : N) (dest : bytes) : bytes := objectify ty ++ [x2e] ++ dest.

(* the statement, without the line feed behind it *)
Definition stmt_text (target : bytes) (a : action) : bytes :=
  match a with
  | RSet src => [x73; x65; x74; x20] ++ target ++ [x20; x3d; x20] ++ src ++ [x3b]
  | RDelete => [x75; x6e; x73; x65; x74; x20] ++ target ++ [x3b]
  end.

Definition if_head (target : bytes) : bytes := [x69; x66; x20; x28; x21] ++ target ++ [x29; x20; x7b].

Definition render_rule (ty : N) (dest : bytes) (ignore_if_set : bool) (a : action) : bytes :=
  let target := target_of ty dest in
  [x0a; x0a] ++ (if ignore_if_set then if_head target else []) ++ [x0a] ++ stmt_text target a ++ [x0a] ++
  (if ignore_if_set then [x7d] else []) ++ [x0a; x0a].

(* responseObjectTemplate: set obj.http.Content-Type = DQ quote(content type) DQ ; *)
Definition ct_target : bytes :=
  [x6f; x62; x6a; x2e; x68; x74; x74; x70; x2e; x43; x6f; x6e; x74; x65; x6e; x74; x2d; x54; x79; x70; x65].
Definition render_content_type (ct : bytes) : bytes :=
  stmt_text ct_target (RSet ([x22] ++ vcl_quote ct ++ [x22])).

(* ---- the body of a response object: the longstring helper ----
   delimiter := empty; for i := 0; strings.Contains(s, DQ + delimiter + right brace); i++ { delimiter = EOS<i> }
   result: left brace, delimiter, DQ, s, DQ, delimiter, right brace *)
Fixpoint prefixb (p s : bytes) : bool :=
  match p, s with
  | [], _ => true
  | x :: p', y :: s' => byte_eqb x y && prefixb p' s'
  | _, [] => false
  end.
Fixpoint contains (pat s : bytes) : bool :=
  prefixb pat s || match s with [] => false | _ :: t => contains pat t end.

Definition closer (d : bytes) : bytes := [x22] ++ d ++ [x7d].
Definition delim (k : nat) : bytes :=
  match k with O => [] | S i => [x45; x4f; x53] ++ decimal (N.of_nat i) end.

Fixpoint find_delim (fuel k : nat) (s : bytes) : option bytes :=
  match fuel with
  | O => None
  | S f => if contains (closer (delim k)) s then find_delim f (S k) s else Some (delim k)
  end.

Definition longstring (s : bytes) : option bytes :=
  match find_delim (length s + 2) 0 s with
  | Some d => Some ([x7b] ++ d ++ [x22] ++ s ++ [x22] ++ d ++ [x7d])
  | None => None
  end.
