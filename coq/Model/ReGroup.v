(* C07 - the capture-group variables re.group.N as a small state machine
   (interpreter/operator/operator.go Regex: a SUCCESSFUL match replaces the whole map by the groups
   of that match, a failing match leaves it as it is; interpreter/subroutine.go: a called
   subroutine starts with an empty map and the caller's map is restored when it returns;
   interpreter/variable/all.go: re.group.N of an absent group is a not-set STRING).
   The match itself is the oracle's: each match operation carries the answer Go's PCRE gave
   (None: no match; Some l: the groups 0..n of the match).  No proofs in this file. *)
From Coq Require Import List NArith Bool.
From Falco Require Import Base.Res Base.Bytes Model.Val.
Import ListNotations.

Definition groups := list str.          (* re.group.0, re.group.1, ... *)

Inductive rop :=
| RMatch (answer : option (list str))   (* if (subject ~ "pattern") with the oracle's answer *)
| RCall (body : list rop).              (* call of a subroutine whose body does these operations *)

(* re.group.N read in a string context outside a local assignment: "(null)" when the group does not exist *)
Definition read (g : groups) (n : nat) : val :=
  match nth_error g n with Some s => VStr s false | None => VStr [] true end.

Definition after_match (g : groups) (answer : option (list str)) : groups :=
  match answer with Some l => l | None => g end.

(* the groups visible after every operation, in execution order (the operations of a callee included) *)
Fixpoint trace_op (g : groups) (o : rop) {struct o} : list groups * groups :=
  match o with
  | RMatch a => ([after_match g a], after_match g a)
  | RCall body =>
      let inner :=
        (fix go (l : list rop) (gi : groups) : list groups :=
           match l with
           | [] => []
           | x :: r => let '(t, gi') := trace_op gi x in t ++ go r gi'
           end) body [] in
      (inner ++ [g], g)              (* the callee starts empty; the caller's groups come back *)
  end.

Fixpoint trace (g : groups) (l : list rop) : list groups :=
  match l with
  | [] => []
  | x :: r => let '(t, g') := trace_op g x in t ++ trace g' r
  end.

Fixpoint final (g : groups) (l : list rop) : groups :=
  match l with [] => g | x :: r => final (snd (trace_op g x)) r end.
