(* C07 - whole programs of the core language over local variables: declare, set (all fifteen
   operators, literal or variable operand), if / else if / else with conditions built from
   operands, !, the binary operators and grouping, switch with == / ~ tests, fallthrough and
   default (interpreter/statement.go ProcessBlockStatement, ProcessIfStatement,
   ProcessSwitchStatement / ProcessCaseStatement, ProcessDeclareStatement,
   ProcessSetStatementLocalVariable; interpreter/expression.go in condition mode;
   interpreter/variable/local.go).  Values are copied (the aliasing of Go pointers is C13's
   subject); an error stops the program and leaves the store as it is at that point.
   There are no theorems about this file: it is the executable reference for the program-level
   correspondence run (checks/c07.py, implrun evalprog).  No proofs in this file. *)
From Coq Require Import List NArith ZArith Bool.
From Falco Require Import Base.Res Base.Bytes Model.Float Model.Acl Model.Val Model.Assign Model.Oper.
Import ListNotations.

Inductive rexp := RLit (v : val) | RVar (x : nat).

Inductive cexp :=
| EOp (r : rexp)                          (* literal or var.x *)
| ENot (e : cexp)                         (* !e *)
| EInfix (op : bop) (l r : cexp).         (* l op r, op <> concat; nested operands are parenthesised *)

Inductive pstmt :=
| PDeclare (x : nat) (t : vtype)
| PSet (x : nat) (op : aop) (r : rexp)
| PIf (c : cexp) (t : list pstmt) (elifs : list (cexp * list pstmt)) (e : option (list pstmt))
| PSwitch (ctl : rexp) (cases : list (option (bool * str) * list pstmt * bool)) (dflt : option nat).
  (* case: test = Some (is_regex, literal) | None for default; body; ends with fallthrough *)

Definition store := list (nat * val).

Fixpoint lookup (x : nat) (s : store) : option val :=
  match s with
  | [] => None
  | (y, v) :: t => if Nat.eqb x y then Some v else lookup x t
  end.

Fixpoint update (x : nat) (v : val) (s : store) : store :=
  match s with
  | [] => [(x, v)]
  | (y, w) :: t => if Nat.eqb x y then (x, v) :: t else (y, w) :: update x v t
  end.

Section Eval.
Variable parse_ip : str -> option addr.
Variable re_match : str -> str -> option bool.

Definition eval_rexp (s : store) (r : rexp) : res operand :=
  match r with
  | RLit v => OK (mkOp v true)
  | RVar x => match lookup x s with Some v => OK (mkOp v false) | None => Err end
  end.

(* ProcessExpression(..., ConditionExpression()) *)
Fixpoint eval_cexp (s : store) (e : cexp) : res operand :=
  match e with
  | EOp r => eval_rexp s r
  | ENot e1 =>
      match eval_cexp s e1 with
      | OK o => match oval o with
                | VBool b => OK (mkOp (VBool (negb b)) false)
                | VStr _ ns => OK (mkOp (VBool ns) false)
                | _ => Err
                end
      | Err => Err | Crash => Crash | OutOfFuel => OutOfFuel
      end
  | EInfix op l r =>
      match eval_cexp s l with
      | OK a => match eval_cexp s r with
                | OK b => match oper parse_ip re_match op a b with
                          | OK v => OK (mkOp v false)
                          | Err => Err | Crash => Crash | OutOfFuel => OutOfFuel
                          end
                | Err => Err | Crash => Crash | OutOfFuel => OutOfFuel
                end
      | Err => Err | Crash => Crash | OutOfFuel => OutOfFuel
      end
  end.

(* the branch decision of ProcessIfStatement: BOOL value, or a STRING that is set *)
Definition truth (o : operand) : res bool :=
  match oval o with
  | VBool b => OK b
  | VStr _ ns => OK (negb ns)
  | _ => Err
  end.

(* outcome of a statement list: the store, and whether an error stopped it *)
Inductive outcome := Done (s : store) | Failed (s : store) | Panicked.

Definition exec_set (s : store) (x : nat) (op : aop) (r : rexp) : outcome :=
  match lookup x s with
  | None => Failed s
  | Some l =>
      match eval_rexp s r with
      | OK o => match local_set parse_ip op l o with
                | AOk v => Done (update x v s)
                | AErr v => Failed (update x v s)
                | ACrash => Panicked
                end
      | _ => Failed s
      end
  end.

Fixpoint exec_stmt (st : pstmt) (s : store) {struct st} : outcome :=
  let block :=
    fix block (l : list pstmt) (s : store) : outcome :=
      match l with
      | [] => Done s
      | x :: r => match exec_stmt x s with Done s' => block r s' | o => o end
      end in
  match st with
  | PDeclare x t => Done (update x (create t) s)
  | PSet x op r => exec_set s x op r
  | PIf c t elifs e =>
      match eval_cexp s c with
      | OK o =>
          match truth o with
          | OK true => block t s
          | OK false =>
              (fix chain (l : list (cexp * list pstmt)) : outcome :=
                 match l with
                 | [] => match e with Some b => block b s | None => Done s end
                 | (c', b') :: rest =>
                     match eval_cexp s c' with
                     | OK o' => match truth o' with
                                | OK true => block b' s
                                | OK false => chain rest
                                | _ => Failed s
                                end
                     | Crash => Panicked
                     | _ => Failed s
                     end
                 end) elifs
          | _ => Failed s
          end
      | Crash => Panicked
      | _ => Failed s
      end
  | PSwitch ctl cases dflt =>
      match eval_rexp s ctl with
      | OK o =>
          let control := mkOp (VStr (string_of (oval o)) false) false in
          (* run the cases from position i on: [matched] = a fallthrough reached this case *)
          let run :=
            fix run (l : list (option (bool * str) * list pstmt * bool)) (s : store) : outcome :=
              match l with
              | [] => Failed s                                   (* fallthrough in the final case *)
              | (_, body, ft) :: rest =>
                  match block body s with
                  | Done s' => if ft then run rest s' else Done s'
                  | o' => o'
                  end
              end in
          let test (t : option (bool * str)) : res bool :=
            match t with
            | None => OK false                                   (* the default case is skipped in the scan *)
            | Some (isre, lit) =>
                let right := mkOp (VStr lit false) true in
                match (if isre then regex parse_ip re_match control right else equal parse_ip control right) with
                | OK b => OK b
                | Crash => Crash
                | _ => Err
                end
            end in
          (fix scan (l : list (option (bool * str) * list pstmt * bool)) : outcome :=
             match l with
             | [] =>
                 match dflt with
                 | Some d =>
                     (fix from (l : list (option (bool * str) * list pstmt * bool)) (k : nat) : outcome :=
                        match l with
                        | [] => Done s
                        | _ :: rest => match k with O => run l s | S k' => from rest k' end
                        end) cases d
                 | None => Done s
                 end
             | (t, body, ft) :: rest =>
                 match test t with
                 | OK true => run l s
                 | OK false => scan rest
                 | Crash => Panicked
                 | _ => Failed s
                 end
             end) cases
      | _ => Failed s
      end
  end.

Fixpoint exec_block (l : list pstmt) (s : store) : outcome :=
  match l with
  | [] => Done s
  | x :: r => match exec_stmt x s with Done s' => exec_block r s' | o => o end
  end.

End Eval.
