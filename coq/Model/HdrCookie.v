(* C17 - the Cookie header of request objects: net/http readCookies / AddCookie rendering and
   interpreter/variable/header.go removeCookieByName + setCookie (repaired: a cookie is replaced,
   further Cookie lines are kept), on the list of Cookie lines; and the header.get built-in as a
   second read path.  No proofs here. *)
From Coq Require Import List NArith Bool.
From Coq Require Import Strings.Byte.
From Falco Require Import Base.Bytes Model.HdrField.
Import ListNotations.
Local Open Scope N_scope.

Definition c_semi : byte := x3b.

(* textproto.TrimString: ASCII space, tab, LF, CR at both ends *)
Definition ascii_space (c : byte) : bool :=
  let n := b2n c in (n =? 32) || (n =? 9) || (n =? 10) || (n =? 13).
Fixpoint trim_left (s : bytes) : bytes :=
  match s with c :: t => if ascii_space c then trim_left t else s | [] => [] end.
Definition trim (s : bytes) : bytes := rev (trim_left (rev (trim_left s))).

(* strings.Cut(s, sep) for a one-byte separator: (before, after, found) *)
Fixpoint cut_byte (sep : byte) (s : bytes) : bytes * bytes * bool :=
  match s with
  | [] => ([], [], false)
  | c :: t => if byte_eqb c sep then ([], t, true)
              else let '(a, b, f) := cut_byte sep t in (c :: a, b, f)
  end.

(* httpguts token byte *)
Definition token_byte (c : byte) : bool :=
  let n := b2n c in
  ((48 <=? n) && (n <=? 57)) || ((65 <=? n) && (n <=? 90)) || ((97 <=? n) && (n <=? 122)) ||
  existsb (N.eqb n) [33; 35; 36; 37; 38; 39; 42; 43; 45; 46; 94; 95; 96; 124; 126].
Definition is_token (s : bytes) : bool := negb (is_nil s) && forallb token_byte s.

(* validCookieValueByte *)
Definition cookie_value_byte (c : byte) : bool :=
  let n := b2n c in (32 <=? n) && (n <? 127) && negb (n =? 34) && negb (n =? 59) && negb (n =? 92).

(* parseCookieValue(raw, true): (value, quoted) *)
Definition parse_cookie_value (raw : bytes) : option (bytes * bool) :=
  let quoted := (2 <=? N.of_nat (length raw)) && first_is c_dq raw && last_is c_dq raw in
  let v := if quoted then middle raw else raw in
  if forallb cookie_value_byte v then Some (v, quoted) else None.

Definition cookie := (bytes * bytes * bool)%type.    (* name, value, quoted *)

(* the parts of one line; fuel = length of the line + 1 *)
Fixpoint line_cookies (n : nat) (filter : bytes) (line : bytes) : list cookie :=
  match n with
  | O => []
  | S n' =>
    if is_nil line then []
    else
      let '(part, rest, _) := cut_byte c_semi line in
      let part := trim part in
      let more := line_cookies n' filter rest in
      if is_nil part then more
      else
        let '(name, val, _) := cut_byte c_eq part in
        let name := trim name in
        if negb (is_token name) then more
        else if negb (is_nil filter) && negb (beq filter name) then more
        else match parse_cookie_value val with
             | Some (v, q) => (name, v, q) :: more
             | None => more
             end
  end.

(* readCookies(h, filter) (the limit on the number of cookies is not modelled) *)
Definition read_cookies (filter : bytes) (lines : list bytes) : list cookie :=
  flat_map (fun l => let l' := trim l in line_cookies (S (length l')) filter l') lines.

Definition cookie_get (lines : list bytes) (key : bytes) : option bytes :=
  match filter (fun c => beq (fst (fst c)) key) (read_cookies [] lines) with
  | c :: _ => Some (snd (fst c))
  | [] => None
  end.

(* removeCookieByName: the parts that stay, per line *)
Fixpoint line_keep (n : nat) (name : bytes) (line : bytes) : list bytes :=
  match n with
  | O => []
  | S n' =>
    if is_nil line then []
    else
      let '(part, rest, _) := cut_byte c_semi line in
      let tp := trim part in
      let more := line_keep n' name rest in
      if is_nil tp then more
      else
        let '(nm, _, _) := cut_byte c_eq tp in
        if beq (trim nm) name then more else part :: more
  end.

Fixpoint join_semi (l : list bytes) : bytes :=
  match l with
  | [] => []
  | [x] => x
  | x :: t => x ++ c_semi :: join_semi t
  end.

(* the lines after removal; [] = the header is deleted *)
Definition remove_cookie (lines : list bytes) (name : bytes) : list bytes :=
  flat_map (fun l => let l' := trim l in
                     match line_keep (S (length l')) name l' with
                     | [] => []
                     | sub => [join_semi sub]
                     end) lines.

(* AddCookie's rendering *)
Definition sanitize_cookie_name (n : bytes) : bytes :=
  map (fun c => if byte_eqb c c_lf || byte_eqb c x0d then x2d else c) n.
Definition sanitize_cookie_value (v : bytes) (quoted : bool) : bytes :=
  let v' := filter cookie_value_byte v in
  if is_nil v' then []
  else if existsb (fun c => byte_eqb c x20 || byte_eqb c c_comma) v' || quoted then c_dq :: v' ++ [c_dq]
  else v'.

(* http.CreateCookie (repaired: a plain cookie when net/http does not read the pair back) *)
Definition create_cookie (key value : bytes) : cookie :=
  match (if is_nil key then [] else read_cookies key [key ++ c_eq :: value]) with
  | c :: _ => c
  | [] => (key, value, false)
  end.

(* setCookie: the Cookie lines afterwards *)
Definition cookie_set (lines : list bytes) (key value : bytes) : list bytes :=
  let '(name, v, q) := create_cookie key value in
  let s := sanitize_cookie_name name ++ c_eq :: sanitize_cookie_value v q in
  match remove_cookie lines name with
  | [] => [s]
  | l0 :: rest => if is_nil (trim l0) then s :: rest else (l0 ++ [c_semi; x20] ++ s) :: rest
  end.

(* ---- the header.get built-in ---- *)
(* shared.IsValidHeader: ^[!#$%&'*+-.0-9A-Z^_`a-z|~:]{1,126}$   ("+-." is a range: it contains the comma) *)
Definition fn_name_byte (c : byte) : bool :=
  token_byte c || byte_eqb c x2c || byte_eqb c x3a.
Definition fn_name_ok (s : bytes) : bool :=
  negb (is_nil s) && (N.of_nat (length s) <=? 126) && forallb fn_name_byte s.

(* header_get with a key: the first line `key=value` (exact key, split at the first '=') *)
Fixpoint fn_lookup (lines : list bytes) (key : bytes) : bytes :=
  match lines with
  | [] => []
  | l :: t => let '(k, v, found) := cut_byte c_eq l in
              if found && beq k key then v else fn_lookup t key
  end.
