(* C11 - linter/scope_inference.go and the map-ordered post passes of linter/linter.go.

   Names are numbers.  Go maps are iterated in an order the runtime chooses anew for every
   `range`; every such loop therefore takes the ENUMERATION ORDER as an explicit argument
   (a list of keys), and the theorems quantify over all of them.

   inferSubroutineScopes, propagation part:
       changed := true
       for changed { changed = false
         for callerName, calleeNames := range graph {             <- order of round i
           callerSub, ok := ctx.Subroutines[callerName]; if !ok || callerSub.Scopes == 0 { continue }
           for _, calleeName := range calleeNames {
             if explicitScopes[calleeName] { continue }
             calleeSub, ok := ctx.Subroutines[calleeName]; if !ok { continue }
             newScopes := calleeSub.Scopes | callerSub.Scopes
             if newScopes != calleeSub.Scopes { calleeSub.Scopes = newScopes; changed = true } } } }
   Scopes are bit masks (N, N.lor).  The outer loop is recursion on fuel (one unit per round). *)
From Coq Require Import List Arith Bool NArith.
From Falco Require Import Base.Res.
Import ListNotations.

Definition name := nat.
Definition state := name -> N.                       (* ctx.Subroutines[n].Scopes *)
Definition upd (s : state) (k : name) (v : N) : state := fun x => if Nat.eqb x k then v else s x.

Section Infer.
Variable present : name -> bool.                     (* n is a key of ctx.Subroutines *)
Variable explicit : name -> bool.                    (* explicitScopes[n] *)
Variable callees : name -> list name.                (* graph[n]; [] when n is no key of graph *)

Definition step_callee (caller : name) (acc : state * bool) (callee : name) : state * bool :=
  let (s, ch) := acc in
  if explicit callee then acc
  else if negb (present callee) then acc
  else let nw := N.lor (s callee) (s caller) in
       if N.eqb nw (s callee) then acc else (upd s callee nw, true).

Definition step_caller (acc : state * bool) (caller : name) : state * bool :=
  let (s, ch) := acc in
  if negb (present caller) || N.eqb (s caller) 0 then acc
  else fold_left (step_callee caller) (callees caller) acc.

(* one execution of `for callerName, calleeNames := range graph` in the given key order *)
Definition round (order : list name) (s : state) : state * bool :=
  fold_left step_caller order (s, false).

(* orders i = the key order the runtime picks for round i *)
Fixpoint infer (fuel : nat) (orders : nat -> list name) (i : nat) (s : state) : res state :=
  match fuel with
  | O => OutOfFuel
  | S f => let (s', ch) := round (orders i) s in
           if ch then infer f orders (S i) s' else OK s'
  end.
End Infer.

(* ---------------------------------------------------------------- detectRecursion
   for startName := range graph { visited, path := fresh; if dfs(startName) { inCycle[startName] = true } }
   dfs(name): if path[name] {return true}; if visited[name] {return false};
              visited[name] = true; path[name] = true
              if slices.ContainsFunc(graph[name], dfs) { inCycle[name] = true; return true }
              path[name] = false; return false
   inCycle is only ever written during the search, so the writes are the third component of
   the result (in program order).  The recursion of dfs is recursion on fuel. *)
Definition mname (x : nat) (l : list nat) : bool := existsb (Nat.eqb x) l.
Definition rname (x : nat) (l : list nat) : list nat := filter (fun y => negb (Nat.eqb x y)) l.

Record dst := { visited : list name; path : list name }.

Section Detect.
Variable callees : name -> list name.

Fixpoint dfs (fuel : nat) (n : name) (st : dst) {struct fuel} : res (bool * dst * list name) :=
  match fuel with
  | O => OutOfFuel
  | S f =>
    if mname n (path st) then OK (true, st, [])
    else if mname n (visited st) then OK (false, st, [])
    else
      let st1 := {| visited := n :: visited st; path := n :: path st |} in
      do r <- (fix any (l : list name) (st : dst) : res (bool * dst * list name) :=
                 match l with
                 | [] => OK (false, st, [])
                 | c :: rest =>
                   do r1 <- dfs f c st;
                   let '(b, st', w) := r1 in
                   if b then OK (true, st', w)
                   else do r2 <- any rest st';
                        let '(b2, st'', w2) := r2 in OK (b2, st'', w ++ w2)
                 end) (callees n) st1;
      let '(found, st2, w) := r in
      if found then OK (true, st2, w ++ [n])
      else OK (false, {| visited := visited st2; path := rname n (path st2) |}, w)
  end.

(* the names written into inCycle by the iteration for one start name *)
Definition marks (fuel : nat) (start : name) : res (list name) :=
  do r <- dfs fuel start {| visited := []; path := [] |};
  let '(found, _, w) := r in OK (if found then w ++ [start] else w).

(* all writes, for one enumeration order of the keys of graph *)
Fixpoint detect (fuel : nat) (order : list name) : res (list name) :=
  match order with
  | [] => OK []
  | s :: r => do w <- marks fuel s; do w' <- detect fuel r; OK (w ++ w')
  end.
End Detect.

(* ---------------------------------------------------------------- map-ordered post passes
   lintUnusedTables/Acls/Backends/Subroutines/Gotos/Penaltyboxes/Ratecounters/Variables and the
   report loop of detectRecursion all have the shape
       for k, v := range m { if skip(k, v) { continue }; l.Error(diag(k, v)) }
   i.e. a fold over the map in an arbitrary key order appending at most one diagnostic per key. *)
Section Unused.
Variable D : Type.                                   (* diagnostics *)
Variable report : name -> option D.                  (* None = used / skipped *)

Definition unused (order : list name) : list D :=
  flat_map (fun k => match report k with Some d => [d] | None => [] end) order.
End Unused.

(* ---------------------------------------------------------------- registration, graph, initial scopes
   (what the harness feeds the model: the subroutine declarations in statement order) *)
Record decl := {
  d_name : name;
  d_fastly : bool;          (* context.IsFastlySubroutine(name): vcl_recv ... vcl_log, vcl_pipe *)
  d_rejected : bool;        (* the name is a builtin function or function namespace (math, h2, std ...):
                               AddSubroutine / AddUserDefinedFunction return "duplicate definition" and the
                               subroutine is never registered (its calls still enter the call graph) *)
  d_scope : N;              (* fastlyScopes[name], else getSubroutineCallScope(decl) when > 0, else 0 *)
  d_callees : list name;    (* extractCallees(decl.Block) *)
}.

Fixpoint find_decl (n : name) (l : list decl) : option decl :=
  match l with
  | [] => None
  | d :: r => if Nat.eqb (d_name d) n then Some d else find_decl n r
  end.

(* ctx.Subroutines after factoryRootDeclarations: a non-Fastly duplicate is rejected (first wins),
   a Fastly name is overwritten (last wins) *)
Fixpoint register (ds : list decl) (reg : list decl) : list decl :=
  match ds with
  | [] => reg
  | d :: r =>
    if d_rejected d then register r reg else
    match find_decl (d_name d) reg with
    | Some _ => if d_fastly d
                then register r (map (fun e => if Nat.eqb (d_name e) (d_name d) then d else e) reg)
                else register r reg
    | None => register r (reg ++ [d])
    end
  end.

(* buildCallGraph (repaired: commit "fix: call graph keeps only the calls of the last declaration"):
   graph[name] = append(graph[name], callees...) when the declaration has at least one callee *)
Fixpoint build_graph (ds : list decl) (g : list (name * list name)) : list (name * list name) :=
  match ds with
  | [] => g
  | d :: r =>
    match d_callees d with
    | [] => build_graph r g
    | cs => if existsb (fun kv => Nat.eqb (fst kv) (d_name d)) g
            then build_graph r (map (fun kv => if Nat.eqb (fst kv) (d_name d) then (d_name d, snd kv ++ cs) else kv) g)
            else build_graph r (g ++ [(d_name d, cs)])
    end
  end.

Fixpoint lookup_callees (g : list (name * list name)) (n : name) : list name :=
  match g with
  | [] => []
  | (k, v) :: r => if Nat.eqb k n then v else lookup_callees r n
  end.

Definition init_state (reg : list decl) : state :=
  fun n => match find_decl n reg with Some d => d_scope d | None => 0%N end.

Definition is_present (reg : list decl) (n : name) : bool :=
  match find_decl n reg with Some _ => true | None => false end.

Definition is_explicit (reg : list decl) (n : name) : bool :=
  match find_decl n reg with Some d => negb (N.eqb (d_scope d) 0) | None => false end.

(* whole inference for a program, with given per-round key orders; result listed per registered sub *)
Definition infer_program (top_bits : nat) (ds : list decl) (perm : nat -> list name -> list name)
  : res (list (name * N)) :=
  let reg := register ds [] in
  let g := build_graph ds [] in
  let keys := map fst g in
  do s <- infer (is_present reg) (is_explicit reg) (lookup_callees g)
                (S (top_bits * length reg)) (fun i => perm i keys) 0 (init_state reg);
  OK (map (fun d => (d_name d, s (d_name d))) reg).

Definition detect_program (ds : list decl) (perm : list name -> list name) : res (list name) :=
  let g := build_graph ds [] in
  let keys := map fst g in
  detect (lookup_callees g) (S (length keys + length (flat_map snd g))) (perm keys).
