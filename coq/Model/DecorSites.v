(* C09 - the hand-audited list of call sites that render an ast.Node to text outside error
   messages (compared with Gen/StringSites.v, regenerated from the sources, by
   string_sites_audited).  Every site is either Repaired (the decision now uses a comment-free
   value; the remaining call is a fallback that cannot influence a decision) or ModelledAsText
   (the rendered text, comments included, still reaches the named sink).
   Repaired by removing the call altogether (no longer listed by the translator):
   linter/declaration_linter.go lintAclDeclaration cidr.Mask (now the mask value),
   linter/expression_linter.go lintFunctionCallExpression exp.Function (now the identifier value),
   parser/statement_parser.go ParseSwitchStatement clause.Test.Right / o.Test.Right (now caseLabel). *)
From Coq Require Import List String.
Import ListNotations.
Local Open Scope string_scope.

Inductive disposition : Type := Repaired | ModelledAsText.

Definition audited_sites : list ((string * string * string) * disposition) := [
  (* hash / client director: the backend is picked by sha256 of a rendering of the backend declaration; since
     "fix: a comment in a backend declaration changes the backend ..." the rendering is that of a copy
     without comments (backendHashSource), so this String() call no longer sees comments *)
  (("interpreter/director.go", "backendHashSource", "c"), Repaired);
  (* next state: identifiers use their Value; the fallback renders a non-identifier, which is never a state *)
  (("interpreter/statement.go", "ProcessReturnStatement", "stmt.ReturnExpression"), Repaired);
  (("linter/statement_linter.go", "lintReturnStatement", "stmt.ReturnExpression"), Repaired);
  (* duplicate case labels: strings, identifiers, groups and concatenations are compared without
     comments; any other node kind falls back to its rendering *)
  (("parser/statement_parser.go", "caseLabel", "e"), Repaired);
  (* group label of a test case in the test report *)
  (("tester/tester.go", "runDescribedTests", "d.Name"), ModelledAsText)
].
