(* C20 - VCL generated from remote / Terraform resources: snippet/template.go (repaired: string
   values go through `quote`, ACL comments through `comment`, backend names in directors through
   `sanitize`), the string lexing of lexer/reader.go (readString) and parser/string_escape.go
   (decodeStringEscapes), and the part of the table / acl grammar the templates produce.
   No proofs here. *)
From Coq Require Import List NArith Bool.
From Coq Require Import Strings.Byte.
From Falco Require Import Base.Res Base.Bytes Base.Utf8.
Import ListNotations.
Local Open Scope N_scope.

Definition bytes := list byte.

Definition c_dq : byte := x22.
Definition c_pct : byte := x25.
Definition c_lf : byte := x0a.
Definition c_cr : byte := x0d.
Definition c_sp : byte := x20.

(* ---------------------------------------------------------------- template helper functions *)
(* strings.NewReplacer(''%'', ''%25'', `''`, ''%22'', ''\n'', ''%0A'', ''\r'', ''%0D'') *)
Definition quote_byte (b : byte) : bytes :=
  if byte_eqb b c_pct then [x25; x32; x35]
  else if byte_eqb b c_dq then [x25; x32; x32]
  else if byte_eqb b c_lf then [x25; x30; x41]
  else if byte_eqb b c_cr then [x25; x30; x44]
  else [b].
Definition vcl_quote (s : bytes) : bytes := flat_map quote_byte s.

(* strings.NewReplacer(''\r'', '' '', ''\n'', '' '') *)
Definition clean_comment (s : bytes) : bytes :=
  map (fun b => if byte_eqb b c_cr || byte_eqb b c_lf then c_sp else b) s.

(* regexp `\W` -> ''_'' : every rune that is not [0-9A-Za-z_] becomes one underscore *)
Definition word_rune (r : N) : bool :=
  ((48 <=? r) && (r <=? 57)) || ((65 <=? r) && (r <=? 90)) || ((97 <=? r) && (r <=? 122)) || (r =? 95).
Definition sanitize (s : bytes) : bytes :=
  map (fun r => if word_rune r then n2b r else x5f) (dec_all s).

(* the templates before the repair interpolated the text as it is *)
Definition raw_quote (s : bytes) : bytes := s.

(* ---------------------------------------------------------------- lexer: readString *)
(* after the opening quote: runes up to the closing quote or NUL (end of input reads as NUL);
   an ill-formed byte is read as U+FFFD.  (literal, rest after the terminator) *)
Fixpoint read_string_fuel (n : nat) (s : bytes) : res (bytes * bytes) :=
  match n with
  | O => OutOfFuel
  | S n' =>
    match s with
    | [] => OK ([], [])
    | _ =>
      let '(c, sz) := dec_rune s in
      let rest := skipn sz s in
      if (c =? 34) || (c =? 0) then OK ([], rest)
      else match read_string_fuel n' rest with
           | OK (lit, r) => OK (enc_rune c ++ lit, r)
           | Err => Err | Crash => Crash | OutOfFuel => OutOfFuel
           end
    end
  end.
Definition read_string (s : bytes) : res (bytes * bytes) := read_string_fuel (S (length s)) s.

(* ---------------------------------------------------------------- parser: decodeStringEscapes *)
Definition hex_val (b : byte) : option N :=
  let n := b2n b in
  if (48 <=? n) && (n <=? 57) then Some (n - 48)
  else if (97 <=? n) && (n <=? 102) then Some (n - 87)
  else if (65 <=? n) && (n <=? 70) then Some (n - 55)
  else None.

(* readByte: two hex digits *)
Definition read_hex2 (s : bytes) : option (N * bytes) :=
  match s with
  | a :: b :: t => match hex_val a, hex_val b with
                   | Some x, Some y => Some (x * 16 + y, t)
                   | _, _ => None
                   end
  | _ => None
  end.

(* up to [maxn] hex digits: (value, digits read, rest) *)
Fixpoint read_hex_upto (maxn : nat) (s : bytes) (acc : N) (cnt : nat) : N * nat * bytes :=
  match maxn with
  | O => (acc, cnt, s)
  | S m => match s with
           | b :: t => match hex_val b with
                       | Some v => read_hex_upto m t (acc * 16 + v) (S cnt)
                       | None => (acc, cnt, s)
                       end
           | [] => (acc, cnt, s)
           end
  end.

(* what one escape produces *)
Inductive esc_result :=
| EBytes (out : bytes) (rest : bytes)
| EStop                  (* NUL: processing of the string stops here *)
| EError.

(* %uXXXX  /  %u{X..XXXXXX}   (after the 'u') *)
Definition code_point_escape (s : bytes) : esc_result :=
  let braced := match s with b :: _ => byte_eqb b x7b | [] => false end in
  let s1 := if braced then tl s else s in
  let '(x, cnt, s2) := read_hex_upto (if braced then 6 else 4) s1 0 0 in
  if Nat.ltb cnt (if braced then 1 else 4) then EError
  else
    let closed := if braced then match s2 with b :: _ => byte_eqb b x7d | [] => false end else true in
    if negb closed then EError
    else
      let s3 := if braced then tl s2 else s2 in
      if x =? 0 then EStop
      else if 1114111 <? x then EError
      else if (55296 <=? x) && (x <=? 57343) then EError
      else EBytes (enc_rune x) s3.

(* %XX[%XX[%XX[%XX]]]   (after the '%') *)
Definition utf8_escape (s : bytes) : esc_result :=
  match read_hex2 s with
  | None => EError
  | Some (b1, s1) =>
    if b1 <? 128 then (if b1 =? 0 then EStop else EBytes [n2b b1] s1)
    else
      let n := if (192 <=? b1) && (b1 <=? 223) then 2%nat
               else if (224 <=? b1) && (b1 <=? 239) then 3%nat
               else if (240 <=? b1) && (b1 <=? 247) then 4%nat else 0%nat in
      match n with
      | O => EError
      | S k =>
        (fix more (k : nat) (acc : bytes) (s : bytes) : esc_result :=
           match k with
           | O => let '(c, sz) := dec_rune acc in
                  (* utf8.DecodeRune(bs): RuneError (also a well-formed U+FFFD) is refused *)
                  if c =? rune_error then EError else EBytes (enc_rune c) s
           | S k' => match s with
                     | p :: t => if byte_eqb p c_pct then
                                   match read_hex2 t with
                                   | Some (b, t') => more k' (acc ++ [n2b b]) t'
                                   | None => EError
                                   end
                                 else EError
                     | [] => EError
                     end
           end) k [n2b b1] s1
      end
  end.

Fixpoint decode_fuel (n : nat) (s : bytes) : res bytes :=
  match n with
  | O => OutOfFuel
  | S n' =>
    match s with
    | [] => OK []
    | _ =>
      let '(c, sz) := dec_rune s in
      let rest := skipn sz s in
      if c =? 0 then OK []
      else if c =? 37 then
        let r := match rest with
                 | b :: t => if byte_eqb b x75 then code_point_escape t else utf8_escape rest
                 | [] => utf8_escape rest
                 end in
        match r with
        | EError => Err
        | EStop => OK []
        | EBytes out rest' =>
          match decode_fuel n' rest' with
          | OK t => OK (out ++ t)
          | Err => Err | Crash => Crash | OutOfFuel => OutOfFuel
          end
        end
      else
        match decode_fuel n' rest with
        | OK t => OK (enc_rune c ++ t)
        | Err => Err | Crash => Crash | OutOfFuel => OutOfFuel
        end
    end
  end.
Definition decode_string_escapes (s : bytes) : res bytes := decode_fuel (S (length s)) s.

(* ---------------------------------------------------------------- rendering (text/template) *)
Definition bs_table_open (name : bytes) : bytes :=
  [x0a; x74; x61; x62; x6c; x65; x20] ++ name ++ [x20; x53; x54; x52; x49; x4e; x47; x20; x7b].   (* LF table NAME STRING { *)
Definition bs_close : bytes := [x0a; x7d; x0a].                                                  (* LF } LF *)

Definition render_item (q : bytes -> bytes) (kv : bytes * bytes) : bytes :=
  [x0a; x20; x20; x22] ++ q (fst kv) ++ [x22; x3a; x20; x22] ++ q (snd kv) ++ [x22; x2c].         (* LF sp sp ''k'': ''v'', *)

Definition render_dict_with (q : bytes -> bytes) (name : bytes) (items : list (bytes * bytes)) : bytes :=
  bs_table_open name ++ flat_map (render_item q) items ++ bs_close.
Definition render_dict := render_dict_with vcl_quote.
Definition render_dict_raw := render_dict_with raw_quote.

(* decimal digits of a number (Go %d of a non-negative integer) *)
Fixpoint dec_fuel (n : nat) (x : N) : bytes :=
  match n with
  | O => []
  | S n' => if x <? 10 then [n2b (48 + x)] else dec_fuel n' (x / 10) ++ [n2b (48 + x mod 10)]
  end.
Definition decimal (x : N) : bytes := dec_fuel 40 x.

Record acl_entry := { a_neg : bool; a_ip : bytes; a_mask : option N; a_comment : bytes }.

Definition render_entry_with (cl : bytes -> bytes) (e : acl_entry) : bytes :=
  [x0a; x09] ++ (if a_neg e then [x21] else []) ++ [x22] ++ a_ip e ++ [x22] ++
  (match a_mask e with Some m => x2f :: decimal m | None => [] end) ++ [x3b] ++
  (match a_comment e with [] => [] | c => [x20; x20; x23; x20] ++ cl c end).
Definition render_acl_with (cl : bytes -> bytes) (name : bytes) (es : list acl_entry) : bytes :=
  [x0a; x61; x63; x6c; x20] ++ name ++ [x20; x7b] ++ flat_map (render_entry_with cl) es ++ bs_close.
Definition render_acl := render_acl_with clean_comment.
Definition render_acl_raw := render_acl_with (fun c => c).

Definition render_backend (name : bytes) (address : option bytes) : bytes :=
  [x0a; x62; x61; x63; x6b; x65; x6e; x64; x20; x46; x5f] ++ sanitize name ++ [x20; x7b; x0a; x09] ++
  (match address with
   | Some a => [x2e; x68; x6f; x73; x74; x20; x3d; x20; x22] ++ vcl_quote a ++ [x22; x3b]
   | None => []
   end) ++ bs_close.

Definition print_type (t : N) : bytes :=
  if t =? 1 then [x72; x61; x6e; x64; x6f; x6d]
  else if t =? 2 then [x68; x61; x73; x68]
  else if t =? 3 then [x63; x6c; x69; x65; x6e; x74]
  else if t =? 4 then [x73; x68; x69; x65; x6c; x64] else [].

Definition render_director (name : bytes) (ty retries quorum : N) (backends : list bytes) : bytes :=
  let retries' := if ty =? 1 then retries else 0 in
  [x0a; x64; x69; x72; x65; x63; x74; x6f; x72; x20] ++ sanitize name ++ [x20] ++ print_type ty ++ [x20; x7b] ++
  (if retries' =? 0 then [] else [x0a; x09; x2e; x72; x65; x74; x72; x69; x65; x73; x20; x3d; x20] ++ decimal retries' ++ [x3b]) ++
  [x0a; x09; x2e; x71; x75; x6f; x72; x75; x6d; x20; x3d; x20] ++ decimal quorum ++ [x25; x3b] ++
  flat_map (fun b => [x0a; x09; x7b; x20; x2e; x62; x61; x63; x6b; x65; x6e; x64; x20; x3d; x20; x46; x5f] ++ sanitize b ++
                     [x3b; x20; x2e; x77; x65; x69; x67; x68; x74; x20; x3d; x20; x31; x3b; x20; x7d]) backends ++
  bs_close.

(* ---------------------------------------------------------------- the grammar the templates use *)
Definition is_blank (b : byte) : bool :=
  byte_eqb b c_sp || byte_eqb b x09 || byte_eqb b c_lf || byte_eqb b c_cr.
Fixpoint skip_blank (s : bytes) : bytes :=
  match s with b :: t => if is_blank b then skip_blank t else s | [] => [] end.

(* table body after '{':  ( STRING ':' STRING ( ',' | before '}' ) )* '}' *)
Fixpoint parse_items (n : nat) (s : bytes) : res (list (bytes * bytes)) :=
  match n with
  | O => OutOfFuel
  | S n' =>
    match skip_blank s with
    | b :: t =>
      if byte_eqb b x7d then OK []
      else if byte_eqb b c_dq then
        do kr <- read_string t;
        do k <- decode_string_escapes (fst kr);
        match skip_blank (snd kr) with
        | c :: t1 =>
          if byte_eqb c x3a then
            match skip_blank t1 with
            | d :: t2 =>
              if byte_eqb d c_dq then
                do vr <- read_string t2;
                do v <- decode_string_escapes (fst vr);
                match skip_blank (snd vr) with
                | e :: t3 =>
                  if byte_eqb e x2c then
                    do rest <- parse_items n' t3; OK ((k, v) :: rest)
                  else if byte_eqb e x7d then OK [(k, v)]
                  else Err
                | [] => Err
                end
              else Err
            | [] => Err
            end
          else Err
        | [] => Err
        end
      else Err
    | [] => Err
    end
  end.

(* `table NAME STRING {` is skipped textually: the body starts after the first '{' *)
Fixpoint after_brace (s : bytes) : option bytes :=
  match s with b :: t => if byte_eqb b x7b then Some t else after_brace t | [] => None end.

Definition parse_table (s : bytes) : res (list (bytes * bytes)) :=
  match after_brace s with
  | Some body => parse_items (S (length body)) body
  | None => Err
  end.
