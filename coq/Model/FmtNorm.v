(* Token-stream model of the formatter - the rewrites.

   [norm c ts] is the token stream of the formatted text predicted from the token stream [ts]
   of the source: comment markers restyled, then ONE left-to-right pass over the significant
   tokens (each with the comments before it) that applies the documented local rewrites, then
   the top-level declarations sorted when [sort_declaration] is set.

   The pass looks one token ahead ([nk], the kind of the next significant token).  Its state is
   updated from the tokens it EMITS ([adv]), plus three bits for pending deletions.

   Mirrors: formatter/formatter.go (Format, formatComment), helper.go (formatCommentCharacter),
   expression_format.go (formatInfixExpression, canJuxtapose), statement_format.go
   (formatIfStatement keyword, formatReturnStatement, formatRemoveStatement, formatCallStatement),
   declaration_format.go (formatTableProperties EndCharacter ",", formatSubroutineDeclaration),
   lines.go (Declarations.Sort).  Not modelled: sort_declaration_property (needs the empty-line
   groups of the layout), every layout option.  No proofs here. *)
From Coq Require Import List Bool NArith Arith Strings.String.
From Coq Require Import Strings.Byte.
From Falco Require Import Base.Bytes Model.FmtTok.
Import ListNotations.

(* ---------------------------------------------------------------- comment markers *)
Definition c_sharp : byte := "#"%byte.
Definition c_slash : byte := "/"%byte.
Definition c_star : byte := "*"%byte.

(* formatComment + formatCommentCharacter: the leading run of the marker character is replaced;
   block comments and the #FASTLY macro are never touched; a single "#" becomes "//" *)
Definition restyle_text (cs : cstyle) (t : bytes) : bytes :=
  if starts_with (bs "#FASTLY") t then t else
  match cs with
  | CNone => t
  | CSharp =>
      match t with
      | a :: b :: _ =>
          if byte_eqb a c_slash && negb (byte_eqb b c_star)
          then let n := count_prefix c_slash t in repeat c_sharp n ++ skipn n t
          else t
      | _ => t
      end
  | CSlash =>
      match t with
      | a :: _ =>
          if byte_eqb a c_sharp
          then let n := count_prefix c_sharp t in repeat c_slash (Nat.max n 2) ++ skipn n t
          else t
      | _ => t
      end
  end.

Definition restyle (c : fmt_config) (x : com) : com := Com (clf x) (restyle_text (comment_style c) (ctx x)).

(* ---------------------------------------------------------------- state of the pass *)
Inductive mode_t :=
| MStart            (* a statement / declaration / property starts here *)
| MNoExpr           (* no expression before the next terminator *)
| MUntilAssign      (* set / add / declare / .property: the expression starts after the assignment operator *)
| MUntilColon       (* default label *)
| MCase             (* case <expression> : juxtaposition = concatenation, up to the colon *)
| MExpr             (* inside an expression: juxtaposition = concatenation *)
| MCall0            (* after "call" *)
| MCallName         (* after "call <name>" *)
| MErr0             (* after "error" *)
| MErr1             (* after "error <code>" *)
| MErrCall (d : nat). (* inside the parentheses of "error f(...)" *)

Inductive ret_t :=
| RNo
| RWant (paren : bool)                     (* "return" was just emitted; [paren] = parentheses wanted *)
| RBody (paren drop : bool) (d : nat).      (* inside a return statement: [d] open parentheses emitted,
                                              [drop] = its opening parenthesis was removed *)

Record st := St {
  mode : mode_t; pe : bool;                (* [pe]: the previous token ends an operand *)
  depth : nat; fn : bool;                  (* brace depth; inside a subroutine with a return type *)
  hdr : option (nat * bool);               (* reading "sub <name> ...": tokens seen, last one is IDENT *)
  tblp : bool; tbl : bool;                 (* "table" seen at depth 0; inside the table body *)
  prev : kind;                             (* previous emitted token *)
  rt : ret_t;
  dp : bool                                (* the next token is the ")" of a removed "()" *)
}.

Definition st0 : st := St MStart false 0 false None false false KSemi RNo false.

Definition inexpr (m : mode_t) : bool :=
  match m with MExpr | MErrCall _ | MCallName | MCase => true | _ => false end.

Definition is_label (t : tok) : bool := kis (tk t) KIdent && last_is ":"%byte (tl t).

Definition next_mode (m : mode_t) (p : bool) (t : tok) : mode_t * bool :=
  let k := tk t in
  if terminator k then (MStart, false) else
  match m with
  | MStart =>
      match k with
      | KReturn | KLog | KSynthetic | KSynthetic64 | KIf | KElseIf | KElsIf | KSwitch => (MExpr, false)
      | KSet | KAdd | KDeclare | KDot => (MUntilAssign, false)
      | KError => (MErr0, false)
      | KCall => (MCall0, false)
      | KIdent => (if is_label t then MStart else MExpr, false)
      | KElse => (MStart, false)
      | KCase => (MCase, false)
      | KDefault => (MUntilColon, false)
      | _ => (MNoExpr, false)
      end
  | MNoExpr => (MNoExpr, false)
  | MUntilAssign => (match k with KAssign _ => MExpr | _ => MUntilAssign end, false)
  | MUntilColon => (match k with KColon => MStart | _ => MUntilColon end, false)
  | MCase => (match k with KColon => MStart | _ => MCase end, opend k)
  | MExpr => (MExpr, opend k)
  | MCall0 => (MCallName, false)
  | MCallName => (MExpr, opend k)
  | MErr0 => (MErr1, false)
  | MErr1 => match k with KLParen => (MErrCall 1, false) | _ => (MExpr, opend k) end
  | MErrCall d =>
      match k with
      | KLParen => (MErrCall (S d), false)
      | KRParen => match d with 0 | 1 => (MExpr, false) | S d' => (MErrCall d', true) end
      | _ => (MErrCall d, opend k)
      end
  end.

Definition at_start (m : mode_t) : bool := match m with MStart => true | _ => false end.

(* state after EMITTING token [t] *)
Definition adv (c : fmt_config) (s : st) (t : tok) : st :=
  let k := tk t in
  let (m', p') := next_mode (mode s) (pe s) t in
  let hdr' :=
    match k with
    | KSub => if Nat.eqb (depth s) 0 && at_start (mode s) then Some (0, false) else hdr s
    | KLBrace => None
    | _ => match hdr s with Some (n, _) => Some (S n, kis k KIdent) | None => None end
    end in
  let fn' :=
    match k with
    | KLBrace => if Nat.eqb (depth s) 0
                 then match hdr s with Some (n, true) => Nat.leb 2 n | _ => false end
                 else fn s
    | KRBrace => if Nat.leb (depth s) 1 then false else fn s
    | _ => fn s
    end in
  let depth' := match k with KLBrace => S (depth s) | KRBrace => pred (depth s) | _ => depth s end in
  let tblp' := match k with
               | KTable => if Nat.eqb (depth s) 0 && at_start (mode s) then true else tblp s
               | KLBrace => false
               | _ => tblp s end in
  let tbl' := match k with
              | KLBrace => if Nat.eqb (depth s) 0 then tblp s else tbl s
              | KRBrace => if Nat.leb (depth s) 1 then false else tbl s
              | _ => tbl s end in
  let rt' :=
    match rt s with
    | RNo => if kis k KReturn && at_start (mode s)
             then RWant (return_statement_parenthesis c && negb (fn s)) else RNo
    | RWant w => if terminator k then RNo else RBody w false (if kis k KLParen then 1 else 0)
    | RBody w dr d =>
        if terminator k then RNo
        else if kis k KLParen then RBody w dr (S d)
        else if kis k KRParen then RBody w (dr && negb (Nat.eqb d 0)) (pred d)
        else RBody w dr d
    end in
  (* the token that ends a top-level declaration leaves the initial state *)
  if (kis k KRBrace && Nat.leb (depth s) 1) || (kis k KSemi && Nat.eqb (depth s) 0)
  then St MStart false 0 false None false false KSemi RNo false
  else St m' p' depth' fn' hdr' tblp' tbl' k rt' false.

(* ---------------------------------------------------------------- one step *)
Inductive patch := PNone | PSetDp | PClrDp | PRetOpen | PRetClose.

Inductive action :=
| AKeep                          (* emit the token with its comments *)
| ADrop (p : patch)              (* emit nothing; the comments go to the next token *)
| AInsBefore (x : tok)           (* comments, x, token *)
| AInsSplit (x : tok)            (* comments on the previous line, x, the other comments, token *)
| AInsClose (n : nat)            (* comments, n closing parentheses, token      (return ( value ")" ;) *)
| AReplace (ts : list tok).      (* comments, ts *)

Definition nk_is (nk : option kind) (k : kind) : bool :=
  match nk with Some x => kis x k | None => false end.
Definition nk_juxt (nk : option kind) : bool :=
  match nk with Some x => juxt x | None => false end.

Definition spelling (c : fmt_config) (t : tok) : action :=
  let k := tk t in
  if else_if c && (kis k KElseIf || kis k KElsIf) then AReplace [t_else; t_if]
  else if should_use_unset c && kis k KRemove then AReplace [t_unset]
  else AKeep.

Definition normal (c : fmt_config) (s : st) (t : tok) (nk : option kind) : action :=
  let k := tk t in
  if tbl s && kis k KRBrace && negb (kis (prev s) KComma || kis (prev s) KLBrace) then AInsSplit t_comma
  else if inexpr (mode s) && pe s then
    if explicit_string_concat c && juxt k then AInsBefore t_plus
    else if negb (explicit_string_concat c) && kis k KPlus && nk_juxt nk then ADrop PNone
    else spelling c t
  else spelling c t.

Definition decide (c : fmt_config) (s : st) (t : tok) (nk : option kind) : action :=
  let k := tk t in
  if dp s && kis k KRParen then ADrop PClrDp
  else if kis k KLParen && nk_is nk KRParen
          && (match mode s with MCallName => true | _ => false end
              || match hdr s with Some (1, _) => true | _ => false end)
       then ADrop PSetDp                                   (* call f() ; sub f() *)
  else match rt s with
  | RWant true => normal c s t nk                         (* the "(" is inserted by [step] *)
  | RWant false =>
      if kis k KLParen && negb (nk_is nk KLParen) then ADrop PRetOpen else normal c s t nk
  | RBody w dr d =>
      if kis k KRParen && Nat.eqb d 0 && dr && nk_is nk KSemi then ADrop PRetClose
      else if kis k KSemi && w && Nat.ltb 0 d then AInsClose d
      else normal c s t nk
  | RNo => normal c s t nk
  end.

Fixpoint split_lf0 (cs : list com) : list com * list com :=
  match cs with
  | x :: r => if clf x then ([], cs) else let (a, b) := split_lf0 r in (x :: a, b)
  | [] => ([], [])
  end.

(* emitted items and the comments carried to the next token *)
Definition emit (a : action) (cs : list com) (t : tok) : list item * list com :=
  match a with
  | AKeep => ([(cs, t)], [])
  | ADrop _ => ([], cs)
  | AInsBefore x => ([(cs, x); ([], t)], [])
  | AInsSplit x => let (a0, b0) := split_lf0 cs in ([(a0, x); (b0, t)], [])
  | AInsClose n =>
      match n with
      | 0 => ([(cs, t)], [])
      | S m => ((cs, t_rparen) :: map (fun y => ([], y)) (repeat t_rparen m ++ [t]), [])
      end
  | AReplace ts =>
      match ts with
      | [] => ([(cs, t)], [])
      | x :: r => ((cs, x) :: map (fun y => ([], y)) r, [])
      end
  end.

Definition apply_patch (p : patch) (s : st) : st :=
  match p with
  | PNone | PClrDp => St (mode s) (pe s) (depth s) (fn s) (hdr s) (tblp s) (tbl s) (prev s) (rt s) false
  | PSetDp => St (mode s) (pe s) (depth s) (fn s) (hdr s) (tblp s) (tbl s) (prev s) (rt s) true
  | PRetOpen => St (mode s) (pe s) (depth s) (fn s) (hdr s) (tblp s) (tbl s) (prev s) (RBody false true 0) false
  | PRetClose =>
      let r := match rt s with RBody w _ _ => RBody w false 0 | x => x end in
      St (mode s) (pe s) (depth s) (fn s) (hdr s) (tblp s) (tbl s) (prev s) r false
  end.

Definition step0 (c : fmt_config) (s : st) (cs : list com) (t : tok) (nk : option kind)
  : list item * st * list com :=
  let a := decide c s t nk in
  let (out, carry) := emit a cs t in
  let s1 := fold_left (adv c) (map snd out) s in
  let s2 := match a with ADrop p => apply_patch p s1 | _ => s1 end in
  (out, s2, carry).

(* "return" was just emitted and parentheses are wanted: unless the value starts with one (or there
   is no value) a "(" is emitted first - before the comments of the value - and the token is
   then handled as usual *)
Definition opens_return (s : st) (t : tok) : bool :=
  match rt s with
  | RWant true => negb (kis (tk t) KSemi || kis (tk t) KLParen)
  | _ => false
  end.

Definition step (c : fmt_config) (s : st) (cs : list com) (t : tok) (nk : option kind)
  : list item * st * list com :=
  if opens_return s t
  then let '(out, s', carry) := step0 c (adv c s t_lparen) cs t nk in (([], t_lparen) :: out, s', carry)
  else step0 c s cs t nk.

Definition head_kind (its : list item) : option kind :=
  match its with (_, t) :: _ => Some (tk t) | [] => None end.

(* the pass: [carry] = comments of removed tokens, they precede the next emitted token *)
Fixpoint run (c : fmt_config) (s : st) (carry : list com) (its : list item) : list item * list com :=
  match its with
  | [] => ([], carry)
  | (cs, t) :: rest =>
      let '(out, s', carry') := step c s (carry ++ cs) t (head_kind rest) in
      let (outs, tail) := run c s' carry' rest in
      (out ++ outs, tail)
  end.

(* ---------------------------------------------------------------- top-level declarations *)
(* the items of one declaration: it ends with the "}" that returns to depth 0 or with a ";" at
   depth 0.  [chunks] returns the complete declarations and the unfinished remainder. *)
Fixpoint chunks (d : nat) (acc : list item) (its : list item) : list (list item) * list item :=
  match its with
  | [] => ([], rev acc)
  | (cs, t) :: rest =>
      let k := tk t in
      let d' := match k with KLBrace => S d | KRBrace => pred d | _ => d end in
      if (kis k KRBrace || kis k KSemi) && Nat.eqb d' 0
      then let (gs, r) := chunks d' [] rest in (rev ((cs, t) :: acc) :: gs, r)
      else chunks d' ((cs, t) :: acc) rest
  end.

(* a declaration with the comments that trail it (on the line of its last token); the comments
   before its first token lead it *)
Record group := Group { g_items : list item; g_trail : list com }.

(* the comments before the first token of a declaration that sit on the previous token's line *)
Definition strip (g : list item) : list com * list item :=
  match g with
  | (cs, t) :: more => let (tr, lead) := split_lf0 cs in (tr, (lead, t) :: more)
  | [] => ([], [])
  end.

Fixpoint detach_from (cur : list item) (rest : list (list item)) (tail : list com) : list group :=
  match rest with
  | [] => [Group cur tail]
  | g :: rest' => let (tr, g') := strip g in Group cur tr :: detach_from g' rest' tail
  end.

(* the first declaration keeps every comment before it; [tail] trails the last one *)
Definition detach (gs : list (list item)) (tail : list com) : list group :=
  match gs with [] => [] | g0 :: rest => detach_from g0 rest tail end.

Definition decl_rank (k : kind) : nat :=
  match k with
  | KImport => 1 | KInclude => 2 | KAcl => 3 | KBackend => 4 | KDirector => 5 | KTable => 6
  | KPenaltybox => 7 | KRatecounter => 8 | _ => 0
  end.

Definition g_kind (g : group) : kind := match g_items g with (_, t) :: _ => tk t | [] => KOther [] end.
Definition g_name (g : group) : bytes :=
  match g_items g with
  | (_, t) :: (_, n) :: _ => match tk t with KImport | KInclude => [] | _ => tl n end
  | _ => []
  end.

Definition fastly_subs : list bytes :=
  map bs ["vcl_recv"; "vcl_hash"; "vcl_hit"; "vcl_miss"; "vcl_pass"; "vcl_fetch"; "vcl_error"; "vcl_deliver"; "vcl_log"]%string.

Fixpoint index_of (x : bytes) (l : list bytes) (i : nat) : option nat :=
  match l with [] => None | y :: r => if beq x y then Some i else index_of x r (S i) end.
Definition fastly_rank (g : group) : option nat := index_of (g_name g) fastly_subs 0.

(* Go's sort.Slice on at most 12 elements is this insertion sort: element i moves left while
   less(data[j], data[j-1]) *)
Fixpoint insert_left {A} (less : A -> A -> bool) (x : A) (rev_sorted : list A) : list A :=
  match rev_sorted with
  | [] => [x]
  | y :: r => if less x y then y :: insert_left less x r else x :: rev_sorted
  end.
Definition isort {A} (less : A -> A -> bool) (l : list A) : list A :=
  rev (fold_left (fun acc x => insert_left less x acc) l []).

Definition less_other (a b : group) : bool :=
  let ra := decl_rank (g_kind a) in let rb := decl_rank (g_kind b) in
  if Nat.eqb ra rb then blt (g_name a) (g_name b) else Nat.ltb ra rb.
Definition less_fastly (a b : group) : bool :=
  match fastly_rank a, fastly_rank b with Some x, Some y => Nat.ltb x y | _, _ => false end.
Definition less_user (a b : group) : bool := blt (g_name a) (g_name b).

Definition is_sub (g : group) : bool := kis (g_kind g) KSub.
Definition is_fastly (g : group) : bool := match fastly_rank g with Some _ => true | None => false end.

(* Declarations.Sort *)
Definition sort_groups (gs : list group) : list group :=
  isort less_other (filter (fun g => negb (is_sub g)) gs)
  ++ isort less_fastly (filter (fun g => is_sub g && is_fastly g) gs)
  ++ isort less_user (filter (fun g => is_sub g && negb (is_fastly g)) gs).

Definition set_lf (x : com) : com := Com true (ctx x).

(* items of the groups in order: the trailing comments of a declaration precede the leading
   comments of the next one; when the declarations were moved ([mark]) the leading comments are
   printed on their own lines *)
Fixpoint join_groups (prev_trail : list com) (mark : bool) (gs : list group) : list item * list com :=
  match gs with
  | [] => ([], prev_trail)
  | g :: r =>
      let its := match g_items g with
                 | (cs, t) :: more => (prev_trail ++ (if mark then map set_lf cs else cs), t) :: more
                 | [] => []
                 end in
      let (outs, tail) := join_groups (g_trail g) mark r in
      (its ++ outs, tail)
  end.

(* ---------------------------------------------------------------- norm *)
Definition restyle_item (c : fmt_config) (it : item) : item := (map (restyle c) (fst it), snd it).

(* comments after the last token: those on its line trail the last declaration (and move with it
   when the declarations are sorted), the others are printed behind the last declaration on lines
   of their own - all of them when the file has no token *)
Definition keep_tail (out : list item) (tail1 : list com) : list com * list com :=
  match out with [] => ([], tail1) | _ :: _ => split_lf0 tail1 end.

Definition norm_items (c : fmt_config) (its : list item) (tail : list com) : list item * list com :=
  let (out, tl1) := run c st0 [] (map (restyle_item c) its) in
  let tail1 := tl1 ++ map (restyle c) tail in
  let (tr, rest) := keep_tail out tail1 in
  let (gs, rem) := chunks 0 [] out in
  match rem with
  | _ :: _ => (out, tr ++ rest)                   (* unfinished declaration: nothing is sorted *)
  | [] =>
      if sort_declaration c
      then let (o, t) := join_groups [] true (sort_groups (detach gs tr)) in (o, t ++ rest)
      else (out, tr ++ rest)
  end.

Definition norm (c : fmt_config) (ts : list elt) : list elt :=
  let (its, tail) := to_items [] ts in
  let (o, t) := norm_items c its tail in
  of_items o t.
