(* C16 - the same effects on a file system WITH LINKS: names -> inodes -> bytes.  A hard link (or
   the path a symbolic link resolves to) is a second name of the inode of FILE.  rename moves a
   NAME: the inode the destination name pointed to keeps its bytes for its other names. *)
From Coq Require Import List NArith Bool.
From Coq Require Import Strings.Byte.
From Falco Require Import Base.Bytes Model.FsProto.
Import ListNotations.

Record ifs := { names : path -> option nat; idata : nat -> option bytes }.

Definition iread (f : ifs) (p : path) : option bytes :=
  match names f p with Some i => idata f i | None => None end.

Definition set_name (f : ifs) (p : path) (v : option nat) : ifs :=
  {| names := fun q => if path_eqb p q then v else names f q; idata := idata f |}.
Definition set_data (f : ifs) (i : nat) (v : option bytes) : ifs :=
  {| names := names f; idata := fun j => if Nat.eqb i j then v else idata f j |}.

(* [fresh] : the inode number a newly created file gets *)
Definition iapply (fresh : nat) (e : eff) (f : ifs) : ifs :=
  match e with
  | ETrunc p => match names f p with Some i => set_data f i (Some []) | None => f end
  | ECreate p => set_data (set_name f p (Some fresh)) fresh (Some [])
  | EAppend p b =>
    match names f p with
    | Some i => match idata f i with Some x => set_data f i (Some (x ++ [b])) | None => f end
    | None => f
    end
  | ERename s d => match names f s with Some i => set_name (set_name f d (Some i)) s None | None => f end
  | ERemove p => set_name f p None
  end.

Fixpoint irun (fresh : nat) (es : list eff) (f : ifs) : ifs :=
  match es with
  | [] => f
  | e :: t => irun fresh t (iapply fresh e f)
  end.
