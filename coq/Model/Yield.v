(* The token sequence a node was built from ("yield"): definitions only. *)
From Coq Require Import List NArith ZArith.
From Falco Require Import Base.Bytes Gen.TokenTypes Model.ParseBase Model.Ast.
Import ListNotations.

Fixpoint yexpr (e : expr) : list token :=
  match e with
  | EIdent t | EBool t | EFloat t | ERTime t => [t]
  | EInt t _ => [t]
  | EString t _ => [t]
  | ELong o s c _ => [o; s; c]
  | EPrefix op r => op :: yexpr r
  | EGroup lp r rp => lp :: yexpr r ++ [rp]
  | EIfExp kw lp c c1 t c2 e rp => kw :: lp :: yexpr c ++ c1 :: yexpr t ++ c2 :: yexpr e ++ [rp]
  | EInfix l op _ r => yexpr l ++ op :: yexpr r
  | EConcat l r => yexpr l ++ yexpr r
  | EPostfix l op => yexpr l ++ [op]
  | ECall f lp a rp => f :: lp :: yargs a ++ [rp]
  end
with yargs (a : args) : list token :=
  match a with
  | ANone => []
  | ASome e more => yexpr e ++ ytail more
  end
with ytail (a : argtail) : list token :=
  match a with
  | ATNil => []
  | ATCons c e more => c :: yexpr e ++ ytail more
  end.

(* the tokens behind cur: what the parser has not looked at beyond its two-token window *)
Definition after (st : pstate) : list token := tl (toks st).
