(* The token sequence a node was built from ("yield"): definitions only. *)
From Coq Require Import List NArith ZArith.
From Falco Require Import Base.Bytes Gen.TokenTypes Model.ParseBase Model.Ast.
Import ListNotations.

Fixpoint yexpr (e : expr) : list token :=
  match e with
  | EIdent t | EBool t | EFloat t | ERTime t => [t]
  | EInt t _ => [t]
  | EString t _ => [t]
  | ELong o s c _ => [o; s; c]
  | EPrefix op r => op :: yexpr r
  | EGroup lp r rp => lp :: yexpr r ++ [rp]
  | EIfExp kw lp c c1 t c2 e rp => kw :: lp :: yexpr c ++ c1 :: yexpr t ++ c2 :: yexpr e ++ [rp]
  | EInfix l op _ r => yexpr l ++ op :: yexpr r
  | EConcat l r => yexpr l ++ yexpr r
  | EPostfix l op => yexpr l ++ [op]
  | ECall f lp a rp => f :: lp :: yargs a ++ [rp]
  end
with yargs (a : args) : list token :=
  match a with
  | ANone => []
  | ASome e more => yexpr e ++ ytail more
  end
with ytail (a : argtail) : list token :=
  match a with
  | ATNil => []
  | ATCons c e more => c :: yexpr e ++ ytail more
  end.

(* the tokens behind cur: what the parser has not looked at beyond its two-token window *)
Definition after (st : pstate) : list token := tl (toks st).

(* ---------- statements and declarations *)
Definition ytok (o : option token) : list token := match o with Some t => [t] | None => [] end.
Definition yopt {A} (f : A -> list token) (o : option A) : list token :=
  match o with Some a => f a | None => [] end.

Definition yctest (c : ctest) : list token :=
  match c with CTEq e => yexpr e | CTRegex op e => op :: yexpr e end.
Definition ychead (h : chead) : list token :=
  match h with CCase kw t => kw :: yctest t | CDefault kw => [kw] end.
Definition yip (i : ipnode) : list token :=
  match i with IpStr t => [t] | IpLong o s c _ => [o; s; c] end.
Definition ycidr (c : cidr) : list token :=
  match c with
  | Cidr inv ip mask semi =>
      ytok inv ++ yip ip ++ match mask with Some (sl, t, _) => [sl; t] | None => [] end ++ [semi]
  end.
Definition ydfield (f : dfield) : list token :=
  match f with DField dot key eq v semi => dot :: key :: eq :: yexpr v ++ [semi] end.
Definition ydprop (p : dprop) : list token :=
  match p with
  | DProp f => ydfield f
  | DBackendObj lb fs rb => lb :: flat_map ydfield fs ++ [rb]
  end.
Definition ytprop (p : tprop) : list token :=
  match p with TProp k colon v comma => yexpr k ++ colon :: yexpr v ++ ytok comma end.
Fixpoint ybprop (p : bprop) : list token :=
  match p with
  | BProp dot key eq v semi => dot :: key :: eq :: yexpr v ++ [semi]
  | BProbe dot key eq lb ps rb => dot :: key :: eq :: lb :: flat_map ybprop ps ++ [rb]
  end.
Definition ycallarg (it : expr * option token) : list token := yexpr (fst it) ++ ytok (snd it).
Definition yparam (p : token * token * option token) : list token :=
  let '(ty, nm, comma) := p in ty :: nm :: ytok comma.

Fixpoint ystmt (s : stmt) : list token :=
  match s with
  | SSet kw id op v semi | SAdd kw id op v semi => kw :: id :: op :: yexpr v ++ [semi]
  | SUnset kw id semi | SRemove kw id semi | SGoto kw id semi | SImport kw id semi => [kw; id; semi]
  | SDeclare kw loc name ty v semi =>
      kw :: loc :: name :: ty :: match v with Some (eq, e) => eq :: yexpr e | None => [] end ++ [semi]
  | SCall kw sub a semi =>
      kw :: sub :: match a with
                   | Some (lp, items, rp) => lp :: flat_map ycallarg items ++ [rp]
                   | None => []
                   end ++ [semi]
  | SError kw code arg semi => kw :: yopt yexpr code ++ yopt yexpr arg ++ [semi]
  | SEsi kw semi | SRestart kw semi | SBreak kw semi | SFallthrough kw semi => [kw; semi]
  | SReturn kw v semi =>
      kw :: match v with Some (lp, e, rp) => ytok lp ++ yexpr e ++ ytok rp | None => [] end ++ [semi]
  | SLog kw v semi | SSynthetic kw v semi | SSyntheticB64 kw v semi => kw :: yexpr v ++ [semi]
  | SGotoDest name => [name]
  | SInclude kw m _ semi => kw :: m :: ytok semi
  | SBlock lb b rb => lb :: flat_map ystmt b ++ [rb]
  | SFunCall f lp a rp semi => f :: lp :: yargs a ++ [rp; semi]
  | SIf kw lp c rp lb b rb another els =>
      kw :: lp :: yexpr c ++ rp :: lb :: flat_map ystmt b ++ rb :: flat_map yelif another ++
      match els with
      | Some (k, lb2, ss, rb2) => k :: lb2 :: flat_map ystmt ss ++ [rb2]
      | None => []
      end
  | SSwitch kw lp ctl rp lb cases _ rb =>
      kw :: lp :: yexpr ctl ++ rp :: lb :: flat_map ycase cases ++ [rb]
  | DAcl kw name lb cs rb => kw :: name :: lb :: flat_map ycidr cs ++ [rb]
  | DBackend kw name lb ps rb => kw :: name :: lb :: flat_map ybprop ps ++ [rb]
  | DDirector kw name ty lb ps rb => kw :: name :: ty :: lb :: flat_map ydprop ps ++ [rb]
  | DTable kw name ty lb ps rb => kw :: name :: ytok ty ++ lb :: flat_map ytprop ps ++ [rb]
  | DSub kw name params ret lb b rb =>
      kw :: name ::
      match params with Some (lp, ps, rp) => lp :: flat_map yparam ps ++ [rp] | None => [] end ++
      ytok ret ++ lb :: flat_map ystmt b ++ [rb]
  | DPenaltybox kw name lb b rb | DRatecounter kw name lb b rb =>
      kw :: name :: lb :: flat_map ystmt b ++ [rb]
  end
with yelif (e : elif) : list token :=
  match e with
  | Elif k1 k2 lp c rp lb b rb => k1 :: ytok k2 ++ lp :: yexpr c ++ rp :: lb :: flat_map ystmt b ++ [rb]
  end
with ycase (c : scase) : list token :=
  match c with
  | Case h colon b _ => ychead h ++ colon :: flat_map ystmt b
  end.
