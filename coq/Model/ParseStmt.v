(* Statement parser: parser/statement_parser.go (same cursor convention as ParseExpr.v:
   entered with cur = first token, returns with cur = last token of the statement).
   ParseStatement, ParseBlockStatement, the if / else-if chain, switch / case are
   mutually recursive and fuelled; the flat loops carry their own fuel.  No proofs. *)
From Coq Require Import String.
From Coq Require Import List NArith ZArith Bool.
From Falco Require Import Base.Bytes Gen.TokenTypes Model.ParseKinds Gen.ParserTables
  Model.ParseBase Model.Ast Model.ParseLit Model.ParseExpr.
Import ListNotations.
Local Open Scope parse_scope.

(* ---------- Node.String() of expressions without comments (used by the duplicate-case test).
   strings.TrimSpace around leaf values is not modelled: IDENT / number literals produced
   by the lexer carry no white space. *)
Definition b_ (s : string) : str := s2b s.
Fixpoint estr (e : expr) : str :=
  match e with
  | EIdent t => lit t
  | EBool t => if ttype_eqb (typ t) T_TRUE then b_ "true" else b_ "false"
  | EInt t _ => lit t
  | EFloat t => lit t
  | ERTime t => lit t
  | EString _ v => b_ """" ++ v ++ b_ """"
  | ELong o _ _ v => b_ "{" ++ lit o ++ b_ """" ++ v ++ b_ """" ++ lit o ++ b_ "}"
  | EPrefix op r => b_ "(" ++ lit op ++ estr r ++ b_ ")"
  | EGroup _ r _ => b_ "(" ++ estr r ++ b_ ")"
  | EIfExp _ _ c _ t _ e _ => b_ "if(" ++ estr c ++ b_ ", " ++ estr t ++ b_ ", " ++ estr e ++ b_ ")"
  | EInfix l _ explicit r =>
      b_ "(" ++ estr l ++ (if explicit then b_ " +" else []) ++ b_ " " ++ estr r ++ b_ ")"
  | EConcat l r => b_ "(" ++ estr l ++ b_ " " ++ estr r ++ b_ ")"
  | EPostfix l op => estr l ++ lit op
  | ECall f _ a _ => lit f ++ b_ "(" ++ astr a ++ b_ ")"
  end
with astr (a : args) : str :=
  match a with
  | ANone => []
  | ASome e more => estr e ++ atstr more
  end
with atstr (a : argtail) : str :=
  match a with
  | ATNil => []
  | ATCons _ e more => b_ ", " ++ estr e ++ atstr more
  end.

(* caseLabel (parser/statement_parser.go): the rendering the duplicate-case test compares.  It is
   Node.String() without comments, with EVERY string concatenation spelled with its operator:
   `"a" "b"` and `"a" + "b"` are the same label, at any depth. *)
Fixpoint clabel (e : expr) : str :=
  match e with
  | EIdent t => lit t
  | EBool t => if ttype_eqb (typ t) T_TRUE then b_ "true" else b_ "false"
  | EInt t _ => lit t
  | EFloat t => lit t
  | ERTime t => lit t
  | EString _ v => b_ """" ++ v ++ b_ """"
  | ELong o _ _ v => b_ "{" ++ lit o ++ b_ """" ++ v ++ b_ """" ++ lit o ++ b_ "}"
  | EPrefix op r => b_ "(" ++ lit op ++ clabel r ++ b_ ")"
  | EGroup _ r _ => b_ "(" ++ clabel r ++ b_ ")"
  | EIfExp _ _ c _ t _ e _ => b_ "if(" ++ clabel c ++ b_ ", " ++ clabel t ++ b_ ", " ++ clabel e ++ b_ ")"
  | EInfix l _ explicit r =>
      b_ "(" ++ clabel l ++ (if explicit then b_ " +" else []) ++ b_ " " ++ clabel r ++ b_ ")"
  | EConcat l r => b_ "(" ++ clabel l ++ b_ " + " ++ clabel r ++ b_ ")"
  | EPostfix l op => clabel l ++ lit op
  | ECall f _ a _ => lit f ++ b_ "(" ++ alabel a ++ b_ ")"
  end
with alabel (a : args) : str :=
  match a with
  | ANone => []
  | ASome e more => clabel e ++ atlabel more
  end
with atlabel (a : argtail) : str :=
  match a with
  | ATNil => []
  | ATCons _ e more => b_ ", " ++ clabel e ++ atlabel more
  end.

Section Stmt.
Variable fok : str -> bool.
Notation parse_expr := (parse_expr fok).
Notation parse_args := (parse_args fok).

(* if !p.PeekTokenIs(SEMICOLON) { MissingSemicolon(p.curToken) }; p.NextToken() *)
Definition semi (st : pstate) : pres pstate :=
  if peek_is st T_SEMICOLON then POK (next st) else err_cur E_missing_semi st.

(* set / add *)
Definition passign (mk : token -> token -> token -> expr -> token -> stmt) (st : pstate)
  : pres (stmt * pstate) :=
  do st1 <- expect st T_IDENT;
  if negb (mem (typ (peek st1)) assignment_operators) then err_peek E_unexpected st1
  else
    let st2 := next st1 in
    do (e, st3) <- parse_expr P_LOWEST (next st2);
    do st4 <- semi st3;
    POK (mk (cur st) (cur st1) (cur st2) e (cur st4), st4).

(* unset / remove / goto / import:  KW IDENT ; *)
Definition pkw_ident (mk : token -> token -> token -> stmt) (st : pstate) : pres (stmt * pstate) :=
  do st1 <- expect st T_IDENT;
  do st2 <- semi st1;
  POK (mk (cur st) (cur st1) (cur st2), st2).

(* esi / restart / break / fallthrough:  KW ; *)
Definition pkw_semi (mk : token -> token -> stmt) (st : pstate) : pres (stmt * pstate) :=
  do st1 <- semi st;
  POK (mk (cur st) (cur st1), st1).

(* log / synthetic / synthetic.base64:  KW expr ; *)
Definition pkw_expr (mk : token -> expr -> token -> stmt) (st : pstate) : pres (stmt * pstate) :=
  do (e, st1) <- parse_expr P_LOWEST (next st);
  do st2 <- semi st1;
  POK (mk (cur st) e (cur st2), st2).

(* the argument loop of ParseCallStatement, cur = LEFT_PAREN at entry *)
Fixpoint pcall_args (n : nat) (st : pstate) (acc : list (expr * option token))
  : pres (list (expr * option token) * pstate) :=
  match n with
  | O => PFuel
  | S n' =>
    if peek_is st T_RIGHT_PAREN || peek_is st T_EOF then POK (rev acc, st)
    else
      do (e, st1) <- parse_expr P_LOWEST (next st);
      if peek_is st1 T_COMMA then
        let st2 := next st1 in pcall_args n' st2 ((e, Some (cur st2)) :: acc)
      else if negb (peek_is st1 T_RIGHT_PAREN) then err_peek E_unexpected st1
      else pcall_args n' st1 ((e, None) :: acc)
  end.

Definition pcall (st : pstate) : pres (stmt * pstate) :=
  do st1 <- expect st T_IDENT;
  if peek_is st1 T_LEFT_PAREN then
    let st2 := next st1 in
    do (items, st3) <- pcall_args (S (length (toks st2))) st2 [];
    if negb (peek_is st3 T_RIGHT_PAREN) then err_peek E_unexpected st3
    else
      let st4 := next st3 in
      do st5 <- semi st4;
      POK (SCall (cur st) (cur st1) (Some (cur st2, items, cur st4)) (cur st5), st5)
  else
    do st5 <- semi st1;
    POK (SCall (cur st) (cur st1) None (cur st5), st5).

Definition pdeclare (st : pstate) : pres (stmt * pstate) :=
  do st1 <- expect st T_IDENT;
  if negb (str_eqb (lit (cur st1)) (b_ "local")) then err_cur E_unexpected st1
  else
    do st2 <- expect st1 T_IDENT;
    do st3 <- expect st2 T_IDENT;
    if peek_is st3 T_ASSIGN then
      let st4 := next st3 in
      do (e, st5) <- parse_expr P_LOWEST (next st4);
      do st6 <- semi st5;
      POK (SDeclare (cur st) (cur st1) (cur st2) (cur st3) (Some (cur st4, e)) (cur st6), st6)
    else
      do st6 <- semi st3;
      POK (SDeclare (cur st) (cur st1) (cur st2) (cur st3) None (cur st6), st6).

Definition perror (st : pstate) : pres (stmt * pstate) :=
  do (code, st1) <-
    match typ (peek st) with
    | T_INT => do (e, s) <- pinteger (next st); POK (Some e, s)
    | T_IDENT =>
        let s := next st in
        if peek_is s T_LEFT_PAREN then
          do (e, s') <- pcallexpr fok (cur s) (next s); POK (Some e, s')
        else POK (Some (EIdent (cur s)), s)
    | T_SEMICOLON => POK (None, st)
    | _ => err_peek E_unexpected st
    end;
  do (arg, st2) <-
    (if negb (peek_is st1 T_SEMICOLON) then
       do (e, s) <- parse_expr P_LOWEST (next st1); POK (Some e, s)
     else POK (None, st1));
  do st3 <- semi st2;
  POK (SError (cur st) code arg (cur st3), st3).

Definition preturn (st : pstate) : pres (stmt * pstate) :=
  if peek_is st T_SEMICOLON then
    let st1 := next st in POK (SReturn (cur st) None (cur st1), st1)
  else
    let hasl := peek_is st T_LEFT_PAREN in
    let st1 := if hasl then next st else st in
    do (e, st2) <- parse_expr P_LOWEST (next st1);
    let hasr := peek_is st2 T_RIGHT_PAREN in
    let st3 := if hasr then next st2 else st2 in
    if xorb hasl hasr then err_cur E_paren_mismatch st3
    else
      do st4 <- semi st3;
      POK (SReturn (cur st)
             (Some (if hasl then Some (cur st1) else None, e, if hasr then Some (cur st3) else None))
             (cur st4), st4).

Definition pinclude (st : pstate) : pres (stmt * pstate) :=
  do st1 <- expect st T_STRING;
  do v <- pstring st1;
  if peek_is st1 T_SEMICOLON then
    let st2 := next st1 in POK (SInclude (cur st) (cur st1) v (Some (cur st2)), st2)
  else POK (SInclude (cur st) (cur st1) v None, st1).

(* isGotoDestination: len(strings.Split(lit, ":")) == 2 *)
Definition is_goto_dest (t : token) : bool :=
  (N.of_nat (length (filter (is_c 58) (lit t))) =? 1)%N.
(* ParseGotoDestination; None = its error (the two callers report different tokens) *)
Definition pgotodest (st : pstate) : option (stmt * pstate) :=
  if is_goto_dest (cur st) then Some (SGotoDest (cur st), st) else None.

(* ParseFunctionCall, cur = IDENT, peek = LEFT_PAREN *)
Definition pfuncall (st : pstate) : pres (stmt * pstate) :=
  let st1 := next st in
  do (a, st2) <- parse_args st1;
  do st3 <- semi st2;
  POK (SFunCall (cur st) (cur st1) a (cur st2) (cur st3), st3).

(* the statements that need no recursion, dispatched on cur *)
Definition psimple (st : pstate) : option (pres (stmt * pstate)) :=
  match typ (cur st) with
  | T_SET => Some (passign SSet st)
  | T_UNSET => Some (pkw_ident SUnset st)
  | T_REMOVE => Some (pkw_ident SRemove st)
  | T_ADD => Some (passign SAdd st)
  | T_CALL => Some (pcall st)
  | T_DECLARE => Some (pdeclare st)
  | T_ERROR => Some (perror st)
  | T_ESI => Some (pkw_semi SEsi st)
  | T_LOG => Some (pkw_expr SLog st)
  | T_RESTART => Some (pkw_semi SRestart st)
  | T_RETURN => Some (preturn st)
  | T_SYNTHETIC => Some (pkw_expr SSynthetic st)
  | T_SYNTHETIC_BASE64 => Some (pkw_expr SSyntheticB64 st)
  | T_GOTO => Some (pkw_ident SGoto st)
  | T_INCLUDE => Some (pinclude st)
  | _ => None
  end.

Definition is_default (c : scase) : bool :=
  match c with Case (CDefault _) _ _ _ => true | _ => false end.

(* clause.Test.Operator == o.Test.Operator && caseLabel(clause.Test.Right) == caseLabel(o.Test.Right) *)
Definition dup_case (a b : scase) : bool :=
  match a, b with
  | Case (CCase _ (CTEq x)) _ _ _, Case (CCase _ (CTEq y)) _ _ _ => str_eqb (clabel x) (clabel y)
  | Case (CCase _ (CTRegex _ x)) _ _ _, Case (CCase _ (CTRegex _ y)) _ _ _ => str_eqb (clabel x) (clabel y)
  | _, _ => false
  end.

Definition is_fallthrough (s : stmt) : bool :=
  match s with SFallthrough _ _ => true | _ => false end.
Definition is_break_or_fallthrough (s : stmt) : bool :=
  match s with SFallthrough _ _ | SBreak _ _ => true | _ => false end.

Definition blockr := (token * list stmt * token)%type.

Fixpoint pstmt (n : nat) (st0 : pstate) {struct n} : pres (stmt * pstate) :=
  match n with
  | O => PFuel
  | S n' =>
    let st := next st0 in          (* p.NextToken() // point to statement *)
    match psimple st with
    | Some r => r
    | None =>
      match typ (cur st) with
      | T_LEFT_BRACE =>
          do (b, st') <- pblock n' st;
          let '(lb, ss, rb) := b in POK (SBlock lb ss rb, st')
      | T_IF => pif n' st
      | T_SWITCH => pswitch n' st
      | T_BREAK => pkw_semi SBreak st
      | T_FALLTHROUGH => pkw_semi SFallthrough st
      | T_IDENT =>
          if peek_is st T_LEFT_PAREN then pfuncall st
          else match pgotodest st with
               | Some r => POK r
               | None => err_cur E_unexpected st
               end
      | _ => err_cur E_unexpected st
      end
    end
  end
(* ParseBlockStatement, cur = LEFT_BRACE; returns with cur = RIGHT_BRACE *)
with pblock (n : nat) (st : pstate) {struct n} : pres (blockr * pstate) :=
  match n with
  | O => PFuel
  | S n' =>
    do (ss, st1) <- pblock_loop n' st [];
    let st2 := next st1 in
    POK ((cur st, ss, cur st2), st2)
  end
with pblock_loop (n : nat) (st : pstate) (acc : list stmt) {struct n} : pres (list stmt * pstate) :=
  match n with
  | O => PFuel
  | S n' =>
    if peek_is st T_RIGHT_BRACE then POK (rev acc, st)
    else
      do (s, st1) <- pstmt n' st;
      if is_break_or_fallthrough s then err_prev E_unexpected st1   (* UnexpectedToken(stmt.GetMeta()) *)
      else pblock_loop n' st1 (s :: acc)
  end
(* ParseIfStatement, cur = IF *)
with pif (n : nat) (st : pstate) {struct n} : pres (stmt * pstate) :=
  match n with
  | O => PFuel
  | S n' =>
    do st1 <- expect st T_LEFT_PAREN;
    do (c, st2) <- parse_expr P_LOWEST (next st1);
    do st3 <- expect st2 T_RIGHT_PAREN;
    do st4 <- expect st3 T_LEFT_BRACE;
    do (b, st5) <- pblock n' st4;
    let '(lb, ss, rb) := b in
    do (r, st6) <- pif_chain n' st5 [];
    POK (SIf (cur st) (cur st1) c (cur st3) lb ss rb (fst r) (snd r), st6)
  end
(* the `for { switch p.peekToken.Token.Type ...` loop after the consequence *)
with pif_chain (n : nat) (st : pstate) (acc : list elif) {struct n}
  : pres ((list elif * option (token * token * list stmt * token)) * pstate) :=
  match n with
  | O => PFuel
  | S n' =>
    match typ (peek st) with
    | T_ELSE =>
        let st1 := next st in
        if peek_is st1 T_IF then
          let st2 := next st1 in
          do (e, st3) <- pelif n' (cur st1) (Some (cur st2)) st2;
          pif_chain n' st3 (e :: acc)
        else
          do st2 <- expect st1 T_LEFT_BRACE;
          do (b, st3) <- pblock n' st2;
          let '(lb, ss, rb) := b in
          POK ((rev acc, Some (cur st1, lb, ss, rb)), st3)
    | T_ELSEIF | T_ELSIF =>
        let st1 := next st in
        do (e, st2) <- pelif n' (cur st1) None st1;
        pif_chain n' st2 (e :: acc)
    | _ => POK ((rev acc, None), st)
    end
  end
(* ParseAnotherIfStatement, cur = IF (of `else if`) / ELSEIF / ELSIF *)
with pelif (n : nat) (k1 : token) (k2 : option token) (st : pstate) {struct n} : pres (elif * pstate) :=
  match n with
  | O => PFuel
  | S n' =>
    do st1 <- expect st T_LEFT_PAREN;
    do (c, st2) <- parse_expr P_LOWEST (next st1);
    do st3 <- expect st2 T_RIGHT_PAREN;
    do st4 <- expect st3 T_LEFT_BRACE;
    do (b, st5) <- pblock n' st4;
    let '(lb, ss, rb) := b in
    POK (Elif k1 k2 (cur st1) c (cur st3) lb ss rb, st5)
  end
(* ParseSwitchStatement, cur = SWITCH *)
with pswitch (n : nat) (st : pstate) {struct n} : pres (stmt * pstate) :=
  match n with
  | O => PFuel
  | S n' =>
    do st1 <- expect st T_LEFT_PAREN;
    let st2 := next st1 in
    do (ctl, st3) <-
      (if peek_is st2 T_LEFT_PAREN then pcallexpr fok (cur st2) (next st2)
       else if cur_is st2 T_IDENT then POK (EIdent (cur st2), st2)
       else if negb (cur_is st2 T_TRUE) && negb (cur_is st2 T_FALSE) && negb (cur_is st2 T_STRING)
            then err_cur E_unexpected st2
       else parse_expr P_LOWEST st2);
    do st4 <- expect st3 T_RIGHT_PAREN;
    do st5 <- expect st4 T_LEFT_BRACE;
    do (r, st6) <- pcases n' st5 [] (-1)%Z;
    let '(cases, dflt) := r in
    match rev cases with
    | [] => err_peek E_empty_switch st6
    | Case _ _ body _ :: _ =>
      match rev body with
      | [] => PCrash                     (* lc.Statements[len(lc.Statements)-1] *)
      | ls :: _ =>
        if is_fallthrough ls then err_prev E_final_fallthrough st6
        else
          let st7 := next st6 in
          POK (SSwitch (cur st) (cur st1) ctl (cur st4) (cur st5) cases dflt (cur st7), st7)
      end
    end
  end
(* the `for !p.PeekTokenIs(token.RIGHT_BRACE)` loop over case clauses; acc is reversed *)
with pcases (n : nat) (st : pstate) (acc : list scase) (dflt : Z) {struct n}
  : pres ((list scase * Z) * pstate) :=
  match n with
  | O => PFuel
  | S n' =>
    if peek_is st T_RIGHT_BRACE then POK ((rev acc, dflt), st)
    else
      let st1 := next st in
      do (cl, st2) <- pcase n' st1;
      do dflt' <-
        (if is_default cl then
           (if negb (dflt =? -1)%Z then err_cur E_multi_default st1
            else POK (Z.of_nat (length acc)))
         else POK dflt);
      if existsb (dup_case cl) acc then err_peek E_dup_case st1   (* DuplicateCase(clause.Test.Meta) *)
      else pcases n' st2 (cl :: acc) dflt'
  end
(* ParseCaseStatement, cur = CASE / DEFAULT *)
with pcase (n : nat) (st : pstate) {struct n} : pres (scase * pstate) :=
  match n with
  | O => PFuel
  | S n' =>
    do (h, st1) <-
      match typ (cur st) with
      | T_CASE =>
          let s := next st in
          match typ (cur s) with
          | T_STRING => do (e, s') <- parse_expr P_LOWEST s; POK (CCase (cur st) (CTEq e), s')
          | T_REGEX_MATCH =>
              do (e, s') <- parse_expr P_PREFIX (next s); POK (CCase (cur st) (CTRegex (cur s) e), s')
          | _ => err_cur E_unexpected s
          end
      | T_DEFAULT => POK (CDefault (cur st), st)
      | _ => err_cur E_unexpected st
      end;
    match expect_peek st1 T_COLON with
    | None => err_cur E_missing_colon st1
    | Some st2 =>
      do (body, st3) <- pcase_body n' st2 [];
      match prev_is st3 T_BREAK with
      | None => PCrash
      | Some true => POK (Case h (cur st2) body false, st3)
      | Some false =>
        match prev_is st3 T_FALLTHROUGH with
        | Some true => POK (Case h (cur st2) body true, st3)
        | _ => err_prev E_unexpected st3
        end
      end
    end
  end
with pcase_body (n : nat) (st : pstate) (acc : list stmt) {struct n} : pres (list stmt * pstate) :=
  match n with
  | O => PFuel
  | S n' =>
    if peek_is st T_CASE || peek_is st T_DEFAULT || peek_is st T_RIGHT_BRACE then POK (rev acc, st)
    else
      do (s, st1) <- pstmt n' st;
      pcase_body n' st1 (s :: acc)
  end.

End Stmt.
