(* C13 - heap model of the interpreter's variable store: syntax, values, state.
   Mirrors the pointer structure of interpreter/variable/local.go (LocalVariables =
   map name -> *value.X), the ctx fields that variable getters return by pointer,
   ctx.RegexMatchedValues (map index -> *value.String) and the header maps (by value).
   No proofs here. *)
From Coq Require Import List NArith ZArith Bool.
From Falco Require Import Base.Res Base.Bytes Model.HdrField.
Import ListNotations.

Definition str := list byte.

(* ---- values: the fields of value.Integer / Float / String / Boolean / RTime that the
   modelled code reads or writes.  INTEGER and RTIME (nanoseconds) are signed 64-bit
   numbers, FLOAT is its IEEE-754 bit pattern (0 <= bits < 2^64). *)
(* TOpaque k: a type whose values the model only COPIES and never inspects: k = 0 TIME, 1 IP, 2 BACKEND, 3 ACL *)
Inductive ty := TInt | TFloat | TStr | TBool | TRTime | TOpaque (k : N).

Inductive val :=
| VInt (z : Z) (lit : bool)
| VFloat (bits : Z) (lit : bool)
| VStr (s : str) (notset lit : bool)
| VBool (b lit : bool)
| VRTime (ns : Z) (lit : bool)
| VOpaque (k : N) (payload : str).     (* payload: what the value prints as; carried along, never looked into *)

Definition type_of (v : val) : ty :=
  match v with VInt _ _ => TInt | VFloat _ _ => TFloat | VStr _ _ _ => TStr
             | VBool _ _ => TBool | VRTime _ _ => TRTime | VOpaque k _ => TOpaque k end.
Definition is_lit (v : val) : bool :=
  match v with VInt _ l | VFloat _ l | VStr _ _ l | VBool _ l | VRTime _ l => l | VOpaque _ _ => false end.
Definition ty_eqb (a b : ty) : bool :=
  match a, b with TInt, TInt | TFloat, TFloat | TStr, TStr | TBool, TBool | TRTime, TRTime => true
                | TOpaque j, TOpaque k => N.eqb j k
                | _, _ => false end.

(* value.Create *)
Definition default_val (t : ty) : val :=
  match t with
  | TInt => VInt 0 false | TFloat => VFloat 0 false | TStr => VStr [] true false
  | TBool => VBool false false | TRTime => VRTime 0 false
  | TOpaque k => VOpaque k []
  end.

Definition wrap64 (z : Z) : Z := ((z + 2 ^ 63) mod 2 ^ 64 - 2 ^ 63)%Z.
Definition flip_sign (bits : Z) : Z :=
  (if bits <? 2 ^ 63 then bits + 2 ^ 63 else bits - 2 ^ 63)%Z.

(* prefix minus on the VALUE (what `-t.Value` computes) *)
Definition neg_val (v : val) : option val :=
  match v with
  | VInt z l => Some (VInt (wrap64 (- z)) l)
  | VFloat b l => Some (VFloat (flip_sign b) l)
  | VRTime ns l => Some (VRTime (wrap64 (- ns)) l)
  | _ => None
  end.

(* an `if` / if() condition: BOOL, or STRING (set = true) *)
Definition truthy (v : val) : option bool :=
  match v with VBool b _ => Some b | VStr _ ns _ => Some (negb ns) | _ => None end.

(* LocalVariables.Set: "always set notset to false" on a STRING *)
Definition unset_notset (v : val) : val :=
  match v with VStr s _ l => VStr s false l | _ => v end.

(* ---- names *)
Inductive name :=
| NLocal (k : N)            (* var.<k> of the executing frame *)
| NGlobal (k : N)           (* a variable whose getter returns a pointer held by ctx *)
| NHeader (o h : N)         (* <object o>.http.<header h>  (canonical name) *)
| NField (o h k : N)        (* <object o>.http.<header h>:<sub-field k>: a VIEW of that header's value *)
| NGroup (j : nat).         (* re.group.<j> *)

Definition name_eqb (a b : name) : bool :=
  match a, b with
  | NLocal x, NLocal y | NGlobal x, NGlobal y => N.eqb x y
  | NHeader o h, NHeader o' h' => N.eqb o o' && N.eqb h h'
  | NField o h k, NField o' h' k' => N.eqb o o' && N.eqb h h' && N.eqb k k'
  | NGroup i, NGroup j => Nat.eqb i j
  | _, _ => false
  end.
Definition is_group (x : name) : bool := match x with NGroup _ => true | _ => false end.
(* the header a name is (a view of) *)
Definition hdr_of (x : name) : option (N * N) :=
  match x with NHeader o h | NField o h _ => Some (o, h) | _ => None end.
(* the text of sub-field key k: "k" followed by its decimal digit(s) (k < 10 in generated programs) *)
Definition key_text (k : N) : str := [Byte.x6b; n2b (48 + k mod 10)%N].

(* ---- operators (their VALUE-level meaning is a parameter, see [ops]) *)
Inductive binop := BEq | BNe | BLt | BGt | BLe | BGe | BAnd | BOr.
Inductive aop := AEq | AAdd | ASub | AMul | ALor | ALand.

(* regular expressions: a pattern is data; matching is an oracle *)
Inductive pat :=
| PPrefix (lit : str)        (* subject starts with lit; captures: whole, lit, rest *)
| PSplit (c : byte).         (* subject contains c; captures: whole, before the first c, after it *)

Inductive atom := ALit (s : str) | AVar (x : name).

Inductive expr :=
| EVar (x : name)
| ELit (v : val)
| ENot (e : expr)
| ENeg (e : expr)
| EPos (e : expr)
| EGroup (e : expr)
| EBin (op : binop) (a b : expr)
| EMatch (neg : bool) (a : expr) (p : pat)
| EConcat (xs : list atom)
| EIf (c a b : expr)
| EBuiltin (f : N) (args : list expr)
| ECall (f : N) (args : list expr).

Inductive stmt :=
| SDeclare (k : N) (t : ty) (init : option expr)
| SSet (x : name) (op : aop) (e : expr)
| SUnset (x : name)
| SLog (e : expr)
| SIf (c : expr) (th : list stmt) (elifs : list (expr * list stmt)) (el : option (list stmt))
| SCall (f : N) (args : list expr)
| SReturn (e : option expr)
| SReturnState (st : N)                            (* return(lookup); ... in a procedure *)
| SNop                                             (* break; / fallthrough; / goto x; / x: as statements: nothing
                                                      (goto is not implemented by the interpreter) *)
| SAdd (o h : N) (e : expr)                        (* add <obj>.http.<h> = e; *)
| SRestart (allowed : bool)                        (* restart;  allowed: the scope is RECV/HIT/FETCH/ERROR/DELIVER *)
| SError (allowed : bool) (gs gr : N) (code arg : option expr)
    (* error [code [response]];  allowed: scope RECV/HIT/MISS/PASS/FETCH; gs / gr: the ctx cells
       ctx.ObjectStatus / ctx.ObjectResponse it assigns *)
| SUnsetWild (o : N) (pre : str)
    (* unset <obj>.http.<pre>*;  every header of the object whose name starts with pre, ASCII case folded *)
| SSynthetic (gb : N) (e : expr)
    (* synthetic e;  gb: the ctx cell of the response body (ctx.Object.Body) it assigns *)
| SSwitch (c : expr) (cases : list (ctest * list stmt * bool)) (dflt : option nat)
with ctest :=
| CDefault
| CStr (s : str)                                   (* case "s": *)
| CMatch (p : pat).                                (* case ~ "pattern": *)

Record sub := { s_params : list (N * ty); s_ret : option ty; s_body : list stmt }.
Definition program := list (N * sub).

(* ---- pure VALUE-level semantics of operators, built-ins and PCRE: parameters of the model.
   Theorems hold for every instance; Model/StoreOps.v gives the one used for running. *)
Record ops := {
  binop_val : binop -> val -> val -> res val;      (* operator.Equal ... LogicalOr *)
  assign_val : aop -> val -> val -> res val;       (* variable.doAssign: new contents of the left cell *)
  builtin_val : N -> list val -> res val;          (* side-effect-free built-in functions *)
  re_match : pat -> str -> option (list str);      (* pcre FindStringSubmatch: None = no match *)
  render : val -> str                              (* value.String() *)
}.

(* the two repairs; [original] is the tree before them *)
Record cfg := { neg_copies : bool; param_copies : bool }.
Definition repaired : cfg := {| neg_copies := true; param_copies := true |}.
Definition original : cfg := {| neg_copies := false; param_copies := false |}.

(* ---- state *)
Record snapshot := {
  sn_depth : nat;
  sn_locals : list (N * option val);
  sn_globals : list (N * option val);
  sn_groups : list (option val);
  sn_hdrs : list ((N * N) * str)
}.

Record state := {
  heap : list val;                  (* loc -> cell; allocation appends *)
  locals : list (N * nat);          (* executing frame: name -> loc (first match wins) *)
  globals : list (N * nat);         (* ctx cells: name -> loc *)
  groups : list nat;                (* re.group.j -> loc *)
  hdrs : list ((N * N) * str);      (* (object, header) -> value; absent = not set *)
  logs : list str;
  depth : nat;                      (* len(i.callStack) *)
  trace : list snapshot             (* observation only: state before each executed statement, newest first *)
}.

Definition set_heap h σ := {| heap := h; locals := locals σ; globals := globals σ; groups := groups σ;
  hdrs := hdrs σ; logs := logs σ; depth := depth σ; trace := trace σ |}.
Definition set_locals x σ := {| heap := heap σ; locals := x; globals := globals σ; groups := groups σ;
  hdrs := hdrs σ; logs := logs σ; depth := depth σ; trace := trace σ |}.
Definition set_groups x σ := {| heap := heap σ; locals := locals σ; globals := globals σ; groups := x;
  hdrs := hdrs σ; logs := logs σ; depth := depth σ; trace := trace σ |}.
Definition set_hdrs x σ := {| heap := heap σ; locals := locals σ; globals := globals σ; groups := groups σ;
  hdrs := x; logs := logs σ; depth := depth σ; trace := trace σ |}.
Definition set_logs x σ := {| heap := heap σ; locals := locals σ; globals := globals σ; groups := groups σ;
  hdrs := hdrs σ; logs := x; depth := depth σ; trace := trace σ |}.
Definition set_depth x σ := {| heap := heap σ; locals := locals σ; globals := globals σ; groups := groups σ;
  hdrs := hdrs σ; logs := logs σ; depth := x; trace := trace σ |}.
Definition set_trace x σ := {| heap := heap σ; locals := locals σ; globals := globals σ; groups := groups σ;
  hdrs := hdrs σ; logs := logs σ; depth := depth σ; trace := x |}.

Fixpoint lookup (k : N) (l : list (N * nat)) : option nat :=
  match l with [] => None | (k', v) :: r => if N.eqb k k' then Some v else lookup k r end.

Definition key_eqb (a b : N * N) : bool := N.eqb (fst a) (fst b) && N.eqb (snd a) (snd b).
Fixpoint hget (k : N * N) (l : list ((N * N) * str)) : option str :=
  match l with [] => None | (k', v) :: r => if key_eqb k k' then Some v else hget k r end.
Fixpoint hdel (k : N * N) (l : list ((N * N) * str)) : list ((N * N) * str) :=
  match l with [] => [] | (k', v) :: r => if key_eqb k k' then hdel k r else (k', v) :: hdel k r end.
Definition hset (k : N * N) (v : str) (l : list ((N * N) * str)) := (k, v) :: hdel k l.

(* header h of the generated programs is called "h" followed by the letter number h ("ha", "hb", ...) *)
Definition hdr_name (h : N) : str := [Byte.x68; n2b (97 + h mod 26)%N].
Definition fold_byte (b : byte) : byte :=
  let n := b2n b in if ((65 <=? n) && (n <=? 90))%N then n2b (n + 32)%N else b.
Fixpoint prefix_ci (p s : str) : bool :=
  match p, s with
  | [], _ => true
  | x :: p', y :: s' => if byte_eqb (fold_byte x) (fold_byte y) then prefix_ci p' s' else false
  | _ :: _, [] => false
  end.
(* does `unset <obj o>.http.<pre>*` name header (o', h)? *)
Definition wild_hit (o : N) (pre : str) (k : N * N) : bool := (fst k =? o)%N && prefix_ci pre (hdr_name (snd k)).
Definition hdel_wild (o : N) (pre : str) (l : list ((N * N) * str)) : list ((N * N) * str) :=
  filter (fun e => negb (wild_hit o pre (fst e))) l.

Fixpoint upd {A} (i : nat) (x : A) (l : list A) : list A :=
  match l, i with
  | [], _ => []
  | _ :: r, O => x :: r
  | a :: r, S i' => a :: upd i' x r
  end.

(* getRequestHeaderValue / getResponseHeaderValue: a FRESH String on every read *)
Definition header_val (σ : state) (o h : N) : val :=
  match hget (o, h) (hdrs σ) with Some s => VStr s false false | None => VStr [] true false end.
(* a sub-field read: GetField on the header's value (an empty or absent header has no sub-field);
   the RFC-8941-like field functions are those of the header model of C17, Model/HdrField.v *)
Definition hdr_text (σ : state) (o h : N) : str :=
  match hget (o, h) (hdrs σ) with Some s => s | None => [] end.
Definition field_of_text (t : str) (k : N) : val :=
  match t with
  | [] => VStr [] true false
  | s => match get_field s (key_text k) with
         | RStr v => VStr v false false
         | RNotSet => VStr [] true false
         end
  end.
Definition field_val (σ : state) (o h k : N) : val := field_of_text (hdr_text σ o h) k.

Definition loc_of (σ : state) (x : name) : option nat :=
  match x with
  | NLocal k => lookup k (locals σ)
  | NGlobal k => lookup k (globals σ)
  | NHeader _ _ | NField _ _ _ => None
  | NGroup j => nth_error (groups σ) j
  end.

(* the value a program reads through name x (None: undefined variable) *)
Definition read (σ : state) (x : name) : option val :=
  match x with
  | NLocal _ | NGlobal _ => match loc_of σ x with Some l => nth_error (heap σ) l | None => None end
  | NHeader o h => Some (header_val σ o h)
  | NField o h k => Some (field_val σ o h k)
  | NGroup _ => match loc_of σ x with Some l => nth_error (heap σ) l | None => Some (VStr [] true false) end
  end.

Definition alloc (v : val) (σ : state) : nat * state :=
  (length (heap σ), set_heap (heap σ ++ [v]) σ).
Definition write (l : nat) (v : val) (σ : state) : state := set_heap (upd l v (heap σ)) σ.
(* a dangling pointer would be a nil dereference *)
Definition load (σ : state) (l : nat) : res val :=
  match nth_error (heap σ) l with Some v => OK v | None => Crash end.

Definition mk_snap (σ : state) : snapshot :=
  {| sn_depth := depth σ;
     sn_locals := map (fun kl => (fst kl, nth_error (heap σ) (snd kl))) (locals σ);
     sn_globals := map (fun kl => (fst kl, nth_error (heap σ) (snd kl))) (globals σ);
     sn_groups := map (fun l => nth_error (heap σ) l) (groups σ);
     sn_hdrs := hdrs σ |}.
Definition snap (σ : state) : state := set_trace (mk_snap σ :: trace σ) σ.

(* evaluation modes: ExpressionOption{Condition, LocalVariable} *)
Record mode := { m_cond : bool; m_lvar : bool }.
Definition dflt_mode := {| m_cond := false; m_lvar := false |}.
Definition cond_mode := {| m_cond := true; m_lvar := false |}.
Definition lvar_mode := {| m_cond := false; m_lvar := true |}.
Definition arg_mode (m : mode) := {| m_cond := m_cond m; m_lvar := true |}.

Inductive outcome :=
| ONorm
| OBare                            (* `return;` travelling to the subroutine boundary *)
| OVal (l : nat) (direct : bool)   (* `return e;` - direct: not yet passed through an enclosing if *)
| OState (st : N).                 (* return(<state>), restart, error: ends every enclosing subroutine *)
Definition st_restart : N := 100.
Definition st_error : N := 101.
Definition demote (o : outcome) : outcome :=
  match o with OVal l _ => OVal l false | _ => o end.
