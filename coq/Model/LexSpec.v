(* Specification side of C01 (no Go code is transcribed here):
   - the documented keyword table of Fastly VCL as falco names it (reference for the T tie);
   - what "a position lies inside the input and designates the token's text" means,
     defined on the raw bytes, independently of the lexer. *)
From Coq Require Import List NArith Bool.
From Coq Require Strings.String.
From Falco Require Import Base.Res Base.Bytes Base.Utf8 Model.Lex.
Import ListNotations.

Module KwRef.
  Import Strings.String.
  Local Open Scope string_scope.
  Definition kw (a b : string) : str * str := (s2r a, s2r b).
  (* spelling, token type; the order is the order of token.keywords *)
  Definition keywords_ref : list (str * str) := [
    kw "acl" "ACL"; kw "backend" "BACKEND"; kw "director" "DIRECTOR"; kw "table" "TABLE";
    kw "sub" "SUBROUTINE"; kw "add" "ADD"; kw "call" "CALL"; kw "declare" "DECLARE";
    kw "error" "ERROR"; kw "esi" "ESI"; kw "include" "INCLUDE"; kw "import" "IMPORT";
    kw "log" "LOG"; kw "restart" "RESTART"; kw "return" "RETURN"; kw "set" "SET";
    kw "synthetic" "SYNTHETIC"; kw "unset" "UNSET"; kw "if" "IF"; kw "else" "ELSE";
    kw "elseif" "ELSEIF"; kw "elsif" "ELSIF"; kw "true" "TRUE"; kw "false" "FALSE";
    kw "remove" "REMOVE"; kw "synthetic.base64" "SYNTHETIC_BASE64";
    kw "penaltybox" "PENALTYBOX"; kw "ratecounter" "RATECOUNTER"; kw "goto" "GOTO";
    kw "switch" "SWITCH"; kw "case" "CASE"; kw "default" "DEFAULT"; kw "break" "BREAK";
    kw "fallthrough" "FALLTHROUGH"; kw "pragma" "PRAGMA" ].
End KwRef.
Export KwRef.
