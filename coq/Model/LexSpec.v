(* Specification side of C01 (no Go code is transcribed here):
   - the documented keyword table of Fastly VCL as falco names it (reference for the T tie);
   - what "a position lies inside the input and designates the token's text" means,
     defined on the raw bytes, independently of the lexer. *)
From Coq Require Import List NArith Bool.
From Coq Require Strings.String.
From Falco Require Import Base.Res Base.Bytes Base.Utf8 Gen.Tokens Model.Lex.
Import ListNotations.

Module KwRef.
  Import Strings.String.
  Local Open Scope string_scope.
  Definition kw (a b : string) : str * str := (s2r a, s2r b).
  (* spelling, token type; the order is the order of token.keywords *)
  Definition keywords_ref : list (str * str) := [
    kw "acl" "ACL"; kw "backend" "BACKEND"; kw "director" "DIRECTOR"; kw "table" "TABLE";
    kw "sub" "SUBROUTINE"; kw "add" "ADD"; kw "call" "CALL"; kw "declare" "DECLARE";
    kw "error" "ERROR"; kw "esi" "ESI"; kw "include" "INCLUDE"; kw "import" "IMPORT";
    kw "log" "LOG"; kw "restart" "RESTART"; kw "return" "RETURN"; kw "set" "SET";
    kw "synthetic" "SYNTHETIC"; kw "unset" "UNSET"; kw "if" "IF"; kw "else" "ELSE";
    kw "elseif" "ELSEIF"; kw "elsif" "ELSIF"; kw "true" "TRUE"; kw "false" "FALSE";
    kw "remove" "REMOVE"; kw "synthetic.base64" "SYNTHETIC_BASE64";
    kw "penaltybox" "PENALTYBOX"; kw "ratecounter" "RATECOUNTER"; kw "goto" "GOTO";
    kw "switch" "SWITCH"; kw "case" "CASE"; kw "default" "DEFAULT"; kw "break" "BREAK";
    kw "fallthrough" "FALLTHROUGH"; kw "pragma" "PRAGMA" ].
End KwRef.
Export KwRef.

(* ---- the documented character classes (reference for the T tie Gen/LexClasses.v) ---- *)
Definition ref_letter (r : rune) : bool := in_rng 97 122 r || in_rng 65 90 r || N.eqb r 95.   (* a-z A-Z _ *)
Definition ref_decimal (r : rune) : bool := in_rng 48 57 r.                                     (* 0-9 *)
Definition ref_digit (r : rune) : bool := ref_decimal r || N.eqb r 46.                          (* 0-9 . *)
Definition ref_hex (r : rune) : bool := in_rng 48 57 r || in_rng 97 102 r || in_rng 65 70 r.    (* 0-9 a-f A-F *)
Definition ref_delim (r : rune) : bool := ref_letter r || ref_decimal r.                        (* a-z A-Z _ 0-9 *)
Definition ref_space (r : rune) : bool := N.eqb r 32 || N.eqb r 9 || N.eqb r 13.                (* blank, tab, CR *)
Definition ref_in_string (r : rune) : bool := negb (N.eqb r 34) && negb (N.eqb r 0).            (* up to the quote or the end *)
Definition ref_ident_cont (r : rune) : bool :=                                                  (* - . : * 0-9 *)
  N.eqb r 45 || N.eqb r 46 || N.eqb r 58 || N.eqb r 42 || ref_decimal r.

(* ---- positions, defined on the decoded input alone ----
   The input is read as the rune sequence Go's decoder yields (Utf8.dec_all: U+FFFD, one byte,
   for every ill-formed sequence).  Lines and columns are 1-based; the column counts runes;
   a line feed belongs to the line it ends. *)
Local Open Scope N_scope.
Definition pos := (N * N)%type.

(* position of the rune that follows a rune [r] standing at [p] *)
Definition advance (p : pos) (r : rune) : pos :=
  if r =? 10 then (fst p + 1, 1) else (fst p, snd p + 1).

(* position of the rune that follows the prefix [pre] of the input *)
Definition end_pos (pre : list rune) : pos := fold_left advance pre (1, 1).

(* the end of input: one column past the last rune, on that rune's line; (1,1) when empty *)
Definition eof_pos (rs : list rune) : pos :=
  match rev rs with
  | [] => (1, 1)
  | _ :: rpre => let p := end_pos (rev rpre) in (fst p, snd p + 1)
  end.

(* the text of the input at position p starts with txt *)
Definition at_text (rs : list rune) (p : pos) (txt : list rune) : Prop :=
  exists pre suf, rs = pre ++ txt ++ suf /\ end_pos pre = p.

(* the token's (line, column) lies inside the input and designates the token's text:
   the text there starts with the token's surface form.
     STRING             the quote, then the literal
     OPEN_LONG_STRING   the left brace, the delimiter, the quote
     CLOSE_LONG_STRING  the closing right brace; when the long string is not terminated: the end of
                        input, the NUL byte or the stray quote where reading stopped
     EOF                the end of input (one past the last rune), or the NUL byte that ends the input
     every other token  its literal, which is not empty *)
Definition designates (rs : list rune) (t : token) : Prop :=
  let p := (tline t, tpos t) in
  if is_eof t then p = eof_pos rs \/ at_text rs p [0]
  else if str_eqb (ttype t) T_CLOSE_LONG_STRING then
    at_text rs p [125] \/ p = eof_pos rs \/ at_text rs p [0] \/ at_text rs p [34]
  else if str_eqb (ttype t) T_STRING then at_text rs p (34 :: tlit t)
  else if str_eqb (ttype t) T_OPEN_LONG_STRING then at_text rs p (123 :: tlit t ++ [34])
  else tlit t <> [] /\ at_text rs p (tlit t).
