(* C15 - Formatting keeps every comment.
   Token-stream core (Model/FmtNorm.v): EVERY comment of the source - also those behind the last
   token of the file - is in [norm c ts] exactly once, in the same order, with its text unchanged
   behind the marker run.
   NOT proved here: that the parser attaches every comment written at a documented placeholder
   (that is the parser model's comment ledger); that the layout keeps a line comment from
   swallowing what follows it (known finding line-comment-inline).  Both are covered on every
   run by the comment-sequence oracle on the implementation and by the correspondence. *)
From Coq Require Import List Bool NArith Strings.String Permutation.
From Falco Require Import Base.Bytes Model.FmtTok Model.FmtNorm
  Proofs.FmtComments Proofs.FmtRestyle Proofs.FmtSortStream Proofs.FmtExamples.
Import ListNotations.

Theorem C15_norm_comments_partial :
  forall c ts, sort_declaration c = false ->
  comments (norm c ts) = map (restyle c) (comments ts).
Proof. exact norm_comments. Qed.

(* every configuration, sort_declaration included: the same comments, each exactly once (as a
   multiset of texts: sorting moves a comment with its declaration) *)
Theorem C15_norm_comments_perm_partial :
  forall c ts, Permutation (map ctx (comments (norm c ts))) (map ctx (map (restyle c) (comments ts))).
Proof. exact norm_comments_perm. Qed.

(* the pass, from any state: exactly once, in order, none invented (holds with sorting too,
   declaration by declaration) *)
Theorem C15_run_comments :
  forall c its s carry out tl, run c s carry its = (out, tl) ->
  item_comments out ++ tl = carry ++ item_comments its.
Proof. exact run_comments. Qed.

(* the marker rewrite: text kept behind the marker run, still a comment, macro untouched *)
Theorem C15_restyle_marker_only : forall cs t, strip_marker (restyle_text cs t) = strip_marker t.
Proof. exact restyle_text_marker_only. Qed.

Theorem C15_restyle_stays_comment :
  forall cs t, is_comment_text t = true -> is_comment_text (restyle_text cs t) = true.
Proof. exact restyle_text_comment. Qed.

Theorem C15_restyle_keeps_macro :
  forall cs t, starts_with (bs "#FASTLY"%string) t = true -> restyle_text cs t = t.
Proof. exact restyle_text_macro. Qed.

Theorem C15_example : norm ex_conf2 ex_src2 =
  [ T KSub "sub"; T KIdent "f"; T KLBrace "{";
    T KLog "log"; T KString "a"; T KIdent "b"; T KPlus "+"; T KInt "1"; T KSemi ";";
    CM true "// c"; CM true "#FASTLY recv";
    T KReturn "return"; T KIdent "pass"; T KSemi ";";
    T KRBrace "}" ]%string.
Proof. exact ex_norm2. Qed.

Print Assumptions C15_norm_comments_partial.
Print Assumptions C15_norm_comments_perm_partial.
Print Assumptions C15_run_comments.
Print Assumptions C15_restyle_marker_only.
Print Assumptions C15_restyle_stays_comment.
Print Assumptions C15_restyle_keeps_macro.
Print Assumptions C15_example.
