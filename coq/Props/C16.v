(* C16 - `fmt --write` never damages the file it rewrites.
   Only the property theorems (closed by [exact]) and their Print Assumptions.
   Model: Model/FsProto.v (the protocol of Runner.Format / overwriteFile after the repair, and the
   protocol before it); proofs: Proofs/FsProtoProofs.v.

   [formatted] is an ORACLE for what parser + formatter do with a content (formatted text,
   parse error, nil for a statement-only snippet, panic); the theorems hold for every such
   function, every fault assignment [faults] (indexed by the executed operations: an operation
   fails, a write is short), every number [k] of atomic effects after which the process is
   killed (each written byte is one effect) and every file system [fs0] that holds FILE. *)
From Coq Require Import List NArith Bool.
From Falco Require Import Base.Bytes Model.FsProto Model.FsLinks Proofs.FsProtoProofs Proofs.FsLinksProofs.
Import ListNotations.

Theorem C16_write_atomic : forall (formatted : bytes -> fmt_result) content faults k fs0,
  fs0 FILE = Some content ->
  let fs' := run_prefix k (inject faults (fmt_w (formatted content))) fs0 in
  fs' FILE = Some content \/ (exists out, formatted content = FmtOk out /\ fs' FILE = Some out).
Proof. exact write_atomic. Qed.

(* exit status <> 0 (error returned, or panic): the file held its original bytes at every
   moment of the run, in particular at the end *)
Theorem C16_failure_preserves : forall (formatted : bytes -> fmt_result) content faults fs0,
  fs0 FILE = Some content ->
  exit_of faults (formatted content) <> 0 ->
  forall k, run_prefix k (inject faults (fmt_w (formatted content))) fs0 FILE = Some content.
Proof. exact failure_preserves. Qed.

Theorem C16_success_formats : forall (formatted : bytes -> fmt_result) content faults fs0,
  fs0 FILE = Some content ->
  exit_of faults (formatted content) = 0 ->
  exists out, formatted content = FmtOk out /\
    run_effs (inject faults (fmt_w (formatted content))) fs0 FILE = Some out.
Proof. exact success_formats. Qed.

(* "never damages" includes "a successful rewrite loses no statement".  [tree] reads a content
   as its list of declarations and statements (any type T; None = not a program).  The ORACLE
   HYPOTHESIS [keeps formatted tree] - whenever parser + formatter produce a text for a content,
   the content is a program and the text reads as the same statements - is tied on every run:
   the original and the rewritten file are parsed the way falco fmt parses them and their
   projected trees are compared (implrun fmttree).  Under it FILE reads as the statements of the
   original at EVERY moment of EVERY faulted run, and a run that exits 0 leaves the formatted text
   with all of them. *)
Theorem C16_statements_never_lost : forall (T : Type) (tree : bytes -> option T) (formatted : bytes -> fmt_result)
  content faults k fs0,
  keeps formatted tree -> fs0 FILE = Some content ->
  exists d, run_prefix k (inject faults (fmt_w (formatted content))) fs0 FILE = Some d /\ tree d = tree content.
Proof. exact @statements_never_lost. Qed.

Theorem C16_success_keeps_statements : forall (T : Type) (tree : bytes -> option T) (formatted : bytes -> fmt_result)
  content faults fs0,
  keeps formatted tree -> fs0 FILE = Some content -> exit_of faults (formatted content) = 0 ->
  exists out, formatted content = FmtOk out /\
    run_effs (inject faults (fmt_w (formatted content))) fs0 FILE = Some out /\
    tree out = tree content /\ tree content <> None.
Proof. exact @success_keeps_statements. Qed.

(* without the hypothesis (a formatter that skips what it cannot print): success, fewer statements *)
Theorem C16_skipping_formatter_refuted :
  exists (tree : bytes -> option nat) (formatted : bytes -> fmt_result) content faults fs0,
    fs0 FILE = Some content /\ exit_of faults (formatted content) = 0 /\
    exists d, run_effs (inject faults (fmt_w (formatted content))) fs0 FILE = Some d /\ tree d <> tree content.
Proof. exact skipping_formatter_refuted. Qed.

(* killed at any point before the rename: original bytes *)
Theorem C16_kill_before_rename : forall (formatted : bytes -> fmt_result) content faults k fs0,
  fs0 FILE = Some content ->
  ~ In (ERename TMP FILE) (firstn k (inject faults (fmt_w (formatted content)))) ->
  run_prefix k (inject faults (fmt_w (formatted content))) fs0 FILE = Some content.
Proof. exact kill_before_rename. Qed.

(* every execution of the repaired protocol on a formattable file is either the complete
   create / write / rename sequence (exit 0) or never touches FILE (exit 1) *)
Theorem C16_protocol_shape : forall out faults,
  (snd (exec 0 faults (fmt_w (FmtOk out))) = 0 /\ fst (exec 0 faults (fmt_w (FmtOk out))) = ok_effs out) \/
  (snd (exec 0 faults (fmt_w (FmtOk out))) = 1 /\ quiet (fst (exec 0 faults (fmt_w (FmtOk out)))) = true).
Proof. exact exec_fmt_w_ok. Qed.

(* names -> inodes -> bytes (Model/FsLinks.v): for every other NAME q of FILE's inode (a hard
   link, the path a symbolic link resolves through) the bytes read through q are the original
   ones at every moment of every faulted run; FILE reads original or formatted; original on failure *)
Theorem C16_links_atomic : forall (formatted : bytes -> fmt_result) content faults k f0 fresh i0,
  names f0 FILE = Some i0 -> idata f0 i0 = Some content -> names f0 TMP = None -> fresh <> i0 ->
  let f' := irun fresh (firstn k (inject faults (fmt_w (formatted content)))) f0 in
  (forall q, q <> FILE -> q <> TMP -> names f0 q = Some i0 -> iread f' q = Some content) /\
  (iread f' FILE = Some content \/ exists out, formatted content = FmtOk out /\ iread f' FILE = Some out) /\
  (exit_of faults (formatted content) <> 0 -> iread f' FILE = Some content).
Proof. exact links_atomic. Qed.

(* the protocol before repository commit e9e7919 (O_TRUNC open before the result exists) *)
Theorem C16_trunc_first_refuted :
  exists (formatted : bytes -> fmt_result) content faults k fs0,
    fs0 FILE = Some content /\
    let fs' := run_prefix k (inject faults (fmt_w_old (formatted content))) fs0 in
    fs' FILE <> Some content /\ (forall out, formatted content = FmtOk out -> fs' FILE <> Some out).
Proof. exact trunc_first_refuted. Qed.

Theorem C16_old_failure_damages :
  exists (formatted : bytes -> fmt_result) content faults fs0,
    fs0 FILE = Some content /\ exit_of_old faults (formatted content) <> 0 /\
    run_effs (inject faults (fmt_w_old (formatted content))) fs0 FILE <> Some content.
Proof. exact old_failure_damages. Qed.

Theorem C16_old_midwrite_refuted :
  exists (formatted : bytes -> fmt_result) content faults k fs0 out,
    fs0 FILE = Some content /\ formatted content = FmtOk out /\
    let fs' := run_prefix k (inject faults (fmt_w_old (formatted content))) fs0 in
    fs' FILE <> Some content /\ fs' FILE <> Some out.
Proof. exact old_midwrite_refuted. Qed.

Print Assumptions C16_write_atomic.
Print Assumptions C16_failure_preserves.
Print Assumptions C16_success_formats.
Print Assumptions C16_statements_never_lost.
Print Assumptions C16_success_keeps_statements.
Print Assumptions C16_skipping_formatter_refuted.
Print Assumptions C16_kill_before_rename.
Print Assumptions C16_protocol_shape.
Print Assumptions C16_links_atomic.
Print Assumptions C16_trunc_first_refuted.
Print Assumptions C16_old_failure_damages.
Print Assumptions C16_old_midwrite_refuted.
