(* C20 - VCL generated from remote and Terraform resources is valid and faithful.
   Only the property theorems (closed by [exact]) and their Print Assumptions.
   Model: Model/Escape.v (the quoting the repaired templates apply, readString of the lexer,
   decodeStringEscapes of the parser, the rendering of dictionary / ACL / backend / director
   items, the part of the table grammar the template produces); proofs: Proofs/EscapeProofs.v.

   [no_nul s]: no zero byte (a VCL string cannot carry one); [valid_utf8 s]: s is the UTF-8
   encoding of Unicode scalar values (what JSON strings decode to). *)
From Coq Require Import List NArith Bool String.
From Coq Require Import Strings.Byte.
From Falco Require Import Base.Res Base.Bytes Base.Utf8 Model.Escape Proofs.EscapeProofs Proofs.EscapeExamples.
From Falco Require Proofs.C20Lex Proofs.C20Table Proofs.C20Acl Proofs.C20Backend Model.ParseLit Model.LexParse Model.ParseBase Model.Ast.
Import ListNotations.
Local Open Scope string_scope.

(* the parser's escape decoding undoes the quoting: any text, any length *)
Theorem C20_decode_escape : forall s, no_nul s -> valid_utf8 s -> decode_string_escapes (vcl_quote s) = OK s.
Proof. exact decode_escape. Qed.

(* the quoted text contains no double quote and no line break ... *)
Theorem C20_quote_no_dquote : forall s,
  ~ In c_dq (vcl_quote s) /\ ~ In c_lf (vcl_quote s) /\ ~ In c_cr (vcl_quote s).
Proof. exact quote_no_dquote_in. Qed.

(* ... so between double quotes it lexes as exactly one string literal and lexing goes on after it *)
Theorem C20_lex_string_escape : forall s rest, no_nul s -> valid_utf8 s ->
  read_string (vcl_quote s ++ c_dq :: rest)%list = OK (vcl_quote s, rest).
Proof. exact lex_string_escape. Qed.

(* a generated table parses back to exactly its items: keys and values, order, any number
   of items (zero included) *)
Theorem C20_table_roundtrip : forall name items,
  ~ In x7b name ->
  Forall (fun kv => text_ok (fst kv) /\ text_ok (snd kv)) items ->
  parse_table (render_dict name items) = OK items.
Proof. exact table_roundtrip. Qed.

(* an ACL comment cannot leave its line *)
Theorem C20_acl_comment_one_line : forall c, ~ In c_lf (clean_comment c) /\ ~ In c_cr (clean_comment c).
Proof. exact acl_comment_one_line. Qed.

(* ---- END TO END over the real lexer (Model/Lex.v), the peek pump (Model/Pump.v) and the real
   parser (Model/Parse*.v), through the bridge Model/LexParse.v.  None of the statements below
   mentions the small template grammar of Model/Escape.v.

   A dictionary of ANY number of items (zero included) whose keys and values are arbitrary
   NUL-free well-formed UTF-8 text - double quotes, percent signs, CR and LF included - rendered
   under a name that the lexer reads as one identifier, is accepted by parse_source in VCL mode,
   and the program it returns is exactly ONE table declaration whose decoded string values are
   the original (key, value) pairs in order and whose name is the given name.  fok is the
   parser's function-name oracle and is arbitrary. *)
Theorem C20_table_parses_real :
  forall (fok : bytes -> bool) (name : bytes) (items : list (bytes * bytes)),
    C20Table.ident_name name ->
    Forall (fun kv => text_ok (fst kv) /\ text_ok (snd kv)) items ->
    exists v, LexParse.parse_source fok LexParse.MVcl (render_dict name items) = ParseBase.POK v /\
              C20Table.items_of v = items /\ C20Table.table_name_of v = name /\
              Ast.vstmts v = [C20Table.dict_decl name items].
Proof. exact C20Table.table_parses_real. Qed.

(* An ACL of ANY number of entries: every entry keeps its negation, its address (any ASCII string without double quote or NUL:
   IPv4 and IPv6 spellings alike) and its mask (any number below
   2^63); an entry comment of arbitrary NUL-free UTF-8 text - line breaks included - is lexed as
   ONE comment token and contributes nothing to the parsed program. *)
Theorem C20_acl_roundtrip :
  forall (fok : bytes -> bool) (name : bytes) (es : list acl_entry),
    C20Table.ident_name name -> Forall C20Acl.entry_ok es ->
    exists v, LexParse.parse_source fok LexParse.MVcl (render_acl name es) = ParseBase.POK v /\
              C20Acl.entries_of v = map C20Acl.entry_view es /\ C20Acl.acl_name_of v = name.
Proof. exact C20Acl.acl_parses_real. Qed.

(* A backend of ANY name (the template writes F_ and the name with every non-word rune replaced
   by an underscore; no hypothesis on the name) and any address text: the parsed program is one
   backend declaration of exactly that name whose only property is .host with the decoded
   address (no property when the resource has no address). *)
Theorem C20_backend_roundtrip :
  forall (fok : bytes -> bool) (name : bytes) (addr : option bytes),
    match addr with Some a => text_ok a | None => True end ->
    exists v, LexParse.parse_source fok LexParse.MVcl (render_backend name addr) = ParseBase.POK v /\
              C20Backend.backend_of v =
                (x46 :: x5f :: sanitize name, match addr with Some a => [(C20Backend.b_host, a)] | None => [] end).
Proof. exact C20Backend.backend_parses_real. Qed.

(* A director whose sanitised name the lexer reads as one identifier (it starts with a letter or
   underscore and is no keyword), of type random / hash / client / shield, with ANY list of
   member names: the parsed program is one director declaration with that name and type, .retries
   only for a random director with a non-zero count, .quorum as a percentage, and one
   { .backend = F_<sanitised member>; .weight = 1; } object per member, in order - so every member
   is spelled exactly as C20_backend_roundtrip declares the backend of that name. *)
Theorem C20_director_roundtrip :
  forall (fok : bytes -> bool) (name : bytes) (ty retries quorum : N) (members : list bytes),
    C20Table.ident_name (sanitize name) -> C20Backend.type_ok ty ->
    (retries < ParseLit.two63)%N -> (quorum < ParseLit.two63)%N ->
    exists v, LexParse.parse_source fok LexParse.MVcl (render_director name ty retries quorum members) = ParseBase.POK v /\
              C20Backend.director_of v = C20Backend.director_view name ty retries quorum members.
Proof. exact C20Backend.director_parses_real. Qed.

(* the templates before repository commit 011f4ea (values interpolated as they are) *)
Theorem C20_unquoted_refuted_percent :
  exists name items, parse_table (render_dict_raw name items) <> OK items /\
                     parse_table (render_dict_raw name items) = OK [(bs "a b", bs "v")].
Proof. exact unquoted_refuted_percent. Qed.

Theorem C20_unquoted_refuted_dquote :
  exists name items, parse_table (render_dict_raw name items) = Err.
Proof. exact unquoted_refuted_dquote. Qed.

Theorem C20_raw_comment_refuted :
  exists e, count_occ Byte.byte_eq_dec (render_entry_with (fun c => c) e) c_lf = 2%nat /\
            count_occ Byte.byte_eq_dec (render_entry_with clean_comment e) c_lf = 1%nat.
Proof. exact raw_comment_refuted. Qed.

(* a non-trivial instance of the hypotheses (text with %, quote, non-ASCII) *)
Theorem C20_witness_text_ok : text_ok (bs "a%20b""" ++ enc_all [233%N; 26085%N; 128512%N])%list.
Proof. exact text_ok_witness. Qed.

Print Assumptions C20_decode_escape.
Print Assumptions C20_quote_no_dquote.
Print Assumptions C20_lex_string_escape.
Print Assumptions C20_table_roundtrip.
Print Assumptions C20_table_parses_real.
Print Assumptions C20_acl_roundtrip.
Print Assumptions C20_backend_roundtrip.
Print Assumptions C20_director_roundtrip.
Print Assumptions C20_acl_comment_one_line.
Print Assumptions C20_unquoted_refuted_percent.
Print Assumptions C20_unquoted_refuted_dquote.
Print Assumptions C20_raw_comment_refuted.
Print Assumptions C20_witness_text_ok.
