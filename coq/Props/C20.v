(* C20 - VCL generated from remote and Terraform resources is valid and faithful.
   Only the property theorems (closed by [exact]) and their Print Assumptions.
   Model: Model/Escape.v (the quoting the repaired templates apply, readString of the lexer,
   decodeStringEscapes of the parser, the rendering of dictionary / ACL / backend / director
   items, the part of the table grammar the template produces); proofs: Proofs/EscapeProofs.v.

   [no_nul s]: no zero byte (a VCL string cannot carry one); [valid_utf8 s]: s is the UTF-8
   encoding of Unicode scalar values (what JSON strings decode to). *)
From Coq Require Import List NArith Bool String.
From Coq Require Import Strings.Byte.
From Falco Require Import Base.Res Base.Bytes Base.Utf8 Model.Escape Proofs.EscapeProofs Proofs.EscapeExamples.
From Coq Require Import Permutation Sorted ZArith.
From Falco Require Import Model.Snippets Proofs.SnippetsProofs.
From Falco Require Proofs.C20Lex Proofs.C20Table Proofs.C20Acl Proofs.C20Backend Proofs.C20Rules Model.Rules Model.ParseLit Model.LexParse Model.ParseBase Model.Ast.
Import ListNotations.
Local Open Scope string_scope.

(* the parser's escape decoding undoes the quoting: any text, any length *)
Theorem C20_decode_escape : forall s, no_nul s -> valid_utf8 s -> decode_string_escapes (vcl_quote s) = OK s.
Proof. exact decode_escape. Qed.

(* the quoted text contains no double quote and no line break ... *)
Theorem C20_quote_no_dquote : forall s,
  ~ In c_dq (vcl_quote s) /\ ~ In c_lf (vcl_quote s) /\ ~ In c_cr (vcl_quote s).
Proof. exact quote_no_dquote_in. Qed.

(* ... so between double quotes it lexes as exactly one string literal and lexing goes on after it *)
Theorem C20_lex_string_escape : forall s rest, no_nul s -> valid_utf8 s ->
  read_string (vcl_quote s ++ c_dq :: rest)%list = OK (vcl_quote s, rest).
Proof. exact lex_string_escape. Qed.

(* a generated table parses back to exactly its items: keys and values, order, any number
   of items (zero included) *)
Theorem C20_table_roundtrip : forall name items,
  ~ In x7b name ->
  Forall (fun kv => text_ok (fst kv) /\ text_ok (snd kv)) items ->
  parse_table (render_dict name items) = OK items.
Proof. exact table_roundtrip. Qed.

(* an ACL comment cannot leave its line *)
Theorem C20_acl_comment_one_line : forall c, ~ In c_lf (clean_comment c) /\ ~ In c_cr (clean_comment c).
Proof. exact acl_comment_one_line. Qed.

(* ---- END TO END over the real lexer (Model/Lex.v), the peek pump (Model/Pump.v) and the real
   parser (Model/Parse*.v), through the bridge Model/LexParse.v.  None of the statements below
   mentions the small template grammar of Model/Escape.v.

   A dictionary of ANY number of items (zero included) whose keys and values are arbitrary
   NUL-free well-formed UTF-8 text - double quotes, percent signs, CR and LF included - rendered
   under a name that the lexer reads as one identifier, is accepted by parse_source in VCL mode,
   and the program it returns is exactly ONE table declaration whose decoded string values are
   the original (key, value) pairs in order and whose name is the given name.  fok is the
   parser's function-name oracle and is arbitrary. *)
Theorem C20_table_parses_real :
  forall (fok : bytes -> bool) (name : bytes) (items : list (bytes * bytes)),
    C20Table.ident_name name ->
    Forall (fun kv => text_ok (fst kv) /\ text_ok (snd kv)) items ->
    exists v, LexParse.parse_source fok LexParse.MVcl (render_dict name items) = ParseBase.POK v /\
              C20Table.items_of v = items /\ C20Table.table_name_of v = name /\
              Ast.vstmts v = [C20Table.dict_decl name items].
Proof. exact C20Table.table_parses_real. Qed.

(* An ACL of ANY number of entries: every entry keeps its negation, its address (any ASCII string without double quote or NUL:
   IPv4 and IPv6 spellings alike) and its mask (any number below
   2^63); an entry comment of arbitrary NUL-free UTF-8 text - line breaks included - is lexed as
   ONE comment token and contributes nothing to the parsed program. *)
Theorem C20_acl_roundtrip :
  forall (fok : bytes -> bool) (name : bytes) (es : list acl_entry),
    C20Table.ident_name name -> Forall C20Acl.entry_ok es ->
    exists v, LexParse.parse_source fok LexParse.MVcl (render_acl name es) = ParseBase.POK v /\
              C20Acl.entries_of v = map C20Acl.entry_view es /\ C20Acl.acl_name_of v = name.
Proof. exact C20Acl.acl_parses_real. Qed.

(* A backend of ANY name (the template writes F_ and the name with every non-word rune replaced
   by an underscore; no hypothesis on the name) and any address text: the parsed program is one
   backend declaration of exactly that name whose only property is .host with the decoded
   address (no property when the resource has no address). *)
Theorem C20_backend_roundtrip :
  forall (fok : bytes -> bool) (name : bytes) (addr : option bytes),
    match addr with Some a => text_ok a | None => True end ->
    exists v, LexParse.parse_source fok LexParse.MVcl (render_backend name addr) = ParseBase.POK v /\
              C20Backend.backend_of v =
                (x46 :: x5f :: sanitize name, match addr with Some a => [(C20Backend.b_host, a)] | None => [] end).
Proof. exact C20Backend.backend_parses_real. Qed.

(* A director whose sanitised name the lexer reads as one identifier (it starts with a letter or
   underscore and is no keyword), of type random / hash / client / shield, with ANY list of
   member names: the parsed program is one director declaration with that name and type, .retries
   only for a random director with a non-zero count, .quorum as a percentage, and one
   { .backend = F_<sanitised member>; .weight = 1; } object per member, in order - so every member
   is spelled exactly as C20_backend_roundtrip declares the backend of that name. *)
Theorem C20_director_roundtrip :
  forall (fok : bytes -> bool) (name : bytes) (ty retries quorum : N) (members : list bytes),
    C20Table.ident_name (sanitize name) -> C20Backend.type_ok ty ->
    (retries < ParseLit.two63)%N -> (quorum < ParseLit.two63)%N ->
    exists v, LexParse.parse_source fok LexParse.MVcl (render_director name ty retries quorum members) = ParseBase.POK v /\
              C20Backend.director_of v = C20Backend.director_view name ty retries quorum members.
Proof. exact C20Backend.director_parses_real. Qed.

(* ---- VCL snippets (Model/Snippets.v: fetchVCLSnippets after the repair).  [scoped ty l] is the
   list of the snippets of type ty a service with snippets l (in the order fetched) gets.
   Sorted and stable: priorities never decrease along the list, and for EVERY priority p the
   snippets of priority p in the list are exactly the snippets of that type and priority in the
   order they were given - together: the list is the stable sort by priority of the snippets of
   the type.  Complete: the list is a rearrangement of the snippets of the type - each appears, as
   often as given (once when distinct), and nothing else.  Type none: with pairwise different names
   (names that collide only after sanitising ARE different) every snippet is found under its own
   name as written. *)
Theorem C20_snippets_sorted_stable : forall ty l,
  StronglySorted le_prio (scoped ty l) /\
  forall p, filter (prio_is p) (scoped ty l) = filter (prio_is p) (filter (has_type ty) l).
Proof. exact snippets_sorted_stable. Qed.

Theorem C20_snippets_complete : forall ty l, Permutation (scoped ty l) (filter (has_type ty) l).
Proof. exact snippets_complete. Qed.

Theorem C20_snippets_none_by_name : forall l s,
  In s l -> is_none s = true -> NoDup (map s_name (filter is_none l)) -> include_of (s_name s) l = Some s.
Proof. exact none_by_name. Qed.

(* ---- header rules (Model/Rules.v: headerTemplate for the actions set and delete, every type,
   with and without ignore_if_set, no condition), END TO END through the lexer, pump and parser
   models in snippet mode: the text parses to exactly the intended statement - `set T = SRC;` or
   `unset T;`, inside `if (!T) { ... }` with ignore_if_set - where T is <object>.<destination>
   (one identifier for the lexer: dots, dashes, colons allowed) and SRC, which is VCL the user wrote,
   is a variable or a string literal whose escapes decode ([act_ok]).  Not proved: append / regex /
   regex_repeat, sources that are larger expressions, conditions (correspondence only). *)
Theorem C20_header_rule_parses_real : forall fok ty dest ignore a,
  C20Table.ident_name (Rules.target_of ty dest) -> C20Rules.act_ok a ->
  LexParse.parse_source fok LexParse.MSnippet (Rules.render_rule ty dest ignore (C20Rules.act_of a)) =
  ParseBase.POK (Ast.Vcl (C20Rules.rule_ast (Rules.target_of ty dest) ignore a) true).
Proof. exact C20Rules.rule_parses_real. Qed.

(* ---- response objects.  PARTIAL: proved are (1) the content-type statement end to end - for every
   NUL-free UTF-8 content type the generated `set obj.http.Content-Type = DQ quote(ct) DQ;` parses to
   a set statement whose string value is ct - and (2) the body's long string: the delimiter the
   helper chooses is one the body cannot close (DQ delimiter right-brace does not occur in it).
   MISSING: lexing the long string itself through Model/Lex.v (it pushes OPEN / STRING / CLOSE tokens
   into the peek queue, outside the cursor invariant of Proofs/C20Lex.v) and the surrounding
   if / set obj.status / return statements; the correspondence reads body, status and content type
   back from the real parser on every generated response object. *)
Theorem C20_response_object_roundtrip_partial : forall fok ct body t,
  text_ok ct -> Rules.longstring body = Some t ->
  LexParse.parse_source fok LexParse.MSnippet (Rules.render_content_type ct) =
    ParseBase.POK (Ast.Vcl [Ast.SSet C20Rules.tk_set (C20Table.tk_ident Rules.ct_target) C20Backend.tk_assign
                                     (Ast.EString (C20Table.tk_string ct) ct) C20Acl.tk_semi] true) /\
  exists d, t = ([x7b] ++ d ++ [x22] ++ body ++ [x22] ++ d ++ [x7d])%list /\ Rules.contains (Rules.closer d) body = false.
Proof. exact C20Rules.response_object_roundtrip_partial. Qed.

(* the templates before repository commit 011f4ea (values interpolated as they are) *)
Theorem C20_unquoted_refuted_percent :
  exists name items, parse_table (render_dict_raw name items) <> OK items /\
                     parse_table (render_dict_raw name items) = OK [(bs "a b", bs "v")].
Proof. exact unquoted_refuted_percent. Qed.

Theorem C20_unquoted_refuted_dquote :
  exists name items, parse_table (render_dict_raw name items) = Err.
Proof. exact unquoted_refuted_dquote. Qed.

Theorem C20_raw_comment_refuted :
  exists e, count_occ Byte.byte_eq_dec (render_entry_with (fun c => c) e) c_lf = 2%nat /\
            count_occ Byte.byte_eq_dec (render_entry_with clean_comment e) c_lf = 1%nat.
Proof. exact raw_comment_refuted. Qed.

(* a non-trivial instance of the hypotheses (text with %, quote, non-ASCII) *)
Theorem C20_witness_text_ok : text_ok (bs "a%20b""" ++ enc_all [233%N; 26085%N; 128512%N])%list.
Proof. exact text_ok_witness. Qed.

Print Assumptions C20_decode_escape.
Print Assumptions C20_quote_no_dquote.
Print Assumptions C20_lex_string_escape.
Print Assumptions C20_table_roundtrip.
Print Assumptions C20_table_parses_real.
Print Assumptions C20_acl_roundtrip.
Print Assumptions C20_backend_roundtrip.
Print Assumptions C20_director_roundtrip.
Print Assumptions C20_snippets_sorted_stable.
Print Assumptions C20_snippets_complete.
Print Assumptions C20_snippets_none_by_name.
Print Assumptions C20_header_rule_parses_real.
Print Assumptions C20_response_object_roundtrip_partial.
Print Assumptions C20_acl_comment_one_line.
Print Assumptions C20_unquoted_refuted_percent.
Print Assumptions C20_unquoted_refuted_dquote.
Print Assumptions C20_raw_comment_refuted.
Print Assumptions C20_witness_text_ok.
