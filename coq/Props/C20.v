(* C20 - VCL generated from remote and Terraform resources is valid and faithful.
   Only the property theorems (closed by [exact]) and their Print Assumptions.
   Model: Model/Escape.v (the quoting the repaired templates apply, readString of the lexer,
   decodeStringEscapes of the parser, the rendering of dictionary / ACL / backend / director
   items, the part of the table grammar the template produces); proofs: Proofs/EscapeProofs.v.

   [no_nul s]: no zero byte (a VCL string cannot carry one); [valid_utf8 s]: s is the UTF-8
   encoding of Unicode scalar values (what JSON strings decode to). *)
From Coq Require Import List NArith Bool String.
From Coq Require Import Strings.Byte.
From Falco Require Import Base.Res Base.Bytes Base.Utf8 Model.Escape Proofs.EscapeProofs Proofs.EscapeExamples.
Import ListNotations.
Local Open Scope string_scope.

(* the parser's escape decoding undoes the quoting: any text, any length *)
Theorem C20_decode_escape : forall s, no_nul s -> valid_utf8 s -> decode_string_escapes (vcl_quote s) = OK s.
Proof. exact decode_escape. Qed.

(* the quoted text contains no double quote and no line break ... *)
Theorem C20_quote_no_dquote : forall s,
  ~ In c_dq (vcl_quote s) /\ ~ In c_lf (vcl_quote s) /\ ~ In c_cr (vcl_quote s).
Proof. exact quote_no_dquote_in. Qed.

(* ... so between double quotes it lexes as exactly one string literal and lexing goes on after it *)
Theorem C20_lex_string_escape : forall s rest, no_nul s -> valid_utf8 s ->
  read_string (vcl_quote s ++ c_dq :: rest)%list = OK (vcl_quote s, rest).
Proof. exact lex_string_escape. Qed.

(* a generated table parses back to exactly its items: keys and values, order, any number
   of items (zero included) *)
Theorem C20_table_roundtrip : forall name items,
  ~ In x7b name ->
  Forall (fun kv => text_ok (fst kv) /\ text_ok (snd kv)) items ->
  parse_table (render_dict name items) = OK items.
Proof. exact table_roundtrip. Qed.

(* an ACL comment cannot leave its line *)
Theorem C20_acl_comment_one_line : forall c, ~ In c_lf (clean_comment c) /\ ~ In c_cr (clean_comment c).
Proof. exact acl_comment_one_line. Qed.

(* the templates before repository commit 011f4ea (values interpolated as they are) *)
Theorem C20_unquoted_refuted_percent :
  exists name items, parse_table (render_dict_raw name items) <> OK items /\
                     parse_table (render_dict_raw name items) = OK [(bs "a b", bs "v")].
Proof. exact unquoted_refuted_percent. Qed.

Theorem C20_unquoted_refuted_dquote :
  exists name items, parse_table (render_dict_raw name items) = Err.
Proof. exact unquoted_refuted_dquote. Qed.

Theorem C20_raw_comment_refuted :
  exists e, count_occ Byte.byte_eq_dec (render_entry_with (fun c => c) e) c_lf = 2%nat /\
            count_occ Byte.byte_eq_dec (render_entry_with clean_comment e) c_lf = 1%nat.
Proof. exact raw_comment_refuted. Qed.

(* a non-trivial instance of the hypotheses (text with %, quote, non-ASCII) *)
Theorem C20_witness_text_ok : text_ok (bs "a%20b""" ++ enc_all [233%N; 26085%N; 128512%N])%list.
Proof. exact text_ok_witness. Qed.

Print Assumptions C20_decode_escape.
Print Assumptions C20_quote_no_dquote.
Print Assumptions C20_lex_string_escape.
Print Assumptions C20_table_roundtrip.
Print Assumptions C20_acl_comment_one_line.
Print Assumptions C20_unquoted_refuted_percent.
Print Assumptions C20_unquoted_refuted_dquote.
Print Assumptions C20_raw_comment_refuted.
Print Assumptions C20_witness_text_ok.
