(* C04 - The lint command's verdict is consistent.
   Only the property theorems (closed by [exact]) and their Print Assumptions; the model is
   Model/Verdict.v (cmd/falco/runner.go Run / run / printLinterError / NewRunner, cmd/falco/main.go
   runLint and the exit status), the proofs are in Proofs/VerdictProofs.v.

   [lint_input] is what the linter yields for a program through the Go API: parse error in the
   main file, parse error in an included module (FatalError), and l.Errors - rule and intrinsic
   severity of every diagnostic that survived the ignore comments.  [effective c d] is the severity
   after the rule overrides of .falco.yml. *)
From Coq Require Import List Bool Arith.
From Falco Require Import Base.Bytes Model.Verdict Proofs.VerdictProofs.
Import ListNotations.
Open Scope list_scope.

(* exit status: non-zero exactly for a syntax error (main or included file) or a diagnostic whose
   effective severity is ERROR - for every configuration, -json included *)
Theorem C04_exit_iff :
  forall c x,
    exit (run_lint c x) <> 0 <->
    parse_error_main x = true \/ parse_error_included x = true \/
    exists d, In d (diags x) /\ effective c d = SevError.
Proof. exact exit_iff. Qed.

Theorem C04_exit_is_0_or_1 : forall c x, exit (run_lint c x) = 0 \/ exit (run_lint c x) = 1.
Proof. exact exit_01. Qed.

(* the three counts of the summary line: number of diagnostics of each effective severity, IGNORE
   counted nowhere; no summary line at all after a syntax error *)
Theorem C04_counts_spec :
  forall c x,
    (parse_error_main x = false -> parse_error_included x = false ->
     summary (run_lint c x) = Some (count c SevError (diags x), count c SevWarning (diags x), count c SevInfo (diags x)))
    /\ (parse_error_main x = true \/ parse_error_included x = true -> summary (run_lint c x) = None).
Proof. exact counts_spec. Qed.

(* -json, -v, -vv are irrelevant for the exit status and the counts: two configurations with the
   same overrides (whatever their json / verbosity fields) give the same exit status and summary *)
Theorem C04_flags_irrelevant :
  forall c c' x,
    (forall r, overrides c r = overrides c' r) ->
    exit (run_lint c x) = exit (run_lint c' x) /\ summary (run_lint c x) = summary (run_lint c' x).
Proof. exact flags_irrelevant. Qed.

(* the -json document: same counts as the summary; it lists exactly the non-ignored diagnostics, each
   with its effective severity, so counting the entries by severity gives the same three counts;
   after a syntax error it carries the parse error and the exit status is 1 *)
Theorem C04_json_doc_spec :
  forall c x,
    (json c = false -> doc (run_lint c x) = None) /\
    (json c = true -> parse_error_main x = false -> parse_error_included x = false ->
     exists res, doc (run_lint c x) = Some res /\
       summary (run_lint c x) = Some (res_errors res, res_warnings res, res_infos res) /\
       res_lint res = listed c (diags x) /\
       List.length (res_lint res) = res_errors res + res_warnings res + res_infos res /\
       (forall s, s <> SevIgnore ->
          List.length (filter (fun e => sev_eqb (snd e) s) (res_lint res)) = count c s (diags x)) /\
       res_parse res = 0) /\
    (json c = true -> parse_error_main x = true \/ parse_error_included x = true ->
     exists res, doc (run_lint c x) = Some res /\ res_parse res = 1 /\ res_lint res = [] /\
       res_errors res = 0 /\ exit (run_lint c x) = 1).
Proof. exact json_doc_spec. Qed.

(* what -v / -vv / -json do change: the diagnostics written to the terminal *)
Theorem C04_terminal_spec :
  forall c x,
    parse_error_main x = false -> parse_error_included x = false ->
    terminal (run_lint c x) =
    if json c then []
    else map (fun d => (fst d, effective c d)) (filter (fun d => visible (verbosity c) (effective c d)) (diags x)).
Proof. exact terminal_spec. Qed.

(* non-vacuity witness (Proofs/VerdictProofs.v ex_overrides / ex_input): all four severities, an
   override in each direction, an invalid level: same verdict under every flag combination *)
Theorem C04_ex_all_flags :
  forall j v, let o := run_lint {| json := j; verbosity := v; overrides := ex_overrides |} ex_input in
  exit o = 1 /\ summary o = Some (2, 1, 1).
Proof. exact ex_all_flags. Qed.

(* Before the repair the first theorem was false: `falco lint -json` on a file with a syntax error
   printed "0 errors" and exited 0. *)
Theorem C04_unrepaired_json_swallows_parse_error :
  exists c x, parse_error_main x = true /\ exit (run_lint_unrepaired c x) = 0 /\
              summary (run_lint_unrepaired c x) = Some (0, 0, 0).
Proof. exact unrepaired_json_swallows_parse_error. Qed.

Print Assumptions C04_exit_iff.
Print Assumptions C04_exit_is_0_or_1.
Print Assumptions C04_counts_spec.
Print Assumptions C04_flags_irrelevant.
Print Assumptions C04_json_doc_spec.
Print Assumptions C04_terminal_spec.
Print Assumptions C04_ex_all_flags.
Print Assumptions C04_unrepaired_json_swallows_parse_error.
