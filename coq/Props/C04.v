(* C04 - The lint command's verdict is consistent.
   Only the property theorems (closed by [exact]) and their Print Assumptions; the model is
   Model/Verdict.v (cmd/falco/runner.go Run / run / printLinterError / NewRunner, cmd/falco/main.go
   runLint and the exit status), the proofs are in Proofs/VerdictProofs.v.

   [lint_input] is what the linter yields for a program through the Go API: parse error in the
   main file, parse error in an included module (FatalError), and l.Errors - rule and intrinsic
   severity of every diagnostic that survived the ignore comments.  [effective c d] is the severity
   after the rule overrides of .falco.yml. *)
From Coq Require Import List Bool Arith.
From Falco Require Import Base.Bytes Gen.LintGen Model.Verdict Model.VerdictExt Proofs.VerdictProofs Proofs.VerdictExtProofs.
Import ListNotations.
Open Scope list_scope.

(* exit status: non-zero exactly for a syntax error (main or included file) or a diagnostic whose
   effective severity is ERROR - for every configuration, -json included *)
Theorem C04_exit_iff :
  forall c x,
    exit (run_lint c x) <> 0 <->
    parse_error_main x = true \/ parse_error_included x = true \/
    exists d, In d (diags x) /\ effective c d = SevError.
Proof. exact exit_iff. Qed.

Theorem C04_exit_is_0_or_1 : forall c x, exit (run_lint c x) = 0 \/ exit (run_lint c x) = 1.
Proof. exact exit_01. Qed.

(* the three counts of the summary line: number of diagnostics of each effective severity, IGNORE
   counted nowhere; no summary line at all after a syntax error *)
Theorem C04_counts_spec :
  forall c x,
    (parse_error_main x = false -> parse_error_included x = false ->
     summary (run_lint c x) = Some (count c SevError (diags x), count c SevWarning (diags x), count c SevInfo (diags x)))
    /\ (parse_error_main x = true \/ parse_error_included x = true -> summary (run_lint c x) = None).
Proof. exact counts_spec. Qed.

(* -json, -v, -vv are irrelevant for the exit status and the counts: two configurations with the
   same overrides (whatever their json / verbosity fields) give the same exit status and summary *)
Theorem C04_flags_irrelevant :
  forall c c' x,
    (forall r, overrides c r = overrides c' r) ->
    exit (run_lint c x) = exit (run_lint c' x) /\ summary (run_lint c x) = summary (run_lint c' x).
Proof. exact flags_irrelevant. Qed.

(* the -json document: same counts as the summary; it lists exactly the non-ignored diagnostics, each
   with its effective severity, so counting the entries by severity gives the same three counts;
   after a syntax error it carries the parse error and the exit status is 1 *)
Theorem C04_json_doc_spec :
  forall c x,
    (json c = false -> doc (run_lint c x) = None) /\
    (json c = true -> parse_error_main x = false -> parse_error_included x = false ->
     exists res, doc (run_lint c x) = Some res /\
       summary (run_lint c x) = Some (res_errors res, res_warnings res, res_infos res) /\
       res_lint res = listed c (diags x) /\
       List.length (res_lint res) = res_errors res + res_warnings res + res_infos res /\
       (forall s, s <> SevIgnore ->
          List.length (filter (fun e => sev_eqb (snd e) s) (res_lint res)) = count c s (diags x)) /\
       res_parse res = 0) /\
    (json c = true -> parse_error_main x = true \/ parse_error_included x = true ->
     exists res, doc (run_lint c x) = Some res /\ res_parse res = 1 /\ res_lint res = [] /\
       res_errors res = 0 /\ exit (run_lint c x) = 1).
Proof. exact json_doc_spec. Qed.

(* what -v / -vv / -json do change: the diagnostics written to the terminal *)
Theorem C04_terminal_spec :
  forall c x,
    parse_error_main x = false -> parse_error_included x = false ->
    terminal (run_lint c x) =
    if json c then []
    else map (fun d => (fst d, effective c d)) (filter (fun d => visible (verbosity c) (effective c d)) (diags x)).
Proof. exact terminal_spec. Qed.

(* ---------------------------------------------------------------- overrides, cascade, files, sub-commands *)

(* the exit status and the counts are a function of the syntax-error flags and of the sequence of EFFECTIVE
   severities (after the rule overrides of .falco.yaml) - of nothing else: not of the rule names, not of
   the intrinsic severities, not of any flag *)
Theorem C04_verdict_function_of_effective :
  forall c c' x x',
    parse_error_main x = parse_error_main x' -> parse_error_included x = parse_error_included x' ->
    map (effective c) (diags x) = map (effective c') (diags x') ->
    exit (run_lint c x) = exit (run_lint c' x') /\ summary (run_lint c x) = summary (run_lint c' x').
Proof. exact verdict_function_of_effective. Qed.

(* remapping a rule to IGNORE removes exactly its diagnostics: the whole outcome (exit status, summary,
   -json document, terminal) is the outcome of the program without them *)
Theorem C04_ignore_override_removes_exactly :
  forall c r x, run_lint (with_ignore c r) x = run_lint c (without r x).
Proof. exact ignore_override_removes_exactly. Qed.

(* the configuration cascade (yaml `linter.verbose`, flags in any order, repeated): the resulting
   configuration depends on the SET of flags; exit status and counts depend on the yaml rules only *)
Theorem C04_cfg_of_flag_set :
  forall yv rules fl fl', (forall g, In g fl <-> In g fl') -> cfg_of yv rules fl = cfg_of yv rules fl'.
Proof. exact cfg_of_flag_set. Qed.

Theorem C04_cascade_irrelevant :
  forall yv yv' rules fl fl' x,
    exit (run_lint (cfg_of yv rules fl) x) = exit (run_lint (cfg_of yv' rules fl') x) /\
    summary (run_lint (cfg_of yv rules fl) x) = summary (run_lint (cfg_of yv' rules fl') x).
Proof. exact cascade_irrelevant. Qed.

Theorem C04_cascade_verbosity :
  forall yv rules fl,
    verbosity (cfg_of yv rules fl) =
    if has FVV fl || match yv with YInfo => true | _ => false end then 2
    else if has FV fl || match yv with YWarning => true | _ => false end then 1 else 0.
Proof. exact cascade_verbosity. Qed.

(* stated explicitly: for one input and one override table the exit status and the counts are the same under every
   combination of -json / -v / -vv *)
Theorem C04_json_plain_same_exit :
  forall ov x j v j' v',
    exit (run_lint {| json := j; verbosity := v; overrides := ov |} x) = exit (run_lint {| json := j'; verbosity := v'; overrides := ov |} x) /\
    summary (run_lint {| json := j; verbosity := v; overrides := ov |} x) = summary (run_lint {| json := j'; verbosity := v'; overrides := ov |} x).
Proof. exact json_plain_same_exit. Qed.

(* the flag names -json / -v / -vv and the values of the yaml key `verbose` are the ones config/config.go declares
   (regenerated): each maps to its flag / level *)
Theorem C04_config_spellings :
  map flag_of_name [flag_json; flag_verbose_warning; flag_verbose_info] = [Some FJson; Some FV; Some FVV] /\
  map (fun p => yverbose_of (Some (fst p))) yaml_verbose_levels = [YWarning; YInfo] /\
  yverbose_of None = YNone.
Proof. exact config_spellings_ok. Qed.

(* -json with several files (includes): one entry per file that has a non-ignored diagnostic, holding exactly
   that file's diagnostics in order with their effective severity; nothing dropped, nothing listed twice *)
Theorem C04_doc_files_spec :
  forall c fds f,
    lookup f (doc_files c fds) = match listed c (of_file f fds) with [] => None | l => Some l end.
Proof. exact doc_files_spec. Qed.

Theorem C04_doc_files_total :
  forall c fds, List.length (concat (map snd (doc_files c fds))) = List.length (listed c (map snd fds)).
Proof. exact doc_files_total. Qed.

(* falco stats fails exactly on a syntax error, in the main file or in an included module (after the repair) *)
Theorem C04_stats_exit_iff :
  forall x, run_stats x <> 0 <-> parse_error_main x = true \/ parse_error_included x = true.
Proof. exact stats_exit_iff. Qed.

(* the regenerated spellings (Gen/LintGen.v): the four severities print differently, NewRunner accepts exactly
   the four level words, each selecting the severity of the same name *)
Theorem C04_spellings :
  NoDup severity_strings /\
  map (fun p => parse_level (fst p)) override_words = [Some SevError; Some SevWarning; Some SevInfo; Some SevIgnore] /\
  map sev_of_string severity_strings = [Some SevError; Some SevWarning; Some SevInfo; Some SevIgnore].
Proof. exact spellings_ok. Qed.

(* non-vacuity witness (Proofs/VerdictProofs.v ex_overrides / ex_input): all four severities, an
   override in each direction, an invalid level: same verdict under every flag combination *)
Theorem C04_ex_all_flags :
  forall j v, let o := run_lint {| json := j; verbosity := v; overrides := ex_overrides |} ex_input in
  exit o = 1 /\ summary o = Some (2, 1, 1).
Proof. exact ex_all_flags. Qed.

(* Before the repair the first theorem was false: `falco lint -json` on a file with a syntax error
   printed "0 errors" and exited 0. *)
Theorem C04_unrepaired_json_swallows_parse_error :
  exists c x, parse_error_main x = true /\ exit (run_lint_unrepaired c x) = 0 /\
              summary (run_lint_unrepaired c x) = Some (0, 0, 0).
Proof. exact unrepaired_json_swallows_parse_error. Qed.

Print Assumptions C04_exit_iff.
Print Assumptions C04_exit_is_0_or_1.
Print Assumptions C04_counts_spec.
Print Assumptions C04_flags_irrelevant.
Print Assumptions C04_json_doc_spec.
Print Assumptions C04_terminal_spec.
Print Assumptions C04_ex_all_flags.
Print Assumptions C04_unrepaired_json_swallows_parse_error.
Print Assumptions C04_verdict_function_of_effective.
Print Assumptions C04_ignore_override_removes_exactly.
Print Assumptions C04_cfg_of_flag_set.
Print Assumptions C04_cascade_irrelevant.
Print Assumptions C04_cascade_verbosity.
Print Assumptions C04_doc_files_spec.
Print Assumptions C04_doc_files_total.
Print Assumptions C04_stats_exit_iff.
Print Assumptions C04_spellings.
Print Assumptions C04_json_plain_same_exit.
Print Assumptions C04_config_spellings.
