(* C09 - Comments and layout never change what a program means.
   Only the property theorems (closed by [exact]) and their Print Assumptions.
   Model/Decor.v: token streams with ordinary comments, annotation comments, line feeds and
   blanks; [decorate]; what parser.ReadPeek hands on ([significant], [annotations]).
   Model/DecorSites.v: the audited list of sites that render a node to text. *)
From Coq Require Import List NArith String.
From Falco Require Import Gen.StringSites Gen.MetaReads Model.Decor Model.DecorSites Model.DecorReads Proofs.DecorProofs.
From Falco Require Import Base.Res Gen.Tokens Model.Lex Model.Pump Proofs.DecorReal.
From Falco Require Model.ParseBase Model.ParseDecl Model.Ast Model.Yield Proofs.ParseDeclYield.
Import ListNotations.

(* inserting / removing / moving ordinary comments, blanks and line feeds never changes the
   tokens the parser core consumes *)
Theorem C09_pump_strip :
  forall (K A : Type) (ts ts' : list (tok K A)), decorate ts ts' -> significant ts' = significant ts.
Proof. exact (@pump_strip). Qed.

(* ... nor the annotation comments (scope / ignore / plugin annotations, #FASTLY macros) attached
   to each significant token, nor their line-feed flags *)
Theorem C09_annotations_stable :
  forall (K A : Type) (ts ts' : list (tok K A)), decorate ts ts' -> annotations ts' = annotations ts.
Proof. exact (@annotations_stable). Qed.

(* hence every parser core that is a function of the significant tokens, and every linter /
   interpreter that is a function of those and the annotations, is inert.  That the real parser,
   linter and interpreter ARE such functions is what the audited String sites and the
   differential oracle of checks/c09.py establish. *)
Theorem C09_parse_core_inert :
  forall (K A R : Type) (parse_core : list K -> R) (ts ts' : list (tok K A)),
    decorate ts ts' -> parse_core (significant ts') = parse_core (significant ts).
Proof. exact (@parse_core_inert). Qed.

Theorem C09_lint_core_inert :
  forall (K A R : Type) (lint_core : list K -> list (list (A * bool)) -> R) (ts ts' : list (tok K A)),
    decorate ts ts' ->
    lint_core (significant ts') (annotations ts') = lint_core (significant ts) (annotations ts).
Proof. exact (@lint_core_inert). Qed.

(* a decision on rendered text (State(ReturnExpression.String()), Right.String() of case labels
   before the repairs) is not inert *)
Theorem C09_rendered_text_refuted :
  exists ts ts' : list (tok N N), decorate ts ts' /\ rendered ts' <> rendered ts.
Proof. exact rendered_text_refuted. Qed.

(* the side condition on line feeds in [decorate] is needed *)
Theorem C09_lf_before_annotation_refuted :
  exists t1 t2 : list (tok N N), annotations (t1 ++ LF :: t2) <> annotations (t1 ++ t2).
Proof. exact lf_before_annotation_refuted. Qed.

(* T tie: the call sites that render an ast.Node outside error messages, regenerated from the
   sources with go/types, are exactly the audited ones.  A new site breaks this by name. *)
Theorem C09_string_sites_audited : sites = map fst audited_sites.
Proof. reflexivity. Qed.

(* ---- over the REAL pump model (Model/Pump.v, builder lex: Parser.ReadPeek over the lexer model's tokens)
   and the REAL parser model (Model/Parse*.v, builder parse) ---- *)

(* Model/Pump.v refines Model/Decor.v on every PRAGMA-free token stream: what pump_all hands on
   ((type, literal) of the significant tokens; annotation comments with their line-feed flags)
   is Decor.pump of the token-wise abstraction [absS] (LF -> LF, COMMENT -> Cmt / Ann, FASTLY_CONTROL ->
   Blank, anything else -> Sig (type, literal); positions dropped; the stream is read up to its first EOF) *)
Theorem C09_pump_refines_decor :
  forall (is_ann : str -> bool) (e : token), is_eof e = true ->
  forall ts n, no_pragma ts -> (S (List.length ts) <= n)%nat ->
  exists ms, pump_all n e ts = OK ms /\
             significant_real ms = significant (absS is_ann e ts) /\
             annotations_real is_ann ms = annotations (absS is_ann e ts).
Proof. exact pump_refines_decor. Qed.

Theorem C09_pump_strip_real :
  forall (is_ann : str -> bool) e e' ts ts' n n',
  is_eof e = true -> is_eof e' = true ->
  no_pragma ts -> no_pragma ts' -> (S (List.length ts) <= n)%nat -> (S (List.length ts') <= n')%nat ->
  decorate (absS is_ann e ts) (absS is_ann e' ts') ->
  exists ms ms', pump_all n e ts = OK ms /\ pump_all n' e' ts' = OK ms' /\
                 significant_real ms' = significant_real ms /\
                 annotations_real is_ann ms' = annotations_real is_ann ms.
Proof. exact pump_strip_real. Qed.

(* the parser model on the pumped tokens ([to_ptoks]: any projection of (type, literal) to the parser
   model's tokens; [fok]: the parser model's float oracle) returns the same result, error included *)
Theorem C09_parse_inert_real :
  forall (tok_of : str * str -> ParseBase.token) (fok : ParseBase.str -> bool)
         (is_ann : str -> bool) e e' ts ts' n n',
  is_eof e = true -> is_eof e' = true ->
  no_pragma ts -> no_pragma ts' -> (S (List.length ts) <= n)%nat -> (S (List.length ts') <= n')%nat ->
  decorate (absS is_ann e ts) (absS is_ann e' ts') ->
  exists ms ms', pump_all n e ts = OK ms /\ pump_all n' e' ts' = OK ms' /\
     ParseDecl.parse_vcl fok (to_ptoks tok_of ms') = ParseDecl.parse_vcl fok (to_ptoks tok_of ms) /\
     ParseDecl.parse_vcl_or_snippet fok (to_ptoks tok_of ms') = ParseDecl.parse_vcl_or_snippet fok (to_ptoks tok_of ms).
Proof. exact parse_inert_real. Qed.

(* parse-level inertness composed with C02's parse_yield, for EVERY program the parser model accepts: the tree
   built from the decorated stream is the tree of the stripped stream, and its tokens (every declaration,
   statement and expression once, in source order) are exactly the significant tokens of the DECORATED
   stream - no comment, line feed or blank is part of the tree.  [body] = pumped tokens before the final EOF. *)
Theorem C09_decorated_parse_yield :
  forall (tok_of : str * str -> ParseBase.token) (fok : ParseBase.str -> bool)
         (is_ann : str -> bool) e e' ts ts' n n',
  is_eof e = true -> is_eof e' = true ->
  no_pragma ts -> no_pragma ts' -> (S (List.length ts) <= n)%nat -> (S (List.length ts') <= n')%nat ->
  decorate (absS is_ann e ts) (absS is_ann e' ts') ->
  exists ms ms', pump_all n e ts = OK ms /\ pump_all n' e' ts' = OK ms' /\
    ParseDecl.parse_vcl fok (body tok_of ms') = ParseDecl.parse_vcl fok (body tok_of ms) /\
    forall v, ParseDecl.parse_vcl fok (body tok_of ms) = ParseBase.POK v ->
              ParseDeclYield.no_eof (body tok_of ms) = true ->
              ParseDecl.parse_vcl fok (body tok_of ms') = ParseBase.POK v /\
              body tok_of ms' = flat_map Yield.ystmt (Ast.vstmts v).
Proof. exact decorated_parse_yield. Qed.

(* inserting a real ordinary COMMENT token anywhere before the end of a real stream is a decoration *)
Theorem C09_real_insert_comment :
  forall (is_ann : str -> bool) e t1 t2 c,
  Forall (fun t => is_eof t = false) t1 -> is_type T_COMMENT c = true -> is_ann (tlit c) = false ->
  decorate (absS is_ann e (t1 ++ t2)) (absS is_ann e (t1 ++ c :: t2)).
Proof. exact real_insert_comment. Qed.

(* T tie: the reads of comment / layout / position carrying fields in linter/ and interpreter/, regenerated with
   go/types, are exactly the audited ones; each belongs to a documented consumer (positions only where a position
   is reported; comments only by the ignore / annotation / macro / mark readers); no pure layout field
   (PreviousEmptyLines, PrefixedLineFeed, Nest, EndLine, EndPosition, Offset) is read at all *)
Theorem C09_meta_reads_audited :
  meta_reads = map fst audited_reads /\
  forallb consistent_read audited_reads = true /\
  existsb reads_layout meta_reads = false.
Proof. split; [reflexivity | split; reflexivity]. Qed.

Print Assumptions C09_meta_reads_audited.
Print Assumptions C09_pump_refines_decor.
Print Assumptions C09_pump_strip_real.
Print Assumptions C09_parse_inert_real.
Print Assumptions C09_decorated_parse_yield.
Print Assumptions C09_real_insert_comment.
Print Assumptions C09_pump_strip.
Print Assumptions C09_annotations_stable.
Print Assumptions C09_parse_core_inert.
Print Assumptions C09_lint_core_inert.
Print Assumptions C09_rendered_text_refuted.
Print Assumptions C09_lf_before_annotation_refuted.
Print Assumptions C09_string_sites_audited.
