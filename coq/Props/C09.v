(* C09 - Comments and layout never change what a program means.
   Only the property theorems (closed by [exact]) and their Print Assumptions.
   Model/Decor.v: token streams with ordinary comments, annotation comments, line feeds and
   blanks; [decorate]; what parser.ReadPeek hands on ([significant], [annotations]).
   Model/DecorSites.v: the audited list of sites that render a node to text. *)
From Coq Require Import List NArith String.
From Falco Require Import Gen.StringSites Model.Decor Model.DecorSites Proofs.DecorProofs.
Import ListNotations.

(* inserting / removing / moving ordinary comments, blanks and line feeds never changes the
   tokens the parser core consumes *)
Theorem C09_pump_strip :
  forall ts ts', decorate ts ts' -> significant ts' = significant ts.
Proof. exact pump_strip. Qed.

(* ... nor the annotation comments (scope / ignore / plugin annotations, #FASTLY macros) attached
   to each significant token, nor their line-feed flags *)
Theorem C09_annotations_stable :
  forall ts ts', decorate ts ts' -> annotations ts' = annotations ts.
Proof. exact annotations_stable. Qed.

(* hence every parser core that is a function of the significant tokens, and every linter /
   interpreter that is a function of those and the annotations, is inert.  That the real parser,
   linter and interpreter ARE such functions is what the audited String sites and the
   differential oracle of checks/c09.py establish. *)
Theorem C09_parse_core_inert :
  forall (R : Type) (parse_core : list N -> R) ts ts',
    decorate ts ts' -> parse_core (significant ts') = parse_core (significant ts).
Proof. exact parse_core_inert. Qed.

Theorem C09_lint_core_inert :
  forall (R : Type) (lint_core : list N -> list (list (N * bool)) -> R) ts ts',
    decorate ts ts' ->
    lint_core (significant ts') (annotations ts') = lint_core (significant ts) (annotations ts).
Proof. exact lint_core_inert. Qed.

(* a decision on rendered text (State(ReturnExpression.String()), Right.String() of case labels
   before the repairs) is not inert *)
Theorem C09_rendered_text_refuted :
  exists ts ts', decorate ts ts' /\ rendered ts' <> rendered ts.
Proof. exact rendered_text_refuted. Qed.

(* the side condition on line feeds in [decorate] is needed *)
Theorem C09_lf_before_annotation_refuted :
  exists t1 t2, annotations (t1 ++ LF :: t2) <> annotations (t1 ++ t2).
Proof. exact lf_before_annotation_refuted. Qed.

(* T tie: the call sites that render an ast.Node outside error messages, regenerated from the
   sources with go/types, are exactly the audited ones.  A new site breaks this by name. *)
Theorem C09_string_sites_audited : sites = map fst audited_sites.
Proof. reflexivity. Qed.

Print Assumptions C09_pump_strip.
Print Assumptions C09_annotations_stable.
Print Assumptions C09_parse_core_inert.
Print Assumptions C09_lint_core_inert.
Print Assumptions C09_rendered_text_refuted.
Print Assumptions C09_lf_before_annotation_refuted.
Print Assumptions C09_string_sites_audited.
