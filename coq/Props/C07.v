(* C07 - Expressions and assignments compute what VCL semantics prescribe.
   Only the property theorems (closed by [exact]) and their Print Assumptions; models are
   Model/Acl.v, Model/Val.v, Model/Assign.v, Model/Oper.v, proofs are in Proofs/. *)
From Coq Require Import List NArith ZArith Bool Permutation.
From Falco Require Import Base.Res Model.Acl Proofs.AclProofs.
Import ListNotations.

(* ---------------------------------------------------------------- ACL *)

(* The (repaired) one-pass algorithm of operator.matchesAcl computes the documented meaning,
   for every ACL (any length, IPv4 and IPv6 entries mixed, any masks incl. unparsable ones,
   duplicates, nesting) and every address. *)
Theorem C07_acl_impl_eq_spec : forall (l : acl) (ip : addr), impl_match l ip = spec_match l ip.
Proof. exact acl_impl_eq_spec. Qed.

(* ... where the documented meaning is: some entry contains the address, has maximal prefix
   length among those that do, and no containing entry of that length is negated. *)
Theorem C07_acl_spec_meaning : forall (l : acl) (ip : addr), forallb valid l = true ->
  (spec_match l ip = OK true <-> spec_matches l ip).
Proof. exact spec_match_meaning. Qed.

Theorem C07_acl_perm_invariant : forall (l l' : acl) (ip : addr),
  Permutation l l' -> impl_match l ip = impl_match l' ip.
Proof. exact acl_perm_invariant. Qed.

(* an entry without a mask is exactly one host, /32 or /128 according to its family *)
Theorem C07_acl_host_default : forall (e : entry) (ip : addr), emask e = None ->
  (contains e ip = true <-> ip = eaddr e) /\ plen e = width (afam (eaddr e)).
Proof. exact acl_host_default. Qed.

(* the algorithm of the unchanged tree (fixed, see known_findings.txt) did not have this meaning *)
Theorem C07_acl_old_refuted :
  (exists l ip, forallb valid l = true /\ old_match l ip = OK true /\ spec_match l ip = OK false) /\
  (exists l ip, forallb valid l = true /\ In (mkEntry true (mkAddr V4 167837696%N) (Some 16%Z)) l /\
     contains (mkEntry true (mkAddr V4 167837696%N) (Some 16%Z)) ip = true /\
     old_match l ip = OK true /\ spec_match l ip = OK false) /\
  (exists l ip, forallb valid l = true /\ afam ip = V6 /\ old_match l ip = OK true /\ spec_match l ip = OK false).
Proof. exact old_match_refuted. Qed.

Print Assumptions C07_acl_impl_eq_spec.
Print Assumptions C07_acl_spec_meaning.
Print Assumptions C07_acl_perm_invariant.
Print Assumptions C07_acl_host_default.
Print Assumptions C07_acl_old_refuted.
