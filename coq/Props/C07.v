(* C07 - Expressions and assignments compute what VCL semantics prescribe.
   Only the property theorems (closed by [exact]) and their Print Assumptions; models are
   Model/Acl.v, Model/Float.v, Model/Val.v, Model/Assign.v, Model/Oper.v, proofs are in
   Proofs/AclProofs.v, EvalLaws.v, EvalBits.v.
   Control flow (if / else if / else, switch) and the concatenation series of expression.go are
   covered by the theorems at the end of this file, over Model/Eval.v and Model/Concat.v, which are
   tied to the interpreter by the evalprog / evalseries correspondence runs (checks/c07.py). *)
From Coq Require Import List NArith ZArith Bool Permutation Floats.SpecFloat.
From Falco Require Import Base.Res Base.Bytes Model.Float Model.Acl Model.Val Model.Assign Model.Oper
  Model.Concat Model.Eval Proofs.AclProofs Proofs.EvalLaws Proofs.EvalBits Proofs.ConcatProofs Proofs.EvalFlow Model.ReGroup Proofs.ReGroupProofs Proofs.FmtProofs Proofs.AssignTableProofs Proofs.TimeFmtProofs.
Import ListNotations.
Local Open Scope Z_scope.

(* ---------------------------------------------------------------- ACL *)

(* The (repaired) one-pass algorithm of operator.matchesAcl computes the documented meaning,
   for every ACL (any length, IPv4 and IPv6 entries mixed, any masks incl. unparsable ones,
   duplicates, nesting) and every address. *)
Theorem C07_acl_impl_eq_spec : forall (l : acl) (ip : addr), impl_match l ip = spec_match l ip.
Proof. exact acl_impl_eq_spec. Qed.

(* ... where the documented meaning is: some entry contains the address, has maximal prefix
   length among those that do, and no containing entry of that length is negated. *)
Theorem C07_acl_spec_meaning : forall (l : acl) (ip : addr), forallb valid l = true ->
  (spec_match l ip = OK true <-> spec_matches l ip).
Proof. exact spec_match_meaning. Qed.

Theorem C07_acl_perm_invariant : forall (l l' : acl) (ip : addr),
  Permutation l l' -> impl_match l ip = impl_match l' ip.
Proof. exact acl_perm_invariant. Qed.

(* an entry without a mask is exactly one host, /32 or /128 according to its family *)
Theorem C07_acl_host_default : forall (e : entry) (ip : addr), emask e = None ->
  (contains e ip = true <-> ip = eaddr e) /\ plen e = width (afam (eaddr e)).
Proof. exact acl_host_default. Qed.

(* the algorithm of the unchanged tree (fixed, see known_findings.txt) did not have this meaning *)
Theorem C07_acl_old_refuted :
  (exists l ip, forallb valid l = true /\ old_match l ip = OK true /\ spec_match l ip = OK false) /\
  (exists l ip, forallb valid l = true /\ In (mkEntry true (mkAddr V4 167837696%N) (Some 16%Z)) l /\
     contains (mkEntry true (mkAddr V4 167837696%N) (Some 16%Z)) ip = true /\
     old_match l ip = OK true /\ spec_match l ip = OK false) /\
  (exists l ip, forallb valid l = true /\ afam ip = V6 /\ old_match l ip = OK true /\ spec_match l ip = OK false).
Proof. exact old_match_refuted. Qed.

(* ---------------------------------------------------------------- duality of the comparison operators *)

(* a < b exactly when b > a, a <= b exactly when b >= a - for all values (INTEGER with its NaN
   flag, FLOAT incl. NaN / infinities, RTIME, TIME, mixed INTEGER/FLOAT/RTIME pairs, literal or
   variable) for which both comparisons are defined *)
Theorem C07_lt_gt : forall a b x y, compare_op CLt a b = OK x -> compare_op CGt b a = OK y -> x = y.
Proof. exact lt_gt. Qed.

Theorem C07_le_ge : forall a b x y, compare_op CLe a b = OK x -> compare_op CGe b a = OK y -> x = y.
Proof. exact le_ge. Qed.

Theorem C07_ne_not_eq : forall parse_ip l r b, equal parse_ip l r = OK b -> not_equal parse_ip l r = OK (negb b).
Proof. exact ne_not_eq_val. Qed.

Theorem C07_nmatch_not_match : forall parse_ip re_match l r b,
  regex parse_ip re_match l r = OK b -> not_regex parse_ip re_match l r = OK (negb b).
Proof. exact nmatch_not_match. Qed.

(* ---------------------------------------------------------------- not-set strings *)

Theorem C07_notset_falsy : forall s, truthy (mkOp (VStr s true) false) = OK false.
Proof. exact notset_falsy. Qed.

Theorem C07_notset_equals_nothing : forall parse_ip s o b,
  (equal parse_ip (mkOp (VStr s true) false) o = OK b -> b = false) /\
  (parse_ip s = None -> equal parse_ip o (mkOp (VStr s true) false) = OK b -> b = false).
Proof. exact notset_equals_nothing. Qed.

Theorem C07_notset_reads_empty_after_local_assign : forall parse_ip s0 ns0 lit,
  local_set parse_ip OpSet (VStr s0 ns0) (mkOp (VStr [] true) lit) = AOk (VStr [] false).
Proof. exact notset_reads_empty_after_local_assign. Qed.

(* ---------------------------------------------------------------- INTEGER and RTIME arithmetic within range *)

Theorem C07_add_in_range : forall parse_ip a n ni pi b bn lit, in64 (a + b) = true ->
  assign parse_ip OpAdd (VInt a n ni pi) (rint b bn lit) = AOk (VInt (a + b) n ni pi).
Proof. exact add_in_range. Qed.

Theorem C07_sub_in_range : forall parse_ip a n ni pi b bn lit, in64 (a - b) = true ->
  assign parse_ip OpSub (VInt a n ni pi) (rint b bn lit) = AOk (VInt (a - b) n ni pi).
Proof. exact sub_in_range. Qed.

Theorem C07_mul_in_range : forall parse_ip a n ni pi b bn lit, in64 (a * b) = true ->
  assign parse_ip OpMul (VInt a n ni pi) (rint b bn lit) = AOk (VInt (a * b) n ni pi).
Proof. exact mul_in_range. Qed.

Theorem C07_div_in_range : forall parse_ip a n ni pi b bn lit, b <> 0 -> in64 (Z.quot a b) = true ->
  assign parse_ip OpDiv (VInt a n ni pi) (rint b bn lit) = AOk (VInt (Z.quot a b) n ni pi).
Proof. exact div_in_range. Qed.

Theorem C07_div_by_zero : forall parse_ip a n ni pi bn lit,
  assign parse_ip OpDiv (VInt a n ni pi) (rint 0 bn lit) = AErr (VInt a true ni pi).
Proof. exact div_by_zero. Qed.

Theorem C07_rem_spec : forall parse_ip a n b bn lit, b <> 0 ->
  assign parse_ip OpRem (VInt a n false false) (rint b bn lit) = AOk (VInt (Z.rem a b) n false false).
Proof. exact rem_spec. Qed.

Theorem C07_rtime_add_in_range : forall parse_ip a b lit, in64 (a + b) = true ->
  assign parse_ip OpAdd (VRTime a) (mkOp (VRTime b) lit) = AOk (VRTime (a + b)).
Proof. exact rtime_add_in_range. Qed.

Theorem C07_rtime_sub_in_range : forall parse_ip a b lit, in64 (a - b) = true ->
  assign parse_ip OpSub (VRTime a) (mkOp (VRTime b) lit) = AOk (VRTime (a - b)).
Proof. exact rtime_sub_in_range. Qed.

Theorem C07_rtime_add_seconds_in_range : forall parse_ip a s sn, in64 (s * Second) = true -> in64 (a + s * Second) = true ->
  assign parse_ip OpAdd (VRTime a) (rint s sn false) = AOk (VRTime (a + s * Second)).
Proof. exact rtime_add_seconds_in_range. Qed.

Theorem C07_rtime_set_seconds_in_range : forall parse_ip a s sn, in64 (s * Second) = true ->
  assign parse_ip OpSet (VRTime a) (rint s sn false) = AOk (VRTime (s * Second)).
Proof. exact rtime_set_seconds_in_range. Qed.

Theorem C07_rtime_mul_in_range : forall parse_ip a k kn lit, in64 (a * k) = true ->
  assign parse_ip OpMul (VRTime a) (rint k kn lit) = AOk (VRTime (a * k)).
Proof. exact rtime_mul_in_range. Qed.

Theorem C07_rtime_div_in_range : forall parse_ip a k kn lit, k <> 0 -> in64 (Z.quot a k) = true ->
  assign parse_ip OpDiv (VRTime a) (rint k kn lit) = AOk (VRTime (Z.quot a k)).
Proof. exact rtime_div_in_range. Qed.

(* KNOWN FINDING: a FLOAT assigned to an RTIME is taken as nanoseconds (1.5 -> 0.000), where
   1.5 seconds = 1500000000 ns is documented *)
Theorem C07_rtime_set_float_refuted :
  assign (fun _ => None) OpSet (VRTime 0) (mkOp (VFloat f_1_5 false false false) false) = AOk (VRTime 1) /\
  f_to_int (fmul f_1_5 (f_of_int Second)) = 1500000000 /\
  rtime_string 1 = map (fun c => n2b (Z.to_N c)) [48; 46; 48; 48; 48].
Proof. exact rtime_set_float_refuted. Qed.

(* ---------------------------------------------------------------- bitwise, shift, rotate *)

Theorem C07_or_spec : forall parse_ip a n ni pi b bn lit,
  assign parse_ip OpOr (VInt a n ni pi) (rint b bn lit) = AOk (VInt (Z.lor a b) n ni pi).
Proof. exact or_spec. Qed.
Theorem C07_and_spec : forall parse_ip a n ni pi b bn lit,
  assign parse_ip OpAnd (VInt a n ni pi) (rint b bn lit) = AOk (VInt (Z.land a b) n ni pi).
Proof. exact and_spec. Qed.
Theorem C07_xor_spec : forall parse_ip a n ni pi b bn lit,
  assign parse_ip OpXor (VInt a n ni pi) (rint b bn lit) = AOk (VInt (Z.lxor a b) n ni pi).
Proof. exact xor_spec. Qed.

(* ... and the results are again 64-bit integers *)
Theorem C07_bitwise_in64 : forall a b, in64 a = true -> in64 b = true ->
  in64 (Z.lor a b) = true /\ in64 (Z.land a b) = true /\ in64 (Z.lxor a b) = true.
Proof. exact bitwise_in64. Qed.

Theorem C07_shl_in_range : forall parse_ip a n ni pi k kn lit, 0 <= k -> in64 (Z.shiftl a k) = true ->
  assign parse_ip OpShl (VInt a n ni pi) (rint k kn lit) = AOk (VInt (Z.shiftl a k) n ni pi).
Proof. exact shl_in_range. Qed.

Theorem C07_shr_spec : forall parse_ip a n ni pi k kn lit, 0 <= k -> in64 a = true ->
  assign parse_ip OpShr (VInt a n ni pi) (rint k kn lit) = AOk (VInt (Z.shiftr a k) n ni pi).
Proof. exact shr_spec. Qed.

Theorem C07_shift_negative_count : forall parse_ip a n ni pi k kn lit, k < 0 ->
  assign parse_ip OpShl (VInt a n ni pi) (rint k kn lit) = AErr (VInt a n ni pi) /\
  assign parse_ip OpShr (VInt a n ni pi) (rint k kn lit) = AErr (VInt a n ni pi) /\
  assign parse_ip OpRol (VInt a n ni pi) (rint k kn lit) = AErr (VInt a n ni pi) /\
  assign parse_ip OpRor (VInt a n ni pi) (rint k kn lit) = AErr (VInt a n ni pi).
Proof. exact shift_negative_count. Qed.

(* 64-bit rotation, the count taken modulo 64: bit i of the result is bit (i -/+ k) mod 64 *)
Theorem C07_rol_spec : forall parse_ip a n ni pi k kn lit, 0 <= k ->
  exists v, assign parse_ip OpRol (VInt a n ni pi) (rint k kn lit) = AOk (VInt v n ni pi) /\
            in64 v = true /\
            forall i, 0 <= i < 64 -> Z.testbit v i = Z.testbit a ((i - k) mod 64).
Proof. exact rol_spec. Qed.

Theorem C07_ror_spec : forall parse_ip a n ni pi k kn lit, 0 <= k ->
  exists v, assign parse_ip OpRor (VInt a n ni pi) (rint k kn lit) = AOk (VInt v n ni pi) /\
            in64 v = true /\
            forall i, 0 <= i < 64 -> Z.testbit v i = Z.testbit a ((i + k) mod 64).
Proof. exact ror_spec. Qed.

(* ---------------------------------------------------------------- string concatenation series *)

(* a series without TIME variables is the left fold of the binary Concat step from the empty string *)
Theorem C07_concat_assoc_left : forall local l, no_time l = true -> all_notset l = false ->
  concat_series local l =
  match fold_left (step local) l (OK []) with
  | OK s => OK (VStr s false)
  | Err => Err | Crash => Crash | OutOfFuel => OutOfFuel
  end.
Proof. exact concat_assoc_left. Qed.

Theorem C07_concat_step_is_binary : forall local rv x,
  step local (OK rv) x =
  match conv local x with
  | OK o => concat (mkOp (VStr rv false) false) o
  | Err => Err | Crash => Crash | OutOfFuel => OutOfFuel
  end.
Proof. exact step_is_binary_concat. Qed.

(* TIME variable followed by an RTIME literal: one operand, the shifted time *)
Theorem C07_time_calculation_step : forall local prev x nx rest rv ext nsec oob d,
  sit x = CVar (VTime ext nsec oob) -> sit nx = CRTimeLit d ->
  loop local prev (x :: nx :: rest) rv =
  loop local (Some (sit nx)) rest
       (rv ++ http_time (fst (time_add ext nsec (match sop nx with SMinus => wrap64 (- d) | _ => d end)))).
Proof. exact time_calculation_step. Qed.

Theorem C07_concat_conversion_spec : forall local s,
  (forall v nan ninf pinf, concat_series local [lit s; var (VInt v nan ninf pinf)]
                           = OK (VStr (s ++ int_string v nan ninf pinf) false)) /\
  (forall f nan ninf pinf, concat_series local [lit s; var (VFloat f nan ninf pinf)]
                           = OK (VStr (s ++ float_string f nan ninf pinf) false)) /\
  (forall b, concat_series local [lit s; var (VBool b)] = OK (VStr (s ++ bool_string b) false)) /\
  (forall ns, concat_series local [lit s; var (VRTime ns)] = OK (VStr (s ++ rtime_string ns) false)) /\
  (forall t, concat_series local [lit s; var (VStr t false)] = OK (VStr (s ++ t) false)) /\
  (forall a, concat_series local [lit s; var (VIp a false)] = OK (VStr (s ++ addr_string a) false)) /\
  (forall ext nsec, concat_series local [lit s; var (VTime ext nsec false)] = OK (VStr (s ++ http_time ext) false)) /\
  (forall n es, concat_series local [lit s; var (VAcl n es)] = Err).
Proof. exact concat_conversion_spec. Qed.

Theorem C07_conversion_texts :
  (forall v, int_string v false false false = dec_int v) /\
  (forall f, float_string f false false false = fmt3 f) /\
  (forall ns, rtime_string ns = fmt3 (fdiv (f_of_int (Z.quot ns 1000000)) (f_of_int 1000))) /\
  bool_string true = [Byte.x31] /\ bool_string false = [Byte.x30].
Proof. exact conversion_texts. Qed.

Theorem C07_notset_in_concat :
  (forall s t, concat_series true [lit s; var (VStr t true)] = OK (VStr s false)) /\
  (forall s a, concat_series true [lit s; var (VIp a true)] = OK (VStr s false)) /\
  (forall s t, concat_series false [lit s; var (VStr t true)] = OK (VStr (s ++ s_null) false)) /\
  (forall s a, concat_series false [lit s; var (VIp a true)] = OK (VStr (s ++ s_null) false)) /\
  (forall local l, all_notset l = true -> concat_series local l = OK (VStr [] true)).
Proof. exact notset_in_concat. Qed.

(* ---------------------------------------------------------------- control flow (every program, store, oracle) *)

Theorem C07_if_selects_first_true : forall parse_ip re_match c0 t0 elifs e s pre c b post,
  (c0, t0) :: elifs = pre ++ (c, b) :: post ->
  Forall (fun cb => cond_is parse_ip re_match s (fst cb) false) pre ->
  cond_is parse_ip re_match s c true ->
  exec_stmt parse_ip re_match (PIf c0 t0 elifs e) s = exec_block parse_ip re_match b s.
Proof. exact if_selects_first_true. Qed.

Theorem C07_if_else_when_all_false : forall parse_ip re_match c0 t0 elifs e s,
  Forall (fun cb => cond_is parse_ip re_match s (fst cb) false) ((c0, t0) :: elifs) ->
  exec_stmt parse_ip re_match (PIf c0 t0 elifs e) s =
  match e with Some b => exec_block parse_ip re_match b s | None => Done s end.
Proof. exact if_else_when_all_false. Qed.

Theorem C07_if_condition_error : forall parse_ip re_match c0 t0 elifs e s pre c b post,
  (c0, t0) :: elifs = pre ++ (c, b) :: post ->
  Forall (fun cb => cond_is parse_ip re_match s (fst cb) false) pre ->
  (eval_cexp parse_ip re_match s c = Err \/ exists o, eval_cexp parse_ip re_match s c = OK o /\ truth o = Err) ->
  exec_stmt parse_ip re_match (PIf c0 t0 elifs e) s = Failed s.
Proof. exact if_condition_error. Qed.

Theorem C07_switch_selects_first_match : forall parse_ip re_match ctl dflt s o pre t body ft post,
  eval_rexp s ctl = OK o ->
  Forall (fun c => sw_test parse_ip re_match (control_of o) (case_test c) = OK false) pre ->
  sw_test parse_ip re_match (control_of o) t = OK true ->
  exec_stmt parse_ip re_match (PSwitch ctl (pre ++ (t, body, ft) :: post) dflt) s
  = sw_run parse_ip re_match ((t, body, ft) :: post) s.
Proof. exact switch_selects_first_match. Qed.

Theorem C07_switch_fallthrough_step : forall parse_ip re_match t body ft rest s,
  sw_run parse_ip re_match ((t, body, ft) :: rest) s =
  match exec_block parse_ip re_match body s with
  | Done s' => if ft then sw_run parse_ip re_match rest s' else Done s'
  | o => o
  end.
Proof. exact switch_fallthrough_step. Qed.

Theorem C07_switch_fallthrough_spec : forall parse_ip re_match chain tl bl rest s,
  Forall (fun c => snd c = true) chain ->
  sw_run parse_ip re_match (chain ++ (tl, bl, false) :: rest) s
  = exec_block parse_ip re_match (flat_map (fun c => snd (fst c)) chain ++ bl) s.
Proof. exact switch_fallthrough_spec. Qed.

Theorem C07_switch_default_spec : forall parse_ip re_match ctl cases dflt s o,
  eval_rexp s ctl = OK o ->
  Forall (fun c => sw_test parse_ip re_match (control_of o) (case_test c) = OK false) cases ->
  exec_stmt parse_ip re_match (PSwitch ctl cases dflt) s =
  match dflt with
  | Some d => if (d <? length cases)%nat then sw_run parse_ip re_match (skipn d cases) s else Done s
  | None => Done s
  end.
Proof. exact switch_default_spec. Qed.

(* ---------------------------------------------------------------- round 5: text conversions, re.group, regenerated admissibility *)

(* T tie: for all 15 x 9 x 9 (operator, left type, right type) cells the model admits a variable operand exactly when
   interpreter/assign/*.go has a case for the pair, and refuses a literal exactly when that case starts with the
   right.IsLiteral() guard (Gen/AssignTable.v is regenerated from the Go type switches on every run) *)
Theorem C07_assign_admissibility_regenerated : all_cells_ok = true.
Proof. exact assign_admissibility_regenerated. Qed.

(* INTEGER -> STRING: the decimal digits denote the number *)
Theorem C07_dec_nat_value : forall n, 0 <= n -> dv (dec_nat n) = n.
Proof. exact dec_nat_value. Qed.

(* FLOAT / RTIME -> STRING: the three decimals are the nearest thousandth of the exact binary value, ties to even *)
Theorem C07_milli_rounds_half_even : forall m e, e < 0 ->
  let n := Z.pos m * 1000 in
  let d := 2 ^ (- e) in
  let q := milli m e in
  2 * Z.abs (q * d - n) <= d /\ (2 * Z.abs (q * d - n) = d -> Z.even q = true).
Proof. exact milli_rounds_half_even. Qed.

Theorem C07_fmt3_specials :
  fmt3 S754_nan = s_NaN /\ fmt3 (S754_infinity false) = s_pInf /\ fmt3 (S754_infinity true) = s_nInf /\
  fmt3 (S754_zero true) = minus_sign :: digit 0 :: dot :: [digit 0; digit 0; digit 0].
Proof. exact fmt3_specials. Qed.

(* re.group.N: a failing match keeps the groups, a successful one replaces all of them, a called subroutine starts
   without groups and cannot change its caller's *)
Theorem C07_regroup_kept_on_failure : forall g n, read (snd (trace_op g (RMatch None))) n = read g n.
Proof. exact regroup_kept_on_failure. Qed.

Theorem C07_regroup_replaced_on_success : forall g l n,
  read (snd (trace_op g (RMatch (Some l)))) n =
  match nth_error l n with Some s => VStr s false | None => VStr [] true end.
Proof. exact regroup_replaced_on_success. Qed.

Theorem C07_regroup_call_frame : forall g body, snd (trace_op g (RCall body)) = g.
Proof. exact regroup_call_frame. Qed.

Theorem C07_regroup_last_success_wins : forall g pre l post,
  Forall (fun o => match o with RMatch None => True | RCall _ => True | _ => False end) post ->
  final g (pre ++ RMatch (Some l) :: post) = l.
Proof. exact regroup_last_success_wins. Qed.

(* ---------------------------------------------------------------- final round: TIME / RTIME / IP renderings *)

(* TIME in string context: the calendar arithmetic of http_time is the proleptic Gregorian calendar for EVERY day number
   (one 400-year cycle enumerated completely, the rest by periodicity): month and day in range, and the civil date
   denotes the day *)
Theorem C07_civil_roundtrip : forall days,
  let '(y, m, d) := civil days in
  1 <= m <= 12 /\ 1 <= d <= days_in_month y m /\ days_from_civil y m d = days.
Proof. exact civil_roundtrip. Qed.

Theorem C07_time_of_day : forall ext, let secs := ext mod 86400 in
  0 <= secs / 3600 < 24 /\ 0 <= (secs / 60) mod 60 < 60 /\ 0 <= secs mod 60 < 60 /\
  secs / 3600 * 3600 + (secs / 60) mod 60 * 60 + secs mod 60 = secs /\ (ext / 86400) * 86400 + secs = ext /\
  0 <= (ext / 86400) mod 7 < 7.
Proof. exact time_of_day. Qed.

Theorem C07_http_time_shape : forall ext,
  http_time ext =
  let days := ext / 86400 in
  let secs := ext mod 86400 in
  let '(y, m, d) := civil days in
  nth (Z.to_nat (days mod 7)) day_names [] ++ ascii [44; 32] ++ pad_int 2 d ++ ascii [32] ++
  nth (Z.to_nat (m - 1)) month_names [] ++ ascii [32] ++ pad_int 4 y ++ ascii [32] ++
  pad_int 2 (secs / 3600) ++ colon :: pad_int 2 ((secs / 60) mod 60) ++ colon :: pad_int 2 (secs mod 60) ++
  ascii [32; 71; 77; 84].
Proof. exact http_time_shape. Qed.

(* RTIME in string context: whole milliseconds written exactly as seconds with three decimals (enumerated range
   -16.384 s .. 16.383 s); sub-millisecond parts are dropped *)
Theorem C07_rtime_three_decimals : forall ms, - 16384 <= ms < 16384 -> rtime_ok ms = true.
Proof. exact rtime_three_decimals. Qed.

Theorem C07_rtime_drops_submilliseconds : forall ns, rtime_string ns = rtime_string (Z.quot ns 1000000 * 1000000).
Proof. exact rtime_drops_submilliseconds. Qed.

(* IP in string context: the dotted quad prints the four octets of the address *)
Theorem C07_ip4_octets : forall b, 0 <= b < 2 ^ 32 ->
  ((b / 2 ^ 24) mod 256) * 2 ^ 24 + ((b / 2 ^ 16) mod 256) * 2 ^ 16 + ((b / 2 ^ 8) mod 256) * 2 ^ 8 + b mod 256 = b.
Proof. exact ip4_octets. Qed.

Theorem C07_ip4_string_shape : forall b,
  ip4_string b = dec_nat ((b / 2 ^ 24) mod 256) ++ dot :: dec_nat ((b / 2 ^ 16) mod 256) ++ dot ::
                 dec_nat ((b / 2 ^ 8) mod 256) ++ dot :: dec_nat (b mod 256).
Proof. exact ip4_string_shape. Qed.

Print Assumptions C07_acl_impl_eq_spec.
Print Assumptions C07_acl_spec_meaning.
Print Assumptions C07_acl_perm_invariant.
Print Assumptions C07_acl_host_default.
Print Assumptions C07_acl_old_refuted.
Print Assumptions C07_lt_gt.
Print Assumptions C07_le_ge.
Print Assumptions C07_ne_not_eq.
Print Assumptions C07_nmatch_not_match.
Print Assumptions C07_notset_falsy.
Print Assumptions C07_notset_equals_nothing.
Print Assumptions C07_notset_reads_empty_after_local_assign.
Print Assumptions C07_add_in_range.
Print Assumptions C07_sub_in_range.
Print Assumptions C07_mul_in_range.
Print Assumptions C07_div_in_range.
Print Assumptions C07_div_by_zero.
Print Assumptions C07_rem_spec.
Print Assumptions C07_rtime_add_in_range.
Print Assumptions C07_rtime_sub_in_range.
Print Assumptions C07_rtime_add_seconds_in_range.
Print Assumptions C07_rtime_set_seconds_in_range.
Print Assumptions C07_rtime_mul_in_range.
Print Assumptions C07_rtime_div_in_range.
Print Assumptions C07_rtime_set_float_refuted.
Print Assumptions C07_or_spec.
Print Assumptions C07_and_spec.
Print Assumptions C07_xor_spec.
Print Assumptions C07_bitwise_in64.
Print Assumptions C07_shl_in_range.
Print Assumptions C07_shr_spec.
Print Assumptions C07_shift_negative_count.
Print Assumptions C07_rol_spec.
Print Assumptions C07_ror_spec.
Print Assumptions C07_concat_assoc_left.
Print Assumptions C07_concat_step_is_binary.
Print Assumptions C07_time_calculation_step.
Print Assumptions C07_concat_conversion_spec.
Print Assumptions C07_conversion_texts.
Print Assumptions C07_notset_in_concat.
Print Assumptions C07_if_selects_first_true.
Print Assumptions C07_if_else_when_all_false.
Print Assumptions C07_if_condition_error.
Print Assumptions C07_switch_selects_first_match.
Print Assumptions C07_switch_fallthrough_step.
Print Assumptions C07_switch_fallthrough_spec.
Print Assumptions C07_switch_default_spec.
Print Assumptions C07_assign_admissibility_regenerated.
Print Assumptions C07_dec_nat_value.
Print Assumptions C07_milli_rounds_half_even.
Print Assumptions C07_fmt3_specials.
Print Assumptions C07_regroup_kept_on_failure.
Print Assumptions C07_regroup_replaced_on_success.
Print Assumptions C07_regroup_call_frame.
Print Assumptions C07_regroup_last_success_wins.
Print Assumptions C07_civil_roundtrip.
Print Assumptions C07_time_of_day.
Print Assumptions C07_http_time_shape.
Print Assumptions C07_rtime_three_decimals.
Print Assumptions C07_rtime_drops_submilliseconds.
Print Assumptions C07_ip4_octets.
Print Assumptions C07_ip4_string_shape.
