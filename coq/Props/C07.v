(* C07 - Expressions and assignments compute what VCL semantics prescribe.
   Only the property theorems (closed by [exact]) and their Print Assumptions; models are
   Model/Acl.v, Model/Float.v, Model/Val.v, Model/Assign.v, Model/Oper.v, proofs are in
   Proofs/AclProofs.v, EvalLaws.v, EvalBits.v.
   NOT covered by these theorems: whole-program control flow (if / else-if / else, switch with
   fallthrough) and the series logic of string concatenation in expression.go - they are exercised
   only by the correspondence run `implrun evalprog` (checks/c07.py, straight-line and branching
   programs against a python reference of the documented semantics), see notes/C07.md. *)
From Coq Require Import List NArith ZArith Bool Permutation Floats.SpecFloat.
From Falco Require Import Base.Res Base.Bytes Model.Float Model.Acl Model.Val Model.Assign Model.Oper
  Proofs.AclProofs Proofs.EvalLaws Proofs.EvalBits.
Import ListNotations.
Local Open Scope Z_scope.

(* ---------------------------------------------------------------- ACL *)

(* The (repaired) one-pass algorithm of operator.matchesAcl computes the documented meaning,
   for every ACL (any length, IPv4 and IPv6 entries mixed, any masks incl. unparsable ones,
   duplicates, nesting) and every address. *)
Theorem C07_acl_impl_eq_spec : forall (l : acl) (ip : addr), impl_match l ip = spec_match l ip.
Proof. exact acl_impl_eq_spec. Qed.

(* ... where the documented meaning is: some entry contains the address, has maximal prefix
   length among those that do, and no containing entry of that length is negated. *)
Theorem C07_acl_spec_meaning : forall (l : acl) (ip : addr), forallb valid l = true ->
  (spec_match l ip = OK true <-> spec_matches l ip).
Proof. exact spec_match_meaning. Qed.

Theorem C07_acl_perm_invariant : forall (l l' : acl) (ip : addr),
  Permutation l l' -> impl_match l ip = impl_match l' ip.
Proof. exact acl_perm_invariant. Qed.

(* an entry without a mask is exactly one host, /32 or /128 according to its family *)
Theorem C07_acl_host_default : forall (e : entry) (ip : addr), emask e = None ->
  (contains e ip = true <-> ip = eaddr e) /\ plen e = width (afam (eaddr e)).
Proof. exact acl_host_default. Qed.

(* the algorithm of the unchanged tree (fixed, see known_findings.txt) did not have this meaning *)
Theorem C07_acl_old_refuted :
  (exists l ip, forallb valid l = true /\ old_match l ip = OK true /\ spec_match l ip = OK false) /\
  (exists l ip, forallb valid l = true /\ In (mkEntry true (mkAddr V4 167837696%N) (Some 16%Z)) l /\
     contains (mkEntry true (mkAddr V4 167837696%N) (Some 16%Z)) ip = true /\
     old_match l ip = OK true /\ spec_match l ip = OK false) /\
  (exists l ip, forallb valid l = true /\ afam ip = V6 /\ old_match l ip = OK true /\ spec_match l ip = OK false).
Proof. exact old_match_refuted. Qed.

(* ---------------------------------------------------------------- duality of the comparison operators *)

(* a < b exactly when b > a, a <= b exactly when b >= a - for all values (INTEGER with its NaN
   flag, FLOAT incl. NaN / infinities, RTIME, TIME, mixed INTEGER/FLOAT/RTIME pairs, literal or
   variable) for which both comparisons are defined *)
Theorem C07_lt_gt : forall a b x y, compare_op CLt a b = OK x -> compare_op CGt b a = OK y -> x = y.
Proof. exact lt_gt. Qed.

Theorem C07_le_ge : forall a b x y, compare_op CLe a b = OK x -> compare_op CGe b a = OK y -> x = y.
Proof. exact le_ge. Qed.

Theorem C07_ne_not_eq : forall parse_ip l r b, equal parse_ip l r = OK b -> not_equal parse_ip l r = OK (negb b).
Proof. exact ne_not_eq_val. Qed.

Theorem C07_nmatch_not_match : forall parse_ip re_match l r b,
  regex parse_ip re_match l r = OK b -> not_regex parse_ip re_match l r = OK (negb b).
Proof. exact nmatch_not_match. Qed.

(* ---------------------------------------------------------------- not-set strings *)

Theorem C07_notset_falsy : forall s, truthy (mkOp (VStr s true) false) = OK false.
Proof. exact notset_falsy. Qed.

Theorem C07_notset_equals_nothing : forall parse_ip s o b,
  (equal parse_ip (mkOp (VStr s true) false) o = OK b -> b = false) /\
  (parse_ip s = None -> equal parse_ip o (mkOp (VStr s true) false) = OK b -> b = false).
Proof. exact notset_equals_nothing. Qed.

Theorem C07_notset_reads_empty_after_local_assign : forall parse_ip s0 ns0 lit,
  local_set parse_ip OpSet (VStr s0 ns0) (mkOp (VStr [] true) lit) = AOk (VStr [] false).
Proof. exact notset_reads_empty_after_local_assign. Qed.

(* ---------------------------------------------------------------- INTEGER and RTIME arithmetic within range *)

Theorem C07_add_in_range : forall parse_ip a n ni pi b bn lit, in64 (a + b) = true ->
  assign parse_ip OpAdd (VInt a n ni pi) (rint b bn lit) = AOk (VInt (a + b) n ni pi).
Proof. exact add_in_range. Qed.

Theorem C07_sub_in_range : forall parse_ip a n ni pi b bn lit, in64 (a - b) = true ->
  assign parse_ip OpSub (VInt a n ni pi) (rint b bn lit) = AOk (VInt (a - b) n ni pi).
Proof. exact sub_in_range. Qed.

Theorem C07_mul_in_range : forall parse_ip a n ni pi b bn lit, in64 (a * b) = true ->
  assign parse_ip OpMul (VInt a n ni pi) (rint b bn lit) = AOk (VInt (a * b) n ni pi).
Proof. exact mul_in_range. Qed.

Theorem C07_div_in_range : forall parse_ip a n ni pi b bn lit, b <> 0 -> in64 (Z.quot a b) = true ->
  assign parse_ip OpDiv (VInt a n ni pi) (rint b bn lit) = AOk (VInt (Z.quot a b) n ni pi).
Proof. exact div_in_range. Qed.

Theorem C07_div_by_zero : forall parse_ip a n ni pi bn lit,
  assign parse_ip OpDiv (VInt a n ni pi) (rint 0 bn lit) = AErr (VInt a true ni pi).
Proof. exact div_by_zero. Qed.

Theorem C07_rem_spec : forall parse_ip a n b bn lit, b <> 0 ->
  assign parse_ip OpRem (VInt a n false false) (rint b bn lit) = AOk (VInt (Z.rem a b) n false false).
Proof. exact rem_spec. Qed.

Theorem C07_rtime_add_in_range : forall parse_ip a b lit, in64 (a + b) = true ->
  assign parse_ip OpAdd (VRTime a) (mkOp (VRTime b) lit) = AOk (VRTime (a + b)).
Proof. exact rtime_add_in_range. Qed.

Theorem C07_rtime_sub_in_range : forall parse_ip a b lit, in64 (a - b) = true ->
  assign parse_ip OpSub (VRTime a) (mkOp (VRTime b) lit) = AOk (VRTime (a - b)).
Proof. exact rtime_sub_in_range. Qed.

Theorem C07_rtime_add_seconds_in_range : forall parse_ip a s sn, in64 (s * Second) = true -> in64 (a + s * Second) = true ->
  assign parse_ip OpAdd (VRTime a) (rint s sn false) = AOk (VRTime (a + s * Second)).
Proof. exact rtime_add_seconds_in_range. Qed.

Theorem C07_rtime_set_seconds_in_range : forall parse_ip a s sn, in64 (s * Second) = true ->
  assign parse_ip OpSet (VRTime a) (rint s sn false) = AOk (VRTime (s * Second)).
Proof. exact rtime_set_seconds_in_range. Qed.

Theorem C07_rtime_mul_in_range : forall parse_ip a k kn lit, in64 (a * k) = true ->
  assign parse_ip OpMul (VRTime a) (rint k kn lit) = AOk (VRTime (a * k)).
Proof. exact rtime_mul_in_range. Qed.

Theorem C07_rtime_div_in_range : forall parse_ip a k kn lit, k <> 0 -> in64 (Z.quot a k) = true ->
  assign parse_ip OpDiv (VRTime a) (rint k kn lit) = AOk (VRTime (Z.quot a k)).
Proof. exact rtime_div_in_range. Qed.

(* KNOWN FINDING: a FLOAT assigned to an RTIME is taken as nanoseconds (1.5 -> 0.000), where
   1.5 seconds = 1500000000 ns is documented *)
Theorem C07_rtime_set_float_refuted :
  assign (fun _ => None) OpSet (VRTime 0) (mkOp (VFloat f_1_5 false false false) false) = AOk (VRTime 1) /\
  f_to_int (fmul f_1_5 (f_of_int Second)) = 1500000000 /\
  rtime_string 1 = map (fun c => n2b (Z.to_N c)) [48; 46; 48; 48; 48].
Proof. exact rtime_set_float_refuted. Qed.

(* ---------------------------------------------------------------- bitwise, shift, rotate *)

Theorem C07_or_spec : forall parse_ip a n ni pi b bn lit,
  assign parse_ip OpOr (VInt a n ni pi) (rint b bn lit) = AOk (VInt (Z.lor a b) n ni pi).
Proof. exact or_spec. Qed.
Theorem C07_and_spec : forall parse_ip a n ni pi b bn lit,
  assign parse_ip OpAnd (VInt a n ni pi) (rint b bn lit) = AOk (VInt (Z.land a b) n ni pi).
Proof. exact and_spec. Qed.
Theorem C07_xor_spec : forall parse_ip a n ni pi b bn lit,
  assign parse_ip OpXor (VInt a n ni pi) (rint b bn lit) = AOk (VInt (Z.lxor a b) n ni pi).
Proof. exact xor_spec. Qed.

(* ... and the results are again 64-bit integers *)
Theorem C07_bitwise_in64 : forall a b, in64 a = true -> in64 b = true ->
  in64 (Z.lor a b) = true /\ in64 (Z.land a b) = true /\ in64 (Z.lxor a b) = true.
Proof. exact bitwise_in64. Qed.

Theorem C07_shl_in_range : forall parse_ip a n ni pi k kn lit, 0 <= k -> in64 (Z.shiftl a k) = true ->
  assign parse_ip OpShl (VInt a n ni pi) (rint k kn lit) = AOk (VInt (Z.shiftl a k) n ni pi).
Proof. exact shl_in_range. Qed.

Theorem C07_shr_spec : forall parse_ip a n ni pi k kn lit, 0 <= k -> in64 a = true ->
  assign parse_ip OpShr (VInt a n ni pi) (rint k kn lit) = AOk (VInt (Z.shiftr a k) n ni pi).
Proof. exact shr_spec. Qed.

Theorem C07_shift_negative_count : forall parse_ip a n ni pi k kn lit, k < 0 ->
  assign parse_ip OpShl (VInt a n ni pi) (rint k kn lit) = AErr (VInt a n ni pi) /\
  assign parse_ip OpShr (VInt a n ni pi) (rint k kn lit) = AErr (VInt a n ni pi) /\
  assign parse_ip OpRol (VInt a n ni pi) (rint k kn lit) = AErr (VInt a n ni pi) /\
  assign parse_ip OpRor (VInt a n ni pi) (rint k kn lit) = AErr (VInt a n ni pi).
Proof. exact shift_negative_count. Qed.

(* 64-bit rotation, the count taken modulo 64: bit i of the result is bit (i -/+ k) mod 64 *)
Theorem C07_rol_spec : forall parse_ip a n ni pi k kn lit, 0 <= k ->
  exists v, assign parse_ip OpRol (VInt a n ni pi) (rint k kn lit) = AOk (VInt v n ni pi) /\
            in64 v = true /\
            forall i, 0 <= i < 64 -> Z.testbit v i = Z.testbit a ((i - k) mod 64).
Proof. exact rol_spec. Qed.

Theorem C07_ror_spec : forall parse_ip a n ni pi k kn lit, 0 <= k ->
  exists v, assign parse_ip OpRor (VInt a n ni pi) (rint k kn lit) = AOk (VInt v n ni pi) /\
            in64 v = true /\
            forall i, 0 <= i < 64 -> Z.testbit v i = Z.testbit a ((i + k) mod 64).
Proof. exact ror_spec. Qed.

Print Assumptions C07_acl_impl_eq_spec.
Print Assumptions C07_acl_spec_meaning.
Print Assumptions C07_acl_perm_invariant.
Print Assumptions C07_acl_host_default.
Print Assumptions C07_acl_old_refuted.
Print Assumptions C07_lt_gt.
Print Assumptions C07_le_ge.
Print Assumptions C07_ne_not_eq.
Print Assumptions C07_nmatch_not_match.
Print Assumptions C07_notset_falsy.
Print Assumptions C07_notset_equals_nothing.
Print Assumptions C07_notset_reads_empty_after_local_assign.
Print Assumptions C07_add_in_range.
Print Assumptions C07_sub_in_range.
Print Assumptions C07_mul_in_range.
Print Assumptions C07_div_in_range.
Print Assumptions C07_div_by_zero.
Print Assumptions C07_rem_spec.
Print Assumptions C07_rtime_add_in_range.
Print Assumptions C07_rtime_sub_in_range.
Print Assumptions C07_rtime_add_seconds_in_range.
Print Assumptions C07_rtime_set_seconds_in_range.
Print Assumptions C07_rtime_mul_in_range.
Print Assumptions C07_rtime_div_in_range.
Print Assumptions C07_rtime_set_float_refuted.
Print Assumptions C07_or_spec.
Print Assumptions C07_and_spec.
Print Assumptions C07_xor_spec.
Print Assumptions C07_bitwise_in64.
Print Assumptions C07_shl_in_range.
Print Assumptions C07_shr_spec.
Print Assumptions C07_shift_negative_count.
Print Assumptions C07_rol_spec.
Print Assumptions C07_ror_spec.
