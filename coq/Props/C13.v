(* C13 - Evaluation changes only what it names.
   Only the property theorems (closed by [exact]) and their Print Assumptions; the model is
   Model/Store*.v (heap of cells, names -> cells, exactly the pointer structure of the
   interpreter), the proofs are in Proofs/Store*.v.

   All theorems are about the REPAIRED interpreter ([repaired]: unary minus negates a copy,
   a parameter is bound to a copy of its argument), for EVERY program, EVERY fuel, EVERY
   value-level meaning of the operators / built-ins / PCRE ([Os : ops]) and EVERY state that is
   well formed ([wf]: each name points into the heap, no two names share a cell) - which every
   state reachable from [init_state] is (C13_reachable_wf). *)
From Coq Require Import List NArith ZArith.
From Coq Require Strings.String.
Import Strings.String.StringSyntax.
Delimit Scope string_scope with string.
From Falco Require Import Base.Res Base.Bytes Model.StoreSyntax Model.Store Model.StoreOps
  Proofs.StoreHeap Proofs.StoreInv Proofs.StoreMain Proofs.StoreFrame Proofs.StoreWitness
  Gen.StoreEffects Gen.StoreWritable Model.StoreBuiltinNames Proofs.StoreEffectsTie.
Import ListNotations.

(* Evaluating an expression built from variables, literals, operators and side-effect-free
   (built-in) functions changes no variable other than re.group.N. *)
Theorem C13_eval_frame :
  forall Os P n m e σ l σ',
    wf σ -> pure e = true -> eval repaired Os P n m e σ = OK (l, σ') ->
    forall x, is_group x = false -> read σ' x = read σ x.
Proof. exact eval_frame. Qed.

(* ... and with user-defined function calls inside, the caller's locals are still unchanged, and
   re.group.N too unless the expression itself contains a match. *)
Theorem C13_eval_frame_calls :
  forall Os P n m e σ l σ',
    wf σ -> eval repaired Os P n m e σ = OK (l, σ') ->
    (forall k, read σ' (NLocal k) = read σ (NLocal k)) /\
    (nomatch e = true -> forall j, read σ' (NGroup j) = read σ (NGroup j)).
Proof. exact eval_frame_calls. Qed.

(* `set T op= E` changes only T and the values derived from T: every other local, every other ctx
   variable, every header with a different (canonical) name - and its sub-fields - keeps its value.
   [independent x T]: x <> T when T is a local / ctx variable; when T is a header OR a sub-field
   `obj.http.Name:key`, x is not that header nor any of its sub-fields (a sub-field write rewrites
   the whole header value, of which every sub-field is a view). *)
Theorem C13_set_frame :
  forall Os P n fn T op e σ o σ',
    wf σ -> pure e = true -> exec repaired Os P n fn (SSet T op e) σ = OK (o, σ') ->
    forall x, independent x T -> is_group x = false -> read σ' x = read σ x.
Proof. exact set_frame. Qed.

(* spelled out for a sub-field target *)
Theorem C13_set_field_frame :
  forall Os P n fn ob h k op e σ o σ',
    wf σ -> pure e = true -> exec repaired Os P n fn (SSet (NField ob h k) op e) σ = OK (o, σ') ->
    (forall j, read σ' (NLocal j) = read σ (NLocal j)) /\
    (forall g, read σ' (NGlobal g) = read σ (NGlobal g)) /\
    (forall ob' h', (ob', h') <> (ob, h) ->
       read σ' (NHeader ob' h') = read σ (NHeader ob' h') /\
       forall k', read σ' (NField ob' h' k') = read σ (NField ob' h' k')).
Proof. exact set_field_frame. Qed.

(* `add <obj>.http.<h> = E;` changes at most that header (and its views) *)
Theorem C13_add_frame :
  forall Os P n fn o h e σ out σ',
    wf σ -> pure e = true -> exec repaired Os P n fn (SAdd o h e) σ = OK (out, σ') ->
    forall x, independent x (NHeader o h) -> is_group x = false -> read σ' x = read σ x.
Proof. exact add_frame. Qed.

(* `error [code [response]];` changes the documented implicit cells ctx.ObjectStatus / ctx.ObjectResponse
   (gs, gr) and nothing else, and ends with the state error; `restart;` changes nothing. *)
Theorem C13_error_frame :
  forall Os P n fn ok gs gr code arg σ out σ',
    wf σ -> (forall e, code = Some e -> pure e = true) -> (forall e, arg = Some e -> pure e = true) ->
    exec repaired Os P n fn (SError ok gs gr code arg) σ = OK (out, σ') ->
    out = OState st_error /\
    forall x, x <> NGlobal gs -> x <> NGlobal gr -> is_group x = false -> read σ' x = read σ x.
Proof. exact error_frame. Qed.

Theorem C13_restart_frame :
  forall Os P n fn ok σ out σ',
    exec repaired Os P n fn (SRestart ok) σ = OK (out, σ') -> out = OState st_restart /\ σ' = σ.
Proof. exact restart_frame. Qed.

Theorem C13_error_example : error_example_stmt.
Proof. exact error_example. Qed.

Theorem C13_add_example : add_example_stmt.
Proof. exact add_example. Qed.

(* `unset <obj>.http.<pre>*;`: EXACTLY the headers of that object whose name starts with the prefix, compared
   case-insensitively, change - each becomes not set together with its sub-fields; every other name (other
   headers, other objects, locals, ctx variables, re.group.N) keeps its value. *)
Theorem C13_unset_wildcard_frame :
  forall Os P n fn o pre σ out σ',
    exec repaired Os P n fn (SUnsetWild o pre) σ = OK (out, σ') ->
    out = ONorm /\
    (forall x, match hdr_of x with Some k => wild_hit o pre k = false | None => True end -> read σ' x = read σ x) /\
    (forall h, wild_hit o pre (o, h) = true ->
       read σ' (NHeader o h) = Some (VStr [] true false) /\
       forall k, read σ' (NField o h k) = Some (field_of_text [] k)).
Proof. exact unset_wildcard_frame. Qed.

Theorem C13_unset_wildcard_case_insensitive :
  forall Os P n fn o p q σ,
    map fold_byte p = map fold_byte q ->
    exec repaired Os P n fn (SUnsetWild o p) σ = exec repaired Os P n fn (SUnsetWild o q) σ.
Proof. exact unset_wildcard_case_insensitive. Qed.

Theorem C13_unset_wildcard_example : unset_wildcard_example_stmt.
Proof. exact unset_wildcard_example. Qed.

(* `synthetic e;`: only the response-body cell changes (and re.group.N when e contains a match). *)
Theorem C13_synthetic_frame :
  forall Os P n fn gb e σ out σ',
    wf σ -> pure e = true ->
    exec repaired Os P n fn (SSynthetic gb e) σ = OK (out, σ') ->
    out = ONorm /\ forall x, x <> NGlobal gb -> is_group x = false -> read σ' x = read σ x.
Proof. exact synthetic_frame. Qed.

Theorem C13_synthetic_example : synthetic_example_stmt.
Proof. exact synthetic_example. Qed.

(* `unset T` / `remove T` on a header or a sub-field: the same frame *)
Theorem C13_unset_frame :
  forall Os P n fn T σ o σ',
    exec repaired Os P n fn (SUnset T) σ = OK (o, σ') ->
    forall x, independent x T -> read σ' x = read σ x.
Proof. exact unset_frame. Qed.

(* A subroutine call (ProcessSubroutine / ProcessFunctionSubroutine) leaves the caller's locals
   and capture groups exactly as they were. *)
Theorem C13_call_frame :
  forall Os P n sb args σ r σ',
    wf σ -> call repaired Os P n sb args σ = OK (r, σ') ->
    (forall k, read σ' (NLocal k) = read σ (NLocal k)) /\
    (forall j, read σ' (NGroup j) = read σ (NGroup j)).
Proof. exact call_frame. Qed.

(* the statement `call f(args);` including the evaluation of its arguments *)
Theorem C13_call_stmt_frame :
  forall Os P n fn f args σ o σ',
    wf σ -> exec repaired Os P n fn (SCall f args) σ = OK (o, σ') ->
    (forall k, read σ' (NLocal k) = read σ (NLocal k)) /\
    (forallb nomatch args = true -> forall j, read σ' (NGroup j) = read σ (NGroup j)).
Proof. exact call_stmt_frame. Qed.

(* Arguments are passed by value: whatever the callee does (to its parameters or anything else),
   no cell that existed in the caller changes, except cells of ctx variables; and every
   parameter is bound to a cell that did not exist before. *)
Theorem C13_args_by_value :
  forall Os P n sb args σ r σ',
    wf σ -> call repaired Os P n sb args σ = OK (r, σ') ->
    forall l, l < length (heap σ) -> ~ global_cell σ l ->
    nth_error (heap σ') l = nth_error (heap σ) l.
Proof. exact args_by_value. Qed.

Theorem C13_params_fresh :
  forall Os ps args σ σ',
    wf σ -> bind_params repaired Os ps args σ = OK σ' ->
    forall k l, lookup k (locals σ') = Some l -> lookup k (locals σ) = Some l \/ length (heap σ) <= l.
Proof. exact params_fresh. Qed.

(* [wf] is not an assumption about programs: it holds initially and is kept by every run *)
Theorem C13_reachable_wf :
  forall Os P n body globs o σ',
    run_main repaired Os P n body (init_state globs) = OK (o, σ') -> wf σ'.
Proof. exact (fun Os P n body globs o σ' => run_main_wf Os P n body _ o σ' (init_wf globs)). Qed.

(* concrete, non-trivial instances (hypotheses satisfiable, conclusions informative) *)
Theorem C13_set_neg_example :
  exists σ', exec repaired std_ops [] 10 false (SSet (NLocal 1) AEq (ENeg (EVar (NLocal 0)))) σ_ab = OK (ONorm, σ')
    /\ read σ' (NLocal 1) = Some (VInt (-5)%Z false) /\ read σ' (NLocal 0) = Some (VInt 5 false).
Proof. exact set_neg_example. Qed.

(* the same through every cell-returning shape: -(if(true, +var.v0, 3)) *)
Theorem C13_set_neg_shapes_example :
  exists σ', exec repaired std_ops [] 10 false (SSet (NLocal 1) AEq shaped_neg) σ_ab = OK (ONorm, σ')
    /\ read σ' (NLocal 1) = Some (VInt (-5)%Z false) /\ read σ' (NLocal 0) = Some (VInt 5 false).
Proof. exact set_neg_shapes_example. Qed.

Theorem C13_neg_shapes_need_copy :
  exists l σ', eval original std_ops [] 10 lvar_mode shaped_neg σ_ab = OK (l, σ') /\
               read σ' (NLocal 0) <> read σ_ab (NLocal 0).
Proof. exact neg_in_place_shapes_refutes. Qed.

(* switch with fallthrough into the default; return(state) travelling through a call; sub-field writes *)
Theorem C13_switch_example :
  exists σ', exec repaired std_ops [] 20 false sw_example σ_ab = OK (ONorm, σ')
    /\ read σ' (NLocal 1) = Some (VInt 3 false) /\ read σ' (NLocal 0) = Some (VInt 5 false).
Proof. exact switch_example. Qed.

Theorem C13_return_state_example :
  exists σ', run_main repaired std_ops [(1%N, sub_f1)] 20 [SCall 1 []; SSet (NLocal 1) AEq (ELit (VInt 9 true))] σ_ab
             = OK (OState 7, σ')
    /\ read σ' (NLocal 1) = Some (VInt 0 false) /\ locals σ' = locals σ_ab.
Proof. exact return_state_example. Qed.

Theorem C13_field_example : field_example_stmt.
Proof. exact field_example. Qed.

Theorem C13_call_example :
  exists σ', exec repaired std_ops prog_f0 10 false (SCall 0 [EVar (NLocal 0)]) σ_ab = OK (ONorm, σ')
    /\ read σ' (NLocal 0) = Some (VInt 5 false) /\ length (heap σ') = 5.
Proof. exact call_example. Qed.

(* The two repairs are needed: on the model of the tree before them ([original]) the
   statements above are false (both defects were reproduced on the real interpreter,
   corpus/C13/). *)
Theorem C13_eval_frame_needs_neg_copy :
  exists n m e σ l σ',
    wf σ /\ pure e = true /\ eval original std_ops [] n m e σ = OK (l, σ') /\
    exists x, is_group x = false /\ read σ' x <> read σ x.
Proof. exact neg_in_place_refutes. Qed.

Theorem C13_call_frame_needs_param_copy :
  exists Pg n sb args σ r σ',
    wf σ /\ call original std_ops Pg n sb args σ = OK (r, σ') /\
    exists k, read σ' (NLocal k) <> read σ (NLocal k).
Proof. exact param_alias_refutes. Qed.

(* ---- the model's assumptions about effects, against the table read off the Go source ----
   Gen/StoreEffects.v is regenerated on every run from interpreter/function/builtin, statement.go and
   operator/operator.go (which context fields each writes). *)

(* The built-ins the model evaluates inside expressions (and [pure] admits) never mention the
   interpreter context and never write through an argument. *)
Theorem C13_model_builtins_effect_free :
  forall f, In f std_builtin_names ->
    effects_of f = Some [] /\ In f builtin_ctx_free /\ ~ In f builtin_arg_writers.
Proof. exact model_builtins_effect_free. Qed.

(* The built-ins WITH effects the differential run uses as statements / operands write only header
   maps or ctx.FastlyError - cells the snapshots show. *)
Theorem C13_stmt_builtins_observed :
  forall f, In f stmt_builtins ->
    exists w, effects_of f = Some w /\ forall p, In p w -> observed p = true.
Proof. exact stmt_builtins_observed. Qed.

(* The implicit writes of the model are the ones of the source: `error` writes ObjectStatus and
   ObjectResponse; a match writes RegexMatchedValues (and FastlyError); set / add also charge the
   request workspace counter; the other statement kinds write no context field themselves. *)
Theorem C13_error_implicit :
  lookup_eff "Error"%string statement_effects = Some error_implicit.
Proof. exact error_implicit_tie. Qed.

Theorem C13_match_implicit :
  lookup_eff "Regex"%string operator_effects = Some match_implicit /\
  lookup_eff "NotRegex"%string operator_effects = Some match_implicit /\
  lookup_eff "Case"%string statement_effects = Some ["*"%string] /\
  lookup_eff "FunctionCall"%string statement_effects = Some ["*"%string].
Proof. exact match_implicit_tie. Qed.

Theorem C13_set_implicit :
  lookup_eff "Set"%string statement_effects = Some set_implicit /\
  lookup_eff "Add"%string statement_effects = Some set_implicit.
Proof. exact set_implicit_tie. Qed.

Theorem C13_silent_statement_kinds :
  forall k, In k silent_kinds -> lookup_eff k statement_effects = Some [].
Proof. exact silent_kinds_tie. Qed.

(* [wf] for the ctx variables, from the source: within what one scope can write (its own cases of
   interpreter/variable/<scope>.go and the all-scope ones it falls back to) distinct names are
   assigned into distinct context fields.  gen/storegen.py draws its ctx variables from this table. *)
Theorem C13_writable_cells_distinct :
  forall sc, In sc scopes ->
    NoDup (map fst (scope_cells sc)) /\ NoDup (map snd (scope_cells sc)).
Proof. exact writable_cells_distinct. Qed.

Theorem C13_writable_example :
  In ("req.hash_always_miss", "HashAlwaysMiss")%string (scope_cells "recv") /\
  In ("req.max_stale_if_error", "MaxStaleIfError")%string (scope_cells "recv") /\
  In ("obj.ttl", "ObjectTTL")%string (scope_cells "error").
Proof. exact writable_example. Qed.

(* TIME / IP / BACKEND / ACL are in the model as OPAQUE cells ([TOpaque k], [VOpaque k payload]): values the
   model copies and never inspects.  C13_args_by_value, C13_params_fresh, C13_call_frame, C13_set_frame ...
   quantify over every type and value, so they now speak about all ten types of local.  Witnesses: a BACKEND
   local copied and passed to a procedure that overwrites its parameter keeps its value - and before the repair
   of parameter passing it did not (an opaque argument never needs a conversion, so the callee had the caller's cell). *)
Theorem C13_opaque_example : opaque_example_stmt.
Proof. exact opaque_example. Qed.

Theorem C13_opaque_param_needs_copy :
  exists r σ', call original std_ops prog_fop 10 sub_fop [0%nat] σ_op = OK (r, σ') /\
               read σ' (NLocal 0) <> read σ_op (NLocal 0).
Proof. exact param_alias_opaque_refutes. Qed.

(* The ctx variables whose `set` writes another context field as well - the documented couplings: beresp.gzip and
   beresp.brotli exclude each other, obj.response is mirrored into the response object - are exactly these in the
   source, and none of them is among the simple cells the model and the generator use. *)
Theorem C13_coupled_cells :
  coupled = documented_couplings /\
  forallb (fun c => negb (mem (fst (snd c)) (map fst (cells_of (fst c))))) coupled = true.
Proof. exact (conj coupled_are_the_documented coupled_not_simple). Qed.

(* witnesses: the analysis distinguishes writers *)
Theorem C13_header_set_effects_example :
  effects_of "header.set"%string = Some header_maps /\ ~ effect_free "header.set"%string.
Proof. exact (conj header_set_effects header_set_not_effect_free). Qed.

Print Assumptions C13_eval_frame.
Print Assumptions C13_eval_frame_calls.
Print Assumptions C13_set_frame.
Print Assumptions C13_set_field_frame.
Print Assumptions C13_add_frame.
Print Assumptions C13_error_frame.
Print Assumptions C13_restart_frame.
Print Assumptions C13_error_example.
Print Assumptions C13_add_example.
Print Assumptions C13_unset_frame.
Print Assumptions C13_switch_example.
Print Assumptions C13_field_example.
Print Assumptions C13_return_state_example.
Print Assumptions C13_call_frame.
Print Assumptions C13_call_stmt_frame.
Print Assumptions C13_args_by_value.
Print Assumptions C13_params_fresh.
Print Assumptions C13_reachable_wf.
Print Assumptions C13_set_neg_example.
Print Assumptions C13_set_neg_shapes_example.
Print Assumptions C13_neg_shapes_need_copy.
Print Assumptions C13_call_example.
Print Assumptions C13_eval_frame_needs_neg_copy.
Print Assumptions C13_call_frame_needs_param_copy.
Print Assumptions C13_model_builtins_effect_free.
Print Assumptions C13_stmt_builtins_observed.
Print Assumptions C13_error_implicit.
Print Assumptions C13_match_implicit.
Print Assumptions C13_set_implicit.
Print Assumptions C13_silent_statement_kinds.
Print Assumptions C13_header_set_effects_example.
Print Assumptions C13_writable_cells_distinct.
Print Assumptions C13_writable_example.
Print Assumptions C13_unset_wildcard_frame.
Print Assumptions C13_unset_wildcard_case_insensitive.
Print Assumptions C13_unset_wildcard_example.
Print Assumptions C13_synthetic_frame.
Print Assumptions C13_synthetic_example.
Print Assumptions C13_opaque_example.
Print Assumptions C13_opaque_param_needs_copy.
Print Assumptions C13_coupled_cells.
