(* C12 - Ignore comments suppress exactly what they cover.
   Only the property theorems (closed by [exact]) and their Print Assumptions; the model is
   Model/Ignore.v (the repaired linter/ignore.go and its call sites), the predicates of the
   statements are in Model/IgnoreSpec.v, the proofs in Proofs/Ignore*.v.

   Vocabulary.  [report t] is the list of (path, rule) the linter appends to l.Errors for the walk
   tree t; a path is the list of child indices from the root declaration down to the node the
   diagnostic is located in.  [upd_prog p f t] edits the node at path p.  [covers p L d] holds when
   the diagnostic d is located in the subtree at p and its rule is named by the rule list L
   (every rule when L is empty). *)
From Coq Require Import List Bool Arith.
From Coq Require Import Strings.String Strings.Byte.
From Falco Require Import Base.Bytes Gen.LintGen Model.Ignore Model.IgnoreSpec Model.IgnoreLegacy
  Proofs.IgnoreBasics Proofs.IgnoreSim Proofs.IgnoreExact Proofs.IgnoreNT Proofs.IgnoreRange Proofs.IgnoreRange2
  Proofs.IgnoreParse Proofs.IgnoreUnion Proofs.IgnoreExamples.
Import ListNotations.
Open Scope list_scope.

(* Leakage invariant: whatever directives a subtree contains (any nesting, any number), after its
   teardown the next-line set, the this-line set and the stack of saved sets are what they were
   before its setup - for every entry state. *)
Theorem C12_ignore_restores :
  forall n p s qv qp,
    let s' := r_st (run n p s qv qp) in
    nl s' = nl s /\ tl s' = tl s /\ stack s' = stack s.
Proof. exact ignore_restores. Qed.

(* falco-ignore-next-line (any comment c that parses to it, with rule list L) inserted at any
   position k among the leading comments of ANY node (statement, if, else-if / else branch,
   switch, case, block, subroutine) of ANY program t (any other directives, ranges included):
   the report loses exactly the diagnostics located in that node's subtree and named by L. *)
Theorem C12_ignore_exact_next_line :
  forall t p n k c L,
    get_prog p t = Some n ->
    parse_ignore_comment c = Some (NextLine, L) ->
    report (upd_prog p (add_leading k c) t) = filter (fun d => negb (covers p L d)) (report t).
Proof. exact ignore_exact_next_line. Qed.

(* trailing falco-ignore on a statement node *)
Theorem C12_ignore_exact_this_line :
  forall t p n k c L,
    get_prog p t = Some n -> node_wrap n = WStmt ->
    parse_ignore_comment c = Some (ThisLine, L) ->
    report (upd_prog p (add_trailing k c) t) = filter (fun d => negb (covers p L d)) (report t).
Proof. exact ignore_exact_this_line. Qed.

(* falco-ignore-start before the statement ki, falco-ignore-end (same rule list) before a later
   statement kj of the same list, the list being the children of the node at path p, anywhere in
   a program that holds no other start / end directive (any number of next-line / this-line
   ones): exactly the diagnostics located in ki .. the statement before kj and named by L go. *)
Theorem C12_range_exact :
  forall L c1 c2,
    parse_ignore_comment c1 = Some (Start, L) -> parse_ignore_comment c2 = Some (End, L) ->
  forall t p w m fl pre lsub lprog before ki mid kj after k1 k2,
    forallb range_free t = true ->
    get_prog p t = Some (Node w m fl pre lsub lprog (before ++ ki :: mid ++ kj :: after)) ->
    report (upd_prog p (set_kids (before ++ add_leading k1 c1 ki :: mid ++ add_leading k2 c2 kj :: after)) t)
    = filter (region_filter p (List.length before) (S (List.length mid)) L) (report t).
Proof. exact range_exact_nested. Qed.

(* ... with the end comment before the closing brace of the block (the comments a block keeps as
   "infix"): the range ends with the block. *)
Theorem C12_range_exact_block_end :
  forall L c1 c2,
    parse_ignore_comment c1 = Some (Start, L) -> parse_ignore_comment c2 = Some (End, L) ->
  forall t p m pre before ki mid k1 k2,
    forallb range_free t = true ->
    get_prog p t = Some (Node WBlock m false pre [] [] (before ++ ki :: mid)) ->
    report (upd_prog p (fun n => add_infix k2 c2 (set_kids (before ++ add_leading k1 c1 ki :: mid) n)) t)
    = filter (region_filter p (List.length before) (S (List.length mid)) L) (report t).
Proof. exact range_exact_block_end. Qed.

(* ... across root declarations (subroutines); what follows kj is arbitrary *)
Theorem C12_range_exact_top :
  forall L c1 c2,
    parse_ignore_comment c1 = Some (Start, L) -> parse_ignore_comment c2 = Some (End, L) ->
  forall before ki mid kj after k1 k2,
    forallb range_free before = true -> range_free ki = true -> forallb range_free mid = true ->
    free_list (firstn k2 (leading (node_meta kj))) = true ->
    report (before ++ add_leading k1 c1 ki :: mid ++ add_leading k2 c2 kj :: after)
    = filter (region_filter [] (List.length before) (S (List.length mid)) L) (report (before ++ ki :: mid ++ kj :: after)).
Proof. exact range_exact_top. Qed.

(* falco-ignore-start without falco-ignore-end: the range runs to the end of the file.  Exactly the diagnostics of
   the declaration that carries it and of the declarations after it go - the deferred unused/declaration diagnostics of
   the declarations BEFORE it stay (repaired: Lint ends an open range before the lintUnused passes) *)
Theorem C12_range_open_top :
  forall L c1, parse_ignore_comment c1 = Some (Start, L) ->
  forall before ki after k1,
    forallb range_free before = true -> range_free ki = true -> forallb range_free after = true ->
    report (before ++ add_leading k1 c1 ki :: after)
    = filter (region_filter [] (List.length before) (S (List.length after)) L) (report (before ++ ki :: after)).
Proof. exact (fun L c1 H => range_open_top L c1 H). Qed.

(* falco-ignore-start before a statement of a block (e.g. inside a subroutine body) and no end.  Inside the block exactly that
   statement and the ones after it are covered; what the statements before it have queued - the unused/variable diagnostics
   of variables declared BEFORE the start comment, reported when the subroutine ends - passes unfiltered (repaired: the
   queue is reported without consulting the ignore state again, and whether a declaration is ignored is decided when it is
   entered); when the block is left the two runs differ by the open range only (RS: same next-line / this-line sets and
   stack, range set = the old one plus L), which then runs on as in C12_range_open_top.  Any entry state, any context. *)
Theorem C12_range_open_in_block :
  forall L c1, parse_ignore_comment c1 = Some (Start, L) ->
  forall m pre before ki after k1 p s qv qp,
    range_free_meta m = true -> forallb range_free before = true ->
    range_free ki = true -> forallb range_free after = true ->
    let FR := region_filter p (List.length before) (S (List.length after)) L in
    let r := run (Node WBlock m false pre [] [] (before ++ ki :: after)) p s qv qp in
    let r' := run (Node WBlock m false pre [] [] (before ++ add_leading k1 c1 ki :: after)) p s (filter FR qv) (filter FR qp) in
    RS L (r_st r) (r_st r') /\ r_qv r' = filter FR (r_qv r) /\ r_qp r' = filter FR (r_qp r) /\ r_out r' = filter FR (r_out r).
Proof. exact (fun L c1 H => range_open_in_block L c1 H). Qed.

(* the engine of the three range theorems, in ANY context: wherever the walk stands (state s,
   queues qv qp, owner path b, index i0), provided the range set does not already ignore the
   rules of the pair ([rg_clear]), e.g. after an earlier pair has been closed *)
Theorem C12_range_exact_in_context :
  forall L c1 c2,
    parse_ignore_comment c1 = Some (Start, L) -> parse_ignore_comment c2 = Some (End, L) ->
  forall b i0 ki mid,
    range_free ki = true -> forallb range_free mid = true ->
  forall k1 k2 kj after s qv qp,
    free_list (firstn k2 (leading (node_meta kj))) = true ->
    rg_clear L (rg s) ->
    let F := region_filter b i0 (S (List.length mid)) L in
    sim_eq F
      (run_kids (add_leading k1 c1 ki :: mid ++ add_leading k2 c2 kj :: after) b i0 s (filter F qv) (filter F qp))
      (run_kids (ki :: mid ++ kj :: after) b i0 s qv qp).
Proof. exact range_list. Qed.

(* every rendering of a directive is read back: "# ...", "// ...", "/* ... */", any rule list
   whose rules are non-empty and free of white space and commas *)
Theorem C12_parse_render :
  forall mk k L, forallb plain_rule L = true -> parse_ignore_comment (render mk k L) = Some (k, L).
Proof. exact parse_render. Qed.

(* SEVERAL DIRECTIVES IN FORCE AT ONCE.  The state is the union of what they name: after the rule lists L1 ... Ln have been
   added to one of the three sets a rule is ignored iff it was before or one of the lists names it (an empty list names
   every rule); ignore-everything is sticky - later rule lists do not switch it off; and the state in which a statement is
   linted is the state before it plus everything its leading next-line / start comments and its trailing falco-ignore
   comments name, whatever their number, order and rule lists (witness: Proofs/IgnoreExamples.v ex_stack) *)
Theorem C12_ignore_rules_accumulate :
  forall Ls a r, den (fold_left ignore_rules Ls a) r = den a r || existsb (fun L => named L r) Ls.
Proof. exact ignore_rules_accumulate. Qed.

Theorem C12_ignore_all_sticky :
  forall Ls a, all (fold_left ignore_rules Ls a) = all a || existsb is_all Ls.
Proof. exact ignore_all_sticky. Qed.

Theorem C12_setup_statement_union :
  forall m s r,
    forallb (fun c => negb (is_end c)) (leading m) = true ->
    is_enable r (setup_statement m s) =
    is_enable r s
    || existsb (fun c => names_next c r || names_start c r) (leading m)
    || existsb (fun c => names_this c r) (trailing m).
Proof. exact setup_statement_union. Qed.

(* every rule name the linter declares (Gen/LintGen.v, regenerated from linter/rules.go) can be named in a directive: a
   rule list made of declared names, in any of the three comment forms, is read back as written *)
Theorem C12_declared_rules_renderable :
  forall mk k L, incl L rule_names -> parse_ignore_comment (render mk k L) = Some (k, L).
Proof. exact (fun mk k L H => parse_render mk k L (forallb_incl plain_rule L rule_names H declared_rules_plain)). Qed.

(* KNOWN FINDING (known_findings.txt, construct "overlapping-ranges-sharing-rules").  The range
   theorems above require that no other start / end directive lies inside the new pair's region
   and that the range set does not already hold the named rules.  That exclusion is needed, and
   what it excludes is a genuine deviation from the property, not a matter of taste: the range
   set is ONE set, falco-ignore-end removes its rules from it (all of them when bare), so a pair
   placed inside an open range that shares rules with it ends that range - diagnostics located
   after the inner end, inside the outer range, are reported again: the inner pair changed OTHER
   diagnostics than those it covers.  The linter test
   TestIgnoreErrorStartEndRangeOnly_EndWithNoRulesSpecifiedUnignoresAllRules pins this behaviour,
   so it is recorded, not repaired.  Witness (Proofs/IgnoreExamples.v, ex_nested_ranges): outer
   pair around a..d, inner pair around b: c and d are reported again.
   What the theorems do NOT cover although the implementation behaves as the property says
   (checked by the differential run and the direct oracle only): a pair nested in an open range
   whose rule lists are disjoint from it. *)
Theorem C12_range_overlap_refuted :
  exists L c1 c2 before ki mid kj after k1 k2,
    parse_ignore_comment c1 = Some (Start, L) /\ parse_ignore_comment c2 = Some (End, L) /\
    range_free ki = true /\ forallb range_free mid = true /\
    free_list (firstn k2 (leading (node_meta kj))) = true /\
    report (before ++ add_leading k1 c1 ki :: mid ++ add_leading k2 c2 kj :: after)
    <> filter (region_filter [] (List.length before) (S (List.length mid)) L) (report (before ++ ki :: mid ++ kj :: after)).
Proof. exact range_overlap_refuted. Qed.

(* The code before the repairs (Model/IgnoreLegacy.v = linter/ignore.go and its call sites at
   repository commit 06bf344, validated against that linter): for each repaired defect, what the
   unrepaired code reported on a concrete program (p_... in Proofs/IgnoreExamples.v) next to what the
   repaired code reports - which the theorems above show to be what the comments cover.
   Non-vacuity witnesses of the theorems above: ex_next_line, ex_nested, ex_block_end, ex_this_line,
   ex_range_top, ex_range_siblings in Proofs/IgnoreExamples.v. *)
Theorem C12_unrepaired_nested_next_line :
  map snd (report_vcl_unrepaired p_nested_next_line) = map bs ["macro"; "r2"; "r3"]%string /\
  map snd (report_vcl p_nested_next_line) = map bs ["macro"; "r3"]%string.
Proof. exact unrepaired_nested_next_line. Qed.

Theorem C12_unrepaired_range_leak :
  map snd (report_vcl_unrepaired p_range_leak) = map bs ["macro"]%string /\
  map snd (report_vcl p_range_leak) = map bs ["macro"; "r2"; "macro"; "r3"]%string.
Proof. exact unrepaired_range_leak. Qed.

Theorem C12_unrepaired_switch_case :
  map snd (report_vcl_unrepaired p_switch_case) = map bs ["macro"; "r1"; "r2"; "r3"]%string /\
  map snd (report_vcl p_switch_case) = map bs ["macro"; "r3"]%string.
Proof. exact unrepaired_switch_case. Qed.

Theorem C12_unrepaired_else :
  map snd (report_vcl_unrepaired p_else) = map bs ["macro"; "r0"; "c2"; "r1"; "r2"]%string /\
  map snd (report_vcl p_else) = map bs ["macro"; "r0"]%string.
Proof. exact unrepaired_else. Qed.

Theorem C12_unrepaired_block_comment :
  map snd (report_vcl_unrepaired p_block_comment) = map bs ["macro"; "r1"; "r2"]%string /\
  map snd (report_vcl p_block_comment) = map bs ["macro"]%string.
Proof. exact unrepaired_block_comment. Qed.

Theorem C12_unrepaired_unused_variable :
  map snd (report_vcl_unrepaired p_unused_variable) = map bs ["macro"; "r1"; "unused/variable"]%string /\
  map snd (report_vcl p_unused_variable) = map bs ["macro"; "r1"]%string.
Proof. exact unrepaired_unused_variable. Qed.

Theorem C12_unrepaired_open_range :
  map snd (report_vcl_unrepaired p_open_range) = map bs ["scope"; "r0"]%string /\
  map snd (report_vcl p_open_range) = map bs ["scope"; "r0"; "unused/declaration"]%string.
Proof. exact unrepaired_open_range. Qed.

Theorem C12_unrepaired_open_in_block :
  map snd (report_vcl_unrepaired p_open_in_block) = map bs ["scope"; "r0"]%string /\
  map snd (report_vcl p_open_in_block) = map bs ["scope"; "r0"; "unused/variable"; "unused/declaration"]%string.
Proof. exact unrepaired_open_in_block. Qed.

Print Assumptions C12_ignore_restores.
Print Assumptions C12_ignore_exact_next_line.
Print Assumptions C12_ignore_exact_this_line.
Print Assumptions C12_range_exact.
Print Assumptions C12_range_exact_block_end.
Print Assumptions C12_range_exact_top.
Print Assumptions C12_range_exact_in_context.
Print Assumptions C12_parse_render.
Print Assumptions C12_range_overlap_refuted.
Print Assumptions C12_unrepaired_nested_next_line.
Print Assumptions C12_unrepaired_range_leak.
Print Assumptions C12_unrepaired_switch_case.
Print Assumptions C12_unrepaired_else.
Print Assumptions C12_unrepaired_block_comment.
Print Assumptions C12_unrepaired_unused_variable.
Print Assumptions C12_range_open_top.
Print Assumptions C12_declared_rules_renderable.
Print Assumptions C12_unrepaired_open_range.
Print Assumptions C12_ignore_rules_accumulate.
Print Assumptions C12_ignore_all_sticky.
Print Assumptions C12_setup_statement_union.
Print Assumptions C12_range_open_in_block.
Print Assumptions C12_unrepaired_open_in_block.
