(* C12 - placeholder while the proofs are being written *)
From Coq Require Import List.
From Falco Require Import Model.Ignore.
Import ListNotations.
Theorem C12_stub : report [] = [].
Proof. reflexivity. Qed.
Print Assumptions C12_stub.
