(* C03 - Formatting preserves the meaning of the program.
   Property theorems only (closed by [exact]); model: Model/FmtTok.v, Model/FmtNorm.v (token
   streams of the Go lexer, layout excluded); proofs: Proofs/Fmt*.v.

   WHAT IS PROVED HERE is the token-stream core: the significant tokens the model predicts for
   the formatted text are those of the source up to exactly the documented rewrites.
   WHAT IS NOT: (1) that the layout the Go pretty-printer produces re-lexes to these tokens -
   tied on every run by the correspondence [tokens (format c src) = norm c (tokens src)] and by
   the re-parse oracle; (2) that the TREE the parser builds from [norm c ts] is the normalised
   tree of [ts] ([C03_full_statement]) - needs the parser model (C02) and is checked on every
   run by the oracle parse(format(parse s)) = parse s modulo the options; (3)
   sort_declaration_property (the empty-line groups it sorts within are layout). *)
From Coq Require Import List Bool NArith Strings.String Permutation.
From Falco Require Import Base.Res Base.Bytes Gen.FmtConfig Model.FmtTok Model.FmtNorm
  Proofs.FmtConfigTie Proofs.FmtComments Proofs.FmtSig Proofs.FmtSort Proofs.FmtSortStream Proofs.FmtExamples.
Import ListNotations.

(* every configuration, every token stream (sort_declaration off: the order is kept) *)
Theorem C03_norm_significant_partial :
  forall c ts, sort_declaration c = false -> rewrites c (significant ts) (significant (norm c ts)).
Proof. exact norm_significant. Qed.

(* every configuration, sort_declaration included: the rewritten tokens, then the declarations
   permuted as blocks by Declarations.Sort - each declaration keeps its tokens, in order *)
Theorem C03_norm_significant_sorted_partial :
  forall c ts, exists l, rewrites c (significant ts) l /\
    (significant (norm c ts) = l
     \/ exists G, l = List.concat (map group_toks G)
                  /\ significant (norm c ts) = List.concat (map group_toks (sort_groups G))).
Proof. exact norm_significant_sorted. Qed.

Theorem C03_norm_significant_perm :
  forall c ts, exists l, rewrites c (significant ts) l /\ Permutation l (significant (norm c ts)).
Proof. exact norm_significant_perm. Qed.

(* the pass itself, from any reachable state: used for every declaration when they are sorted *)
Theorem C03_run_rewrites :
  forall c its s carry out tl, ret_ok c s -> run c s carry its = (out, tl) ->
  rewrites c (item_toks its) (item_toks out).
Proof. exact run_rewrites. Qed.

(* sort_declaration: the declarations (each with its comments) are permuted, nothing else;
   holds for the insertion sort under ANY comparator *)
Theorem C03_sort_is_permutation : forall gs, Permutation (sort_groups gs) gs.
Proof. exact sort_groups_perm. Qed.

Theorem C03_isort_is_permutation :
  forall (A : Type) (less : A -> A -> bool) l, Permutation (isort less l) l.
Proof. exact @isort_perm. Qed.

(* T tie: option list, defaults, and the options formatter/*.go reads, regenerated on every run *)
Theorem C03_config_fields : fmt_fields = model_fields.
Proof. exact fmt_config_fields_tie. Qed.

Theorem C03_config_defaults :
  forall n ty d, In (n, ty, d) fmt_fields -> field_value default_config n = d.
Proof. exact fmt_config_defaults_tie. Qed.

Theorem C03_config_reads :
  (forall f, In f fmt_conf_reads <-> In f token_options \/ In f layout_options)
  /\ (forall f, In f fmt_conf_reads -> In f fmt_go_fields).
Proof. exact (proj2 fmt_conf_reads_tie). Qed.

(* non-vacuity: a stream on which every rewrite fires, and its image *)
Theorem C03_example : norm ex_conf ex_src = ex_out.
Proof. exact ex_norm. Qed.

(* the full property, for the record: it needs a model of the parser and of the pretty-printer's
   layout; it is NOT proved (checked on every run by the implementation oracle) *)
Section Full.
  Variables (tree : Type) (parse : list byte -> res tree)
            (format : fmt_config -> tree -> res (list byte))
            (norm_tree : fmt_config -> tree -> tree).
  Definition C03_full_statement : Prop :=
    forall c src t out, parse src = OK t -> format c t = OK out -> parse out = OK (norm_tree c t).
End Full.

Print Assumptions C03_norm_significant_partial.
Print Assumptions C03_norm_significant_sorted_partial.
Print Assumptions C03_norm_significant_perm.
Print Assumptions C03_run_rewrites.
Print Assumptions C03_sort_is_permutation.
Print Assumptions C03_isort_is_permutation.
Print Assumptions C03_config_fields.
Print Assumptions C03_config_defaults.
Print Assumptions C03_config_reads.
Print Assumptions C03_example.
