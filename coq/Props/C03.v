(* C03 - Formatting preserves the meaning of the program.
   Property theorems only (closed by [exact]); model: Model/FmtTok.v, Model/FmtNorm.v (token
   streams of the Go lexer, layout excluded); proofs: Proofs/Fmt*.v.

   WHAT IS PROVED HERE is the token-stream core: the significant tokens the model predicts for
   the formatted text are those of the source up to exactly the documented rewrites.
   WHAT IS NOT: (1) that the layout the Go pretty-printer produces re-lexes to these tokens -
   tied on every run by the correspondence [tokens (format c src) = norm c (tokens src)] and by
   the re-parse oracle; (2) that the TREE the parser builds from [norm c ts] is the normalised
   tree of [ts] for a WHOLE program ([Tree.C03_full_statement]) - proved construct by construct
   over the parser model of C02 in module Tree below (explicit "+" both ways, remove->unset,
   one else-if clause, return parentheses), not composed; checked on every run by the oracle
   parse(format(parse s)) = parse s modulo the options; (3) sort_declaration_property (the
   empty-line groups it sorts within are layout). *)
From Coq Require Import List Bool NArith Strings.String Permutation.
From Falco Require Import Base.Res Base.Bytes Gen.FmtConfig Model.FmtTok Model.FmtNorm
  Proofs.FmtConfigTie Gen.FmtSpell Proofs.FmtSpellTie Proofs.FmtComments Proofs.FmtSig Proofs.FmtSort Proofs.FmtSortStream Proofs.FmtExamples.
From Falco Require Gen.TokenTypes Model.ParseKinds Gen.ParserTables Model.ParseBase Model.Ast Model.ParseExpr
  Model.ParseStmt Model.ParseDecl Model.Yield Proofs.ParsePratt
  Proofs.FmtTreeExpr Proofs.FmtTreeTokens Proofs.FmtTreeTokensDel Proofs.FmtTreeStmt
  Proofs.FmtTreeBridge Proofs.FmtTreeNorm Proofs.ParseProgram3 Proofs.ParseProgram5 Proofs.FmtTreeProgram.
Import ListNotations.

(* every configuration, every token stream (sort_declaration off: the order is kept) *)
Theorem C03_norm_significant_partial :
  forall c ts, sort_declaration c = false -> rewrites c (significant ts) (significant (norm c ts)).
Proof. exact norm_significant. Qed.

(* every configuration, sort_declaration included: the rewritten tokens, then the declarations
   permuted as blocks by Declarations.Sort - each declaration keeps its tokens, in order *)
Theorem C03_norm_significant_sorted_partial :
  forall c ts, exists l, rewrites c (significant ts) l /\
    (significant (norm c ts) = l
     \/ exists G, l = List.concat (map group_toks G)
                  /\ significant (norm c ts) = List.concat (map group_toks (sort_groups G))).
Proof. exact norm_significant_sorted. Qed.

Theorem C03_norm_significant_perm :
  forall c ts, exists l, rewrites c (significant ts) l /\ Permutation l (significant (norm c ts)).
Proof. exact norm_significant_perm. Qed.

(* the pass itself, from any reachable state: used for every declaration when they are sorted *)
Theorem C03_run_rewrites :
  forall c its s carry out tl, ret_ok c s -> run c s carry its = (out, tl) ->
  rewrites c (item_toks its) (item_toks out).
Proof. exact run_rewrites. Qed.

(* sort_declaration: the declarations (each with its comments) are permuted, nothing else;
   holds for the insertion sort under ANY comparator *)
Theorem C03_sort_is_permutation : forall gs, Permutation (sort_groups gs) gs.
Proof. exact sort_groups_perm. Qed.

Theorem C03_isort_is_permutation :
  forall (A : Type) (less : A -> A -> bool) l, Permutation (isort less l) l.
Proof. exact @isort_perm. Qed.

(* T tie: option list, defaults, and the options formatter/*.go reads, regenerated on every run *)
Theorem C03_config_fields : fmt_fields = model_fields.
Proof. exact fmt_config_fields_tie. Qed.

Theorem C03_config_defaults :
  forall n ty d, In (n, ty, d) fmt_fields -> field_value default_config n = d.
Proof. exact fmt_config_defaults_tie. Qed.

Theorem C03_config_reads :
  (forall f, In f fmt_conf_reads <-> In f token_options \/ In f layout_options)
  /\ (forall f, In f fmt_conf_reads -> In f fmt_go_fields).
Proof. exact (proj2 fmt_conf_reads_tie). Qed.

(* T tie for the spellings: every token [norm] inserts ("+", unset, else, if, the parentheses of return, the
   trailing comma) is spelled by a word of a string literal of formatter/*.go, regenerated on every run *)
Theorem C03_inserted_spellings_documented :
  forall t w, In (t, w) inserted -> tl t = bs w /\ word_known w = true.
Proof. exact inserted_spellings_documented. Qed.

(* non-vacuity: a stream on which every rewrite fires, and its image *)
Theorem C03_example : norm ex_conf ex_src = ex_out.
Proof. exact ex_norm. Qed.

Print Assumptions C03_norm_significant_partial.
Print Assumptions C03_norm_significant_sorted_partial.
Print Assumptions C03_norm_significant_perm.
Print Assumptions C03_run_rewrites.
Print Assumptions C03_sort_is_permutation.
Print Assumptions C03_isort_is_permutation.
Print Assumptions C03_config_fields.
Print Assumptions C03_config_defaults.
Print Assumptions C03_config_reads.
Print Assumptions C03_inserted_spellings_documented.
Print Assumptions C03_example.

(* ======================================================================== TREE LEVEL
   The rewrites of [norm], replayed on the parser model of C02 (Model/Parse*.v): the rewritten
   tokens parse to the documented normalisation of the tree.  In a module because the parser model
   and the formatter model both call their constructors St / Tok. *)
Module Tree.
Import Gen.TokenTypes Model.ParseKinds Gen.ParserTables Model.ParseBase Model.Ast Model.ParseExpr
  Model.ParseStmt Model.ParseDecl Model.Yield Proofs.ParsePratt
  Proofs.FmtTreeExpr Proofs.FmtTreeTokens Proofs.FmtTreeTokensDel Proofs.FmtTreeStmt
  Proofs.FmtTreeBridge Proofs.FmtTreeNorm Proofs.ParseProgram3 Proofs.ParseProgram5 Proofs.FmtTreeProgram.
Local Open Scope N_scope.

(* explicit_string_concat = true.  [ins_plus false] is the token-level rewrite (a "+" between a
   token that ends an operand and one that can start a juxtaposed operand); on the tokens of a
   canonical tree - canonical = the image of the parser, C02_pratt_roundtrip - the rewritten tokens
   parse, in the same context, to the same tree with every juxtaposition made explicit; the two
   trees agree once the Explicit flag is erased.  Table fact used: doc_prec T_PLUS = 7 = the
   precedence of every token that can be juxtaposed (Gen/ParserTables.v). *)
Theorem C03_concat_rewrite_preserves_tree :
  forall fok e p pv rest,
    canon fok e -> p < minprec e -> follow_ok e rest = true -> stops p rest = true ->
    parse_expr fok p (St pv (yexpr e ++ rest)) = POK (e, endst pv (yexpr e) rest)
    /\ ins_plus false (yexpr e) = yexpr (mark_explicit e)
    /\ parse_expr fok p (St pv (ins_plus false (yexpr e) ++ rest))
       = POK (mark_explicit e, endst pv (ins_plus false (yexpr e)) rest)
    /\ erase (mark_explicit e) = erase e.
Proof.
  exact (fun fok e p pv rest Hc Hp Hf Hs =>
    match concat_explicit_preserves_tree fok e p pv rest Hc Hp Hf Hs with
    | conj A (conj B C) =>
        conj A (conj (ins_plus_yexpr fok e Hc)
          (conj (eq_ind_r (fun l => parse_expr fok p (St pv (l ++ rest)) = POK (mark_explicit e, endst pv l rest))
                          B (ins_plus_yexpr fok e Hc)) C))
    end).
Qed.

(* explicit_string_concat = false, the converse.  [del_plus false] removes an infix "+" that is
   followed by a token that can start a juxtaposed operand.  SIDE CONDITION, explicit in [unmark]:
   an explicit concatenation  l + r  becomes the juxtaposition  l r  iff  t_juxt (typ (head r)),
   i.e. r starts with IDENT / STRING / an opening long string / if; otherwise (r = 10, -x, (x), true, ...) the "+"
   stays and so does the node. *)
Theorem C03_concat_removal_preserves_tree :
  forall fok e p pv rest,
    canon fok e -> p < minprec e -> follow_ok e rest = true -> stops p rest = true ->
    del_plus false (yexpr e) = yexpr (unmark e)
    /\ parse_expr fok p (St pv (del_plus false (yexpr e) ++ rest))
       = POK (unmark e, endst pv (del_plus false (yexpr e)) rest)
    /\ erase (unmark e) = erase e.
Proof.
  exact (fun fok e p pv rest Hc Hp Hf Hs =>
    match concat_juxtaposed_preserves_tree fok e p pv rest Hc Hp Hf Hs with
    | conj B C =>
        conj (del_plus_yexpr fok e Hc)
          (conj (eq_ind_r (fun l => parse_expr fok p (St pv (l ++ rest)) = POK (unmark e, endst pv l rest))
                          B (del_plus_yexpr fok e Hc)) C)
    end).
Qed.

Theorem C03_unmark_side_condition :
  forall l op r, unmark (EInfix l op true r)
    = if t_juxt (typ (head r)) then EConcat (unmark l) (unmark r) else EInfix (unmark l) op true (unmark r).
Proof. exact (fun l op r => eq_refl). Qed.

(* the decisions of Model/FmtNorm.v [normal] inside an expression ARE those of ins_plus / del_plus
   (kind table of the formatter model against the parser's token types) *)
Theorem C03_concat_decision_bridge :
  forall c s t nk ty,
    kind_tt (FmtTok.tk t) = Some ty -> FmtNorm.inexpr (FmtNorm.mode s) = true ->
    FmtNorm.normal c s t nk =
      if FmtTok.explicit_string_concat c
      then (if FmtNorm.pe s && t_juxt ty then FmtNorm.AInsBefore FmtTok.t_plus else FmtNorm.AKeep)
      else (if FmtNorm.pe s && is_plus ty && FmtNorm.nk_juxt nk then FmtNorm.ADrop FmtNorm.PNone
            else FmtNorm.AKeep).
Proof. exact normal_in_expr. Qed.

Theorem C03_token_bridge :
  forall ty, ty <> T_ERROR -> ty <> T_RESTART ->
    FmtTok.juxt (kind_of_ttype ty) = t_juxt ty /\ FmtTok.opend (kind_of_ttype ty) = t_opend ty
    /\ FmtTok.kis (kind_of_ttype ty) FmtTok.KPlus = is_plus ty.
Proof. exact bridge_agree. Qed.

(* should_use_unset: one keyword token replaced; same identifier, same semicolon, same end state,
   and the same error when the statement is malformed *)
Theorem C03_remove_to_unset_preserves_tree :
  forall fok n pv c kw u rest,
    typ kw = T_REMOVE -> typ u = T_UNSET ->
    pstmt fok (S n) (St pv (c :: u :: rest)) = unset_of u (pstmt fok (S n) (St pv (c :: kw :: rest))).
Proof. exact remove_to_unset. Qed.

(* else_if: one clause of the chain.  `elseif (c) {..}` / `elsif (c) {..}` and `else if (c) {..}`
   parse the same clause and continue from the same state; only the keyword fields differ
   (Elif E None .. -> Elif else (Some if) ..).  PARTIAL: one clause, not the whole program - the
   composition over nested blocks is in C03_full_statement. *)
Theorem C03_elseif_to_else_if_partial :
  forall fok n pv x E el i R acc,
    (typ E = T_ELSEIF \/ typ E = T_ELSIF) -> typ el = T_ELSE -> typ i = T_IF ->
    let r := pelif fok n E None (St (Some x) (E :: R)) in
    pif_chain fok (S n) (St pv (x :: E :: R)) acc
      = pbind r (fun es => pif_chain fok n (snd es) (fst es :: acc))
    /\ pif_chain fok (S n) (St pv (x :: el :: i :: R)) acc
      = pbind (elif_kw el (Some i) r) (fun es => pif_chain fok n (snd es) (fst es :: acc)).
Proof. exact elseif_to_else_if. Qed.

(* return_statement_parenthesis, both directions: `return e;` and `return (e);` give the same
   expression tree; only ParenthesisLeading/Trailing differ.  Side condition of the bare form:
   e does not start with "(" (the formatter's startsWithGroup test). *)
Theorem C03_return_parenthesis_preserves_tree :
  forall fok n pv c kw lp rp sm e rest,
    typ kw = T_RETURN -> typ lp = T_LEFT_PAREN -> typ rp = T_RIGHT_PAREN -> typ sm = T_SEMICOLON ->
    canon fok e -> 1 < minprec e -> typ (head e) <> T_LEFT_PAREN ->
    pstmt fok (S n) (St pv (c :: kw :: yexpr e ++ sm :: rest))
      = POK (SReturn kw (Some (None, e, None)) sm, St (Some (last (yexpr e) eof_tok)) (sm :: rest))
    /\ pstmt fok (S n) (St pv (c :: kw :: lp :: yexpr e ++ rp :: sm :: rest))
      = POK (SReturn kw (Some (Some lp, e, Some rp)) sm, St (Some rp) (sm :: rest)).
Proof.
  exact (fun fok n pv c kw lp rp sm e rest Hk Hl Hr Hs Hc Hm Hh =>
    conj (return_plain fok n pv c kw sm e rest Hk Hs Hc Hm Hh)
         (return_parenthesised fok n pv c kw lp rp sm e rest Hk Hl Hr Hs Hc Hm)).
Qed.

(* WHOLE PROGRAMS.  The documented normalisation of a canonical program (C02: [cprog], the image of the
   parser) is canonical again - statements of every kind, blocks, if / else-if / else chains in every
   spelling, switch statements (control, case tests, duplicate-case bookkeeping), nested to any depth,
   UNCONDITIONALLY - so by C02_program_roundtrip the tokens of the normalised tree parse to exactly the
   normalised tree. *)
Theorem C03_norm_keeps_canonical :
  forall c fok,
  (forall s nx, cstmt fok s nx -> forall fn nx', sim nx nx' -> cstmt fok (nstmt c fn s) nx')
  /\ (forall ss rb, cblock fok ss rb -> forall fn, cblock fok (map (nstmt c fn) ss) rb)
  /\ (forall an els nx, cchain fok an els nx -> forall fn nx', sim nx nx' ->
        cchain fok (map (nelif c fn) an) (nels c fn els) nx')
  /\ (forall cs rb, ccases fok cs rb -> forall fn, ccases fok (map (ncase c fn) cs) rb)
  /\ (forall ss ft nx, cbody fok ss ft nx -> forall fn, cbody fok (map (nstmt c fn) ss) ft nx).
Proof. exact norm_canonical. Qed.

(* the duplicate-case bookkeeping of a switch does not see the normalisation: the parser compares case
   tests by a label that spells every concatenation with its operator (parser fix a5b80c6; before it
   `case "a" "b":` + `case "a" + "b":` was a program whose formatted text did not parse) *)
Theorem C03_case_bookkeeping_unchanged :
  forall c fn cs acc d, book (map (ncase c fn) acc) d (map (ncase c fn) cs) = book acc d cs.
Proof. exact book_n. Qed.

(* every declaration kind of the model: sub / penaltybox / ratecounter bodies, import, include, acl, and the property
   values of backend (nested probe objects), director (fields and backend objects) and table (trailing comma added)
   declarations.  No side condition is left.  Missing towards C03_full_statement: that the tokens of the normalised
   tree are the tokens [norm] produces - shown for single constructs and on the witnesses below, not in general
   (the mode machine of [run]). *)
Theorem C03_program_preserves_tree :
  forall c fok ds, cprog fok ds ->
  parse_vcl fok (flat_map ystmt (vstmts (norm_vcl c (Vcl ds false)))) = POK (norm_vcl c (Vcl ds false)).
Proof. exact program_norm_parses. Qed.

(* non-vacuity: the witness program of C02 (typed sub, juxtaposition, elsif, switch, return (true), acl)
   under a configuration where every rewrite applies; the normalised tree differs from the source tree;
   and a switch whose case tests are concatenations in both spellings *)
Theorem C03_program_example :
  parse_vcl (fun _ => true) (flat_map ystmt (vstmts (norm_vcl FmtExamples.ex_conf (Vcl ex_prog false))))
  = POK (norm_vcl FmtExamples.ex_conf (Vcl ex_prog false))
  /\ norm_vcl FmtExamples.ex_conf (Vcl ex_prog false) <> Vcl ex_prog false.
Proof. exact (conj ex_prog_norm_parses ex_prog_norm_changes). Qed.

Theorem C03_case_concat_example :
  forall c, parse_vcl (fun _ => true) (flat_map ystmt (vstmts (norm_vcl c (Vcl ex_cases false))))
            = POK (norm_vcl c (Vcl ex_cases false)).
Proof. exact ex_cases_norm_parses. Qed.

(* on both witnesses the tokens of the normalised TREE are exactly the significant tokens the token MODEL
   of the formatter produces from the tokens of the source *)
Theorem C03_witnesses_are_model_output :
  map to_tok (flat_map ystmt (vstmts (norm_vcl ex_conf_unsorted (Vcl ex_prog false))))
  = FmtTok.significant (FmtNorm.norm ex_conf_unsorted (to_elts (flat_map ystmt ex_prog)))
  /\ map to_tok (flat_map ystmt (vstmts (norm_vcl FmtTok.default_config (Vcl ex_cases false))))
     = FmtTok.significant (FmtNorm.norm FmtTok.default_config (to_elts (flat_map ystmt ex_cases))).
Proof. exact (conj ex_prog_token_model ex_cases_token_model). Qed.

(* THE FULL PROPERTY over the real parser model ([parse_vcl], Model/ParseDecl.v), the real token
   model of the formatter ([norm]) and the documented tree normalisation ([norm_vcl],
   Proofs/FmtTreeNorm.v); [to_tok] is the lexer-kind table of ocaml/fmt_main.ml.  It is a
   Definition: NOT proved as a whole.

   PROVED (theorems above), each for a single construct in an arbitrary context:
     - explicit "+" inserted              C03_concat_rewrite_preserves_tree      (nexpr, flag true)
     - explicit "+" removed               C03_concat_removal_preserves_tree      (nexpr, flag false)
     - the "+" decisions of [normal]      C03_concat_decision_bridge, C03_token_bridge
     - remove -> unset                    C03_remove_to_unset_preserves_tree     (nstmt SRemove)
     - elseif / elsif -> else if          C03_elseif_to_else_if_partial          (nelif, one clause)
     - return x <-> return (x)            C03_return_parenthesis_preserves_tree  (nret)
     - whole canonical programs           C03_program_preserves_tree, C03_norm_keeps_canonical (composition
       through C02_program_roundtrip; every statement and declaration kind of the model, no side condition):
       for every canonical program ds and configuration c, parse (tokens of norm_vcl c ds) = norm_vcl c ds;
       and Props/C14.v C14_tree_idem: norm_vcl c (norm_vcl c ds) = norm_vcl c ds
   So the TREE side of the statement is complete: for every canonical program (= every program the parser
   accepts, up to C02_program_roundtrip's canonical form) the normalised tree is the unique parse of its own
   tokens, and normalising twice changes nothing.
   REMAINING - exactly one equation, between the two models of the formatter:
       map to_tok (tokens of norm_vcl c v) = significant (norm c (to_elts (tokens of v)))
     i.e. that the token pass [run] (a mode machine over a flat stream) produces the tokens of the tree
     normalisation.  Proved for the decisions inside expressions (C03_concat_decision_bridge,
     C03_token_bridge, ins_plus / del_plus = mark / unmark on canonical yields) and checked by computation on
     the witnesses (C03_witnesses_are_model_output: C02's witness program and the case-test program); not
     proved in general: the threading of modes through statements (`error` / `restart` used as names end an
     operand for the parser, not for Model/FmtTok.v [opend]); sort_declaration = true (excluded below; token
     level: C03_norm_significant_sorted_partial); sort_declaration_property (not in the token model; compared
     up to property order by the correspondence).
   OUTSIDE both models: the layout - that the text the pretty-printer writes lexes to [norm c ts] - is the
   correspondence of every run. *)
Definition C03_full_statement : Prop :=
  forall fok c ts v,
    FmtTok.sort_declaration c = false ->
    parse_vcl fok ts = POK v ->
    exists ts',
      map to_tok ts' = FmtTok.significant (FmtNorm.norm c (to_elts ts))
      /\ parse_vcl fok ts' = POK (norm_vcl c v).

Print Assumptions C03_concat_rewrite_preserves_tree.
Print Assumptions C03_concat_removal_preserves_tree.
Print Assumptions C03_unmark_side_condition.
Print Assumptions C03_concat_decision_bridge.
Print Assumptions C03_token_bridge.
Print Assumptions C03_remove_to_unset_preserves_tree.
Print Assumptions C03_elseif_to_else_if_partial.
Print Assumptions C03_return_parenthesis_preserves_tree.
Print Assumptions C03_norm_keeps_canonical.
Print Assumptions C03_case_bookkeeping_unchanged.
Print Assumptions C03_case_concat_example.
Print Assumptions C03_witnesses_are_model_output.
Print Assumptions C03_program_preserves_tree.
Print Assumptions C03_program_example.
End Tree.

