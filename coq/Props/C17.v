(* C17 - HTTP header variables obey store laws.
   Only the property theorems (closed by [exact]) and their Print Assumptions.
   Model: Model/HdrField.v (field.go), Model/Hdr.v (http.go, header.go, the Variable entry points);
   spec: Model/HdrSpec.v; proofs: Proofs/Hdr*.v.

   Vocabulary.  [get kd st t] = what reading `obj.http.t` returns in state st (t = `Name` or
   `Name:key`); [after kd st o] = the state after operation o; [state_after kd h] = the state
   after history h from the empty store; kd = request-like (req, bereq) or response-like
   (beresp, obj, resp) object.  [eqfold n n'] : two spellings of one name (equal without case).

   (case_keyed_refuted: on the tree before repository commit d285314 the assigned-key set was
   keyed by the exact spelling, so `set req.http.Foo = "x"; unset req.http.fOO;` left
   req.http.Foo reading as an empty SET string.  The model mirrors the repaired code, where
   C17_get_unset holds for every pair of spellings; corpus/C17/case_keyed.hist keeps the input.) *)
From Coq Require Import List NArith Bool.
From Coq Require Import Strings.Byte.
From Falco Require Import Base.Bytes Model.HdrField Model.Hdr Model.HdrSpec Gen.HdrTables
  Model.HdrMulti Proofs.HdrScan Proofs.HdrItems Proofs.HdrStore Proofs.HdrLaws1 Proofs.HdrLaws2 Proofs.HdrLaws3 Proofs.HdrExamples
  Proofs.HdrMulti Proofs.HdrWildcard Proofs.HdrAlgebra.
Import ListNotations.

(* ---- refinement ------------------------------------------------------------------------- *)
(* Level 1: every concrete step (Go maps as association lists, raw spellings) yields the
   reply of the abstract store step on the classified operation and commutes with [abs];
   lifted to every history. *)
Theorem C17_refine_step : forall kd st o,
  snd (step kd st o) = snd (sstep (abs st) (classify kd o)) /\
  aeq (abs (fst (step kd st o))) (fst (sstep (abs st) (classify kd o))).
Proof. exact refine_step. Qed.

Theorem C17_refinement : forall kd h st,
  snd (run kd st h) = snd (srun kd (abs st) h) /\ aeq (abs (fst (run kd st h))) (fst (srun kd (abs st) h)).
Proof. exact refinement. Qed.

(* Level 2: on a rendered item list the three functions of field.go ARE the list operations
   (first match by case-insensitive key / remove first / remove first and append). *)
Theorem C17_get_field_refines : forall k its, key_ok k = true -> forallb (item_okk k) its = true ->
  get_field (render its) k = lookup k its.
Proof. exact get_field_render. Qed.

Theorem C17_unset_field_refines : forall k its, key_ok k = true -> forallb (item_okk k) its = true ->
  unset_field (render its) k = render (remove_first k its).
Proof. exact unset_field_render. Qed.

Theorem C17_set_field_refines : forall k its v, key_ok k = true -> forallb (item_okk k) its = true ->
  match v with VStr s => no_lf s = true | VNotSet => True end ->
  set_field (render its) k v = render (spec_set its k v).
Proof. exact set_field_render. Qed.

(* the invariant behind the sub-field laws holds along every well-formed history *)
Theorem C17_invariant : forall ks kd h, forallb (hop_ok ks kd) h = true ->
  Inv ks (abs (state_after kd (map conc h))).
Proof. exact Inv_state_after. Qed.

(* ---- whole headers: for ALL histories (indeed all states), all values ---------------------- *)
Theorem C17_get_set : forall kd h n n' v, whole_ok n = true -> eqfold n n' ->
  get kd (after kd (state_after kd h) (OSet n (VStr v))) n' = ORead (RStr (cut_lf v)).
Proof. exact (fun kd h => get_set_state kd (state_after kd h)). Qed.

Theorem C17_get_unset : forall kd h n n', whole_ok n = true -> eqfold n n' ->
  get kd (after kd (state_after kd h) (OUnset n)) n' = ORead RNotSet /\
  get kd (after kd (state_after kd h) (OSet n VNotSet)) n' = ORead RNotSet.
Proof. exact (fun kd h => get_unset_state kd (state_after kd h)). Qed.

Theorem C17_newline_truncation : forall kd h n n' a b, whole_ok n = true -> eqfold n n' -> no_lf a = true ->
  get kd (after kd (state_after kd h) (OSet n (VStr (a ++ c_lf :: b)))) n' = ORead (RStr a).
Proof. exact (fun kd h => newline_truncation_state kd (state_after kd h)). Qed.

(* set, add, unset and every read (so also the set / not-set distinction) do not depend on
   the spelling of header names: histories that differ only there give the same replies *)
Theorem C17_case_insensitive : forall kd h1 h2 st, Forall2 op_fold h1 h2 ->
  snd (run kd st h1) = snd (run kd st h2) /\ aeq (abs (fst (run kd st h1))) (abs (fst (run kd st h2))).
Proof. exact case_insensitive_histories. Qed.

Theorem C17_canon_fold : forall a b, eqfold a b -> forallb tchar a = true -> canon a = canon b.
Proof. exact canon_fold. Qed.

(* any operation (whole header or sub-field; set, add, unset) leaves every read of every OTHER
   header unchanged *)
Theorem C17_set_other_frame : forall kd h o t',
  (match o with OUnset t => cut_star t = None | _ => True end) ->
  (forall cn, touched o = Some cn -> cn <> canon (hdr_of t')) ->
  get kd (after kd (state_after kd h) o) t' = get kd (state_after kd h) t'.
Proof. exact (fun kd h => set_other_frame_state kd (state_after kd h)). Qed.

(* ---- sub-fields: for ALL well-formed histories --------------------------------------------- *)
Theorem C17_field_get_set : forall ks kd h n n' k k' s,
  forallb (hop_ok ks kd) h = true -> hop_ok ks kd (HSetF n k (VStr s)) = true ->
  eqfold n n' -> keq k k' = true -> key_ok k' = true -> mem k' ks = true ->
  get kd (after kd (state_after kd (map conc h)) (conc (HSetF n k (VStr s)))) (ftarget n' k') = ORead (RStr s).
Proof. exact field_get_set. Qed.

Theorem C17_field_unset : forall ks kd h n n' k k',
  forallb (hop_ok ks kd) h = true -> hop_ok ks kd (HUnsetF n k) = true ->
  eqfold n n' -> keq k k' = true -> key_ok k' = true -> mem k' ks = true ->
  get kd (after kd (state_after kd (map conc h)) (conc (HUnsetF n k))) (ftarget n' k') = ORead RNotSet.
Proof. exact field_unset. Qed.

Theorem C17_field_frame : forall ks kd h o n n' k k'',
  forallb (hop_ok ks kd) h = true -> hop_ok ks kd o = true ->
  (o = HUnsetF n k \/ exists v, o = HSetF n k v) ->
  eqfold n n' -> keq k k'' = false -> key_ok k'' = true -> mem k'' ks = true ->
  get kd (after kd (state_after kd (map conc h)) (conc o)) (ftarget n' k'') =
  get kd (state_after kd (map conc h)) (ftarget n' k'').
Proof. exact field_frame. Qed.

Theorem C17_field_set_notset : forall ks kd h n n' k k',
  forallb (hop_ok ks kd) h = true -> hop_ok ks kd (HSetF n k VNotSet) = true ->
  eqfold n n' -> keq k k' = true -> key_ok k' = true -> mem k' ks = true ->
  get kd (after kd (state_after kd (map conc h)) (conc (HSetF n k VNotSet))) (ftarget n' k') = ORead (RStr []) \/
  (length k = 1%nat /\
   get kd (after kd (state_after kd (map conc h)) (conc (HSetF n k VNotSet))) (ftarget n' k') = ORead RNotSet).
Proof. exact field_set_notset. Qed.

(* ---- several objects of one request (req, bereq, beresp, obj, resp) ------------------------ *)
(* an operation addressed to one object (or the rebuilding of one object from another) leaves the
   store of every OTHER object as it is: every header, every sub-field, set / not-set *)
Theorem C17_set_other_object_frame : forall m x p, writes_to x <> p -> fst (mstep m x) p = m p.
Proof. exact set_other_object_frame. Qed.

Theorem C17_other_object_frame_histories : forall h m p,
  Forall (fun x => writes_to x <> p) h -> fst (mrun m h) p = m p.
Proof. exact other_object_frame_histories. Qed.

(* an object derived from another (bereq from req, resp / obj from a response) carries the header
   values and NO assigned marks; afterwards the two are independent *)
Theorem C17_derive_reads : forall s n,
  header_get (derive s) n = header_get s n /\ is_assigned (derive s) n = false.
Proof. exact derive_reads. Qed.

Theorem C17_derive_then_independent : forall m dst src h,
  dst <> src -> Forall (fun x => writes_to x <> src) h ->
  fst (mrun (fst (mstep m (MDerive dst src))) h) src = m src.
Proof. exact derive_then_independent. Qed.

(* ---- witnesses: the hypotheses are satisfiable by a non-trivial history ------------------- *)
Theorem C17_witness_history : forallb (hop_ok ks_w KReq) h_w = true /\ forallb (hop_ok ks_w KResp) h_w = true.
Proof. exact history_witness_ok. Qed.

(* ---- recorded findings: each exclusion of fv_ok is needed (known_findings.txt) ------------ *)
Theorem C17_embedded_key_refuted :
  exists kd n k k'' s,
    keq k k'' = false /\ key_ok k = true /\ key_ok k'' = true /\ field_ok kd n k = true /\
    get kd (after kd st0 (OSet (ftarget n k) (VStr s))) (ftarget n k'') <> get kd st0 (ftarget n k'').
Proof. exact embedded_key_refuted. Qed.

Theorem C17_trailing_backslash_refuted :
  exists kd n k k2 s s2,
    keq k k2 = false /\ field_ok kd n k = true /\ field_ok kd n k2 = true /\
    get kd (after kd (after kd st0 (OSet (ftarget n k) (VStr s))) (OSet (ftarget n k2) (VStr s2))) (ftarget n k)
      <> ORead (RStr s).
Proof. exact trailing_backslash_refuted. Qed.

Theorem C17_quoted_token_refuted :
  exists kd n k s, field_ok kd n k = true /\ key_ok k = true /\
    get kd (after kd st0 (OSet (ftarget n k) (VStr s))) (ftarget n k) <> ORead (RStr s).
Proof. exact quoted_token_refuted. Qed.

(* ---- T tie: the texts transcribed by the model are the ones in the repository ------------- *)
Theorem C17_pattern_pinned : map n2b field_pattern = expected_pattern /\ map n2b quote_class = expected_class.
Proof. exact pattern_pinned. Qed.

(* ---- wildcard unset: `unset obj.http.<prefix>*`  ([wild p] = p followed by a star).
   For EVERY state, prefix and name: after the wildcard unset a header whose name starts with the
   prefix - letters compared without case, any spelling of the name - reads as NOT SET, as a whole
   and in every sub-field; every other read is unchanged; two spellings of the prefix do the same.
   (On the tree before the repair the prefix was compared as written against the canonical key and
   the assigned marks were kept: C17_wildcard_old_refuted - setting req.http.X-A and then unsetting
   with the prefix X- read as an empty SET string, and unsetting with the prefix x- removed nothing.) *)
Theorem C17_wildcard_unset_notset : forall kd st p name n key f,
  protected (wild p) = false -> cut_colon name = (n, key, f) -> is_prefix p (canon n) = true ->
  h_get kd (fst (step kd st (OUnset (wild p)))) name = Some RNotSet /\ snd (step kd st (OUnset (wild p))) = OOk.
Proof. exact wildcard_unset_notset. Qed.

Theorem C17_wildcard_unset_frame : forall kd st p name n key f,
  protected (wild p) = false -> cut_colon name = (n, key, f) -> is_prefix p (canon n) = false ->
  h_get kd (fst (step kd st (OUnset (wild p)))) name = h_get kd st name.
Proof. exact wildcard_unset_frame. Qed.

Theorem C17_wildcard_unset_case : forall kd st p q,
  map lower p = map lower q -> protected (wild p) = false -> protected (wild q) = false ->
  step kd st (OUnset (wild p)) = step kd st (OUnset (wild q)).
Proof. exact wildcard_unset_case. Qed.

Theorem C17_wildcard_old_refuted :
  exists st p name, header_get st name <> [] /\ is_prefix p (canon name) = true /\
    (h_get KReq (h_unset_wild_old st p) name <> Some RNotSet) /\
    exists st2 p2, is_prefix p2 (canon name) = true /\ header_get st2 name <> [] /\
      header_get (h_unset_wild_old st2 p2) name <> [].
Proof. exact wildcard_old_refuted. Qed.

(* ---- algebraic laws over every later history: two stores with the same abstraction answer
   every later history alike; an overwritten write, a write followed by an unset, and the order
   of writes to two different headers cannot be observed by ANY later sequence of operations
   (reads of whole headers or sub-fields, adds, sets, unsets, wildcard unsets, cookies). *)
Theorem C17_same_abstraction_same_future : forall kd h s1 s2, aeq (abs s1) (abs s2) ->
  snd (run kd s1 h) = snd (run kd s2 h) /\ aeq (abs (fst (run kd s1 h))) (abs (fst (run kd s2 h))).
Proof. exact abs_equiv_observations. Qed.

Theorem C17_set_set_last_wins : forall kd st n v1 v2 h, whole_ok n = true ->
  snd (run kd (after kd (after kd st (OSet n v1)) (OSet n v2)) h) =
  snd (run kd (after kd st (OSet n v2)) h).
Proof. exact set_set_unobservable. Qed.

Theorem C17_set_unset_is_unset : forall kd st n v h, whole_ok n = true ->
  snd (run kd (after kd (after kd st (OSet n v)) (OUnset n)) h) =
  snd (run kd (after kd st (OUnset n)) h).
Proof. exact set_unset_unobservable. Qed.

Theorem C17_sets_commute : forall kd st n1 n2 v1 v2 h, whole_ok n1 = true -> whole_ok n2 = true ->
  beq (canon n1) (canon n2) = false ->
  snd (run kd (after kd (after kd st (OSet n1 v1)) (OSet n2 v2)) h) =
  snd (run kd (after kd (after kd st (OSet n2 v2)) (OSet n1 v1)) h).
Proof. exact set_set_commute. Qed.


Theorem C17_unset_idempotent : forall kd st n h, whole_ok n = true ->
  snd (run kd (after kd (after kd st (OUnset n)) (OUnset n)) h) =
  snd (run kd (after kd st (OUnset n)) h).
Proof. exact unset_unset_idempotent. Qed.

Theorem C17_unset_set_is_set : forall kd st n v h, whole_ok n = true ->
  snd (run kd (after kd (after kd st (OUnset n)) (OSet n v)) h) =
  snd (run kd (after kd st (OSet n v)) h).
Proof. exact unset_set_is_set. Qed.

(* non-vacuity: a concrete name meets the hypotheses, and the two spellings X-A / X-B are different keys *)
Example C17_algebra_nonvacuous :
  whole_ok [x58; x2d; x41] = true /\ whole_ok [x58; x2d; x42] = true /\ beq (canon [x58; x2d; x41]) (canon [x58; x2d; x42]) = false.
Proof. vm_compute. repeat split. Qed.

(* absorption: a whole-header set erases the effect of ANY earlier operation that touches only
   that header - [touches_only cn s] (Proofs/HdrAlgebra.v) is true of reads, refused writes and of
   every whole/sub-field/cookie write, add and unset whose canonical header name is cn, false of a
   wildcard unset.  The example: an earlier sub-field set spelled in another case qualifies. *)
Theorem C17_set_absorbs : forall kd st o n v h, whole_ok n = true ->
  touches_only (canon n) (classify kd o) = true ->
  snd (run kd (after kd (after kd st o) (OSet n v)) h) = snd (run kd (after kd st (OSet n v)) h).
Proof. exact set_absorbs. Qed.

Theorem C17_unset_absorbs : forall kd st o n h, whole_ok n = true ->
  touches_only (canon n) (classify kd o) = true ->
  snd (run kd (after kd (after kd st o) (OUnset n)) h) = snd (run kd (after kd st (OUnset n)) h).
Proof. exact unset_absorbs. Qed.

Example C17_set_absorbs_nonvacuous :
  touches_only (canon [x58; x2d; x41]) (classify KReq (OSet [x78; x2d; x61; x3a; x6b] (VStr [x31]))) = true /\
  touches_only (canon [x58; x2d; x41]) (classify KResp (OAdd [x78; x2d; x41] (VStr [x31]))) = true /\
  touches_only (canon [x58; x2d; x41]) (classify KReq (OUnset [x58; x2d; x2a])) = false.
Proof. vm_compute. repeat split. Qed.

(* commutation: ANY two operations on two different headers - [on_header c s] (Proofs/HdrAlgebra.v):
   a read, whole/sub-field/cookie set, add or unset whose canonical header name is c; a wildcard
   unset is on no single header - do not see each other (each reply is what it would have been
   without the other) and their order cannot be observed by any later history.  This is the frame
   law "an operation on one header changes nothing about another" at full strength. *)
Theorem C17_ops_on_different_headers_commute : forall kd st o1 o2 c1 c2 h,
  on_header c1 (classify kd o1) = true -> on_header c2 (classify kd o2) = true -> beq c1 c2 = false ->
  snd (step kd (after kd st o1) o2) = snd (step kd st o2) /\
  snd (step kd (after kd st o2) o1) = snd (step kd st o1) /\
  snd (run kd (after kd (after kd st o1) o2) h) = snd (run kd (after kd (after kd st o2) o1) h).
Proof. exact ops_commute. Qed.

Example C17_commute_nonvacuous :
  on_header (canon [x58; x2d; x41]) (classify KReq (OSet [x78; x2d; x61; x3a; x6b] (VStr [x31]))) = true /\
  on_header (canon [x58; x2d; x42]) (classify KReq (OGet [x58; x2d; x42; x3a; x6b])) = true /\
  on_header (canon [x58; x2d; x42]) (classify KResp (OUnset [x78; x2d; x62])) = true /\
  beq (canon [x58; x2d; x41]) (canon [x58; x2d; x42]) = false.
Proof. vm_compute. repeat split. Qed.

Print Assumptions C17_refine_step.
Print Assumptions C17_refinement.
Print Assumptions C17_get_field_refines.
Print Assumptions C17_unset_field_refines.
Print Assumptions C17_set_field_refines.
Print Assumptions C17_invariant.
Print Assumptions C17_get_set.
Print Assumptions C17_get_unset.
Print Assumptions C17_newline_truncation.
Print Assumptions C17_case_insensitive.
Print Assumptions C17_canon_fold.
Print Assumptions C17_set_other_frame.
Print Assumptions C17_field_get_set.
Print Assumptions C17_field_unset.
Print Assumptions C17_field_frame.
Print Assumptions C17_field_set_notset.
Print Assumptions C17_set_other_object_frame.
Print Assumptions C17_other_object_frame_histories.
Print Assumptions C17_derive_reads.
Print Assumptions C17_derive_then_independent.
Print Assumptions C17_witness_history.
Print Assumptions C17_embedded_key_refuted.
Print Assumptions C17_trailing_backslash_refuted.
Print Assumptions C17_quoted_token_refuted.
Print Assumptions C17_pattern_pinned.
Print Assumptions C17_wildcard_unset_notset.
Print Assumptions C17_wildcard_unset_frame.
Print Assumptions C17_wildcard_unset_case.
Print Assumptions C17_wildcard_old_refuted.
Print Assumptions C17_same_abstraction_same_future.
Print Assumptions C17_set_set_last_wins.
Print Assumptions C17_set_unset_is_unset.
Print Assumptions C17_sets_commute.
Print Assumptions C17_unset_idempotent.
Print Assumptions C17_unset_set_is_set.
Print Assumptions C17_set_absorbs.
Print Assumptions C17_unset_absorbs.
Print Assumptions C17_ops_on_different_headers_commute.
