(* C08 - Simulation is total and bounded.
   Only the property theorems (closed by [exact]) and their Print Assumptions; models are
   Model/Assign.v, Model/Oper.v (operators), Model/Exec.v (call depth, restarts), Model/EvalInclude.v;
   proofs are in Proofs/EvalTotal.v, ExecProofs.v, IncludeProofs.v, EvalGen.v. *)
From Coq Require Import List NArith ZArith Bool.
From Falco Require Import Base.Res Base.Bytes Gen.EvalConst Model.Float Model.Acl Model.Val Model.Assign Model.Oper
  Model.AssignOld Model.Exec Model.CallTree Model.EvalInclude Proofs.EvalTotal Proofs.CallTreeProofs Proofs.ExecProofs Proofs.IncludeProofs Proofs.EvalGen.
Import ListNotations.

(* ---------------------------------------------------------------- operators: a value or an error, for ALL operands *)

(* every assignment operator x every pair of values x literal / variable: never a Go panic
   (the model places [ACrash] at every integer division / remainder by zero and at every shift by
   a negative count of the Go code; the guards of the repaired code make them unreachable) *)
Theorem C08_ops_total : forall (parse_ip : str -> option addr) (op : aop) (l : val) (r : operand),
  assign parse_ip op l r <> ACrash.
Proof. exact assign_total. Qed.

Theorem C08_local_set_total : forall (parse_ip : str -> option addr) (op : aop) (l : val) (r : operand),
  local_set parse_ip op l r <> ACrash.
Proof. exact local_set_total. Qed.

Theorem C08_oper_total : forall (parse_ip : str -> option addr) (re_match : str -> str -> option bool)
  (op : bop) (l r : operand),
  oper parse_ip re_match op l r <> Crash /\ oper parse_ip re_match op l r <> OutOfFuel.
Proof. exact oper_total. Qed.

(* it was false on the unchanged tree (all fixed, see known_findings.txt) *)
Theorem C08_ops_total_old_refuted :
  assign_old no_ip OpShl (iv 1) (ivar (-1)) = ACrash /\
  assign_old no_ip OpShr (iv 1) (ivar (-1)) = ACrash /\
  assign_old no_ip OpRol (iv 1) (ivar (-1)) = ACrash /\
  assign_old no_ip OpRor (iv 1) (ivar 65) = ACrash /\
  assign_old no_ip OpDiv (VRTime 5000000000) (ivar 0) = ACrash /\
  assign_old no_ip OpDiv (iv 10) (mkOp (VFloat fhalf false false false) false) = ACrash /\
  assign_old no_ip OpRem (iv 10) (ivar 0) = ACrash /\
  assign_old no_ip OpRem (VRTime 7) (ivar (2 ^ 55)) = ACrash.
Proof. exact assign_old_crashes. Qed.

(* ---------------------------------------------------------------- call depth *)

(* subroutine execution (any program, any call graph) is structurally recursive on the depth
   budget; its result is a state or an error *)
Theorem C08_exec_total : forall subs max_restarts restarts budget f,
  exec_sub subs max_restarts restarts budget f <> OutOfFuel /\
  exec_sub subs max_restarts restarts budget f <> Crash.
Proof. exact exec_fine. Qed.

(* with the limit of the sources: a chain of n nested calls runs iff n <= maxCallStackExceedCount *)
Theorem C08_depth_bound : forall mr r n, 1 <= n ->
  exec_sub (chain n) mr r maxCallStackExceedCount 0 = if n <=? maxCallStackExceedCount then OK XNone else Err.
Proof. exact depth_bound_gen. Qed.

Theorem C08_self_recursion_err : forall mr r b, exec_sub [[XCall 0]] mr r b 0 = Err.
Proof. exact self_recursion_err. Qed.

Theorem C08_mutual_recursion_err : forall mr r b, exec_sub [[XCall 1]; [XCall 0]] mr r b 0 = Err.
Proof. exact mutual_recursion_err. Qed.

(* the static call-tree pass that precedes every request (limitations.CheckFastlyCallTreeLimit) ends for
   every call graph - cyclic, deep, wide - with the verdict accepted / "Too many sub calls" *)
Theorem C08_calltree_total : forall limit subs,
  check_call_tree limit subs <> OutOfFuel /\ check_call_tree limit subs <> Crash /\ check_call_tree limit subs <> Err.
Proof. exact calltree_total. Qed.

(* ---------------------------------------------------------------- restarts *)

Theorem C08_restart_total : forall subs,
  serve subs maxCallStackExceedCount MaxVarnishRestarts (S MaxVarnishRestarts) 0 <> OutOfFuel /\
  serve subs maxCallStackExceedCount MaxVarnishRestarts (S MaxVarnishRestarts) 0 <> Crash.
Proof. exact restart_total_gen. Qed.

Theorem C08_restart_bound : forall subs st n,
  serve subs maxCallStackExceedCount MaxVarnishRestarts (S MaxVarnishRestarts) 0 = OK (st, n) -> n <= MaxVarnishRestarts.
Proof. exact restart_bound_gen. Qed.

Theorem C08_unconditional_restart_err :
  serve [[XRestart]] maxCallStackExceedCount MaxVarnishRestarts (S MaxVarnishRestarts) 0 = Err /\
  serve [[XReturn XRestartSt]] maxCallStackExceedCount MaxVarnishRestarts (S MaxVarnishRestarts) 0 = Err.
Proof. exact unconditional_restart_gen. Qed.

(* T tie: the guards and limits the models rest on are the ones in the sources *)
Theorem C08_guard_sites : call_guard_sites = 2 /\ restart_guard_sites = 2 /\ include_guard_sites = 1.
Proof. exact guard_sites. Qed.

Theorem C08_limits : MaxVarnishRestarts = 3 /\ maxCallStackExceedCount = 100.
Proof. exact limits. Qed.

(* ---------------------------------------------------------------- includes *)

(* expansion of includes ends for every set of modules: fuel = number of modules + 1 *)
Theorem C08_include_total : forall (mods : modules) (ss : list item),
  resolve (S (length mods)) mods [] ss <> OutOfFuel /\ resolve (S (length mods)) mods [] ss <> Crash.
Proof. exact include_total. Qed.

Theorem C08_self_include_err : forall (mods : modules) m body,
  nth_error mods m = Some body -> In (IInclude m) body ->
  resolve (S (length mods)) mods [] [IInclude m] = Err.
Proof. exact self_include_err. Qed.

Theorem C08_mutual_include_err : forall (mods : modules) a b body_a body_b,
  nth_error mods a = Some body_a -> nth_error mods b = Some body_b ->
  In (IInclude b) body_a -> In (IInclude a) body_b ->
  resolve (S (length mods)) mods [] [IInclude a] = Err.
Proof. exact mutual_include_err. Qed.

(* the unchanged tree (fixed): no fuel is enough for a self-including module - in Go, a stack overflow *)
Theorem C08_include_old_refuted : forall fuel, resolve_old fuel [[IInclude 0]] [IInclude 0] = OutOfFuel.
Proof. exact resolve_old_diverges. Qed.

Print Assumptions C08_ops_total.
Print Assumptions C08_local_set_total.
Print Assumptions C08_oper_total.
Print Assumptions C08_ops_total_old_refuted.
Print Assumptions C08_exec_total.
Print Assumptions C08_calltree_total.
Print Assumptions C08_depth_bound.
Print Assumptions C08_self_recursion_err.
Print Assumptions C08_mutual_recursion_err.
Print Assumptions C08_restart_total.
Print Assumptions C08_restart_bound.
Print Assumptions C08_unconditional_restart_err.
Print Assumptions C08_guard_sites.
Print Assumptions C08_limits.
Print Assumptions C08_include_total.
Print Assumptions C08_self_include_err.
Print Assumptions C08_mutual_include_err.
Print Assumptions C08_include_old_refuted.
