(* C08 - Simulation is total and bounded.
   Only the property theorems (closed by [exact]) and their Print Assumptions; models are
   Model/Assign.v, Model/Oper.v (operators), Model/Exec.v (call depth, restarts), Model/EvalInclude.v;
   proofs are in Proofs/EvalTotal.v, ExecProofs.v, IncludeProofs.v, EvalGen.v. *)
From Coq Require Import List NArith ZArith Bool.
From Falco Require Import Base.Res Base.Bytes Gen.EvalConst Model.Float Model.Acl Model.Val Model.Assign Model.Oper
  Model.AssignOld Model.Exec Model.CallTree Model.Builtins Model.EvalInclude Proofs.EvalTotal Proofs.CallTreeProofs Proofs.BuiltinProofs Proofs.EvalLaws Proofs.EvalOverflow Proofs.ExecProofs Proofs.IncludeProofs Proofs.EvalGen.
Import ListNotations.

(* ---------------------------------------------------------------- operators: a value or an error, for ALL operands *)

(* every assignment operator x every pair of values x literal / variable: never a Go panic
   (the model places [ACrash] at every integer division / remainder by zero and at every shift by
   a negative count of the Go code; the guards of the repaired code make them unreachable) *)
Theorem C08_ops_total : forall (parse_ip : str -> option addr) (op : aop) (l : val) (r : operand),
  assign parse_ip op l r <> ACrash.
Proof. exact assign_total. Qed.

Theorem C08_local_set_total : forall (parse_ip : str -> option addr) (op : aop) (l : val) (r : operand),
  local_set parse_ip op l r <> ACrash.
Proof. exact local_set_total. Qed.

Theorem C08_oper_total : forall (parse_ip : str -> option addr) (re_match : str -> str -> option bool)
  (op : bop) (l r : operand),
  oper parse_ip re_match op l r <> Crash /\ oper parse_ip re_match op l r <> OutOfFuel.
Proof. exact oper_total. Qed.

(* it was false on the unchanged tree (all fixed, see known_findings.txt) *)
Theorem C08_ops_total_old_refuted :
  assign_old no_ip OpShl (iv 1) (ivar (-1)) = ACrash /\
  assign_old no_ip OpShr (iv 1) (ivar (-1)) = ACrash /\
  assign_old no_ip OpRol (iv 1) (ivar (-1)) = ACrash /\
  assign_old no_ip OpRor (iv 1) (ivar 65) = ACrash /\
  assign_old no_ip OpDiv (VRTime 5000000000) (ivar 0) = ACrash /\
  assign_old no_ip OpDiv (iv 10) (mkOp (VFloat fhalf false false false) false) = ACrash /\
  assign_old no_ip OpRem (iv 10) (ivar 0) = ACrash /\
  assign_old no_ip OpRem (VRTime 7) (ivar (2 ^ 55)) = ACrash.
Proof. exact assign_old_crashes. Qed.

(* ---------------------------------------------------------------- call depth *)

(* subroutine execution (any program, any call graph) is structurally recursive on the depth
   budget; its result is a state or an error *)
Theorem C08_exec_total : forall subs max_restarts restarts budget f,
  exec_sub subs max_restarts restarts budget f <> OutOfFuel /\
  exec_sub subs max_restarts restarts budget f <> Crash.
Proof. exact exec_fine. Qed.

(* with the limit of the sources: a chain of n nested calls runs iff n <= maxCallStackExceedCount *)
Theorem C08_depth_bound : forall mr r n, 1 <= n ->
  exec_sub (chain n) mr r maxCallStackExceedCount 0 = if n <=? maxCallStackExceedCount then OK XNone else Err.
Proof. exact depth_bound_gen. Qed.

Theorem C08_self_recursion_err : forall mr r b, exec_sub [[XCall 0]] mr r b 0 = Err.
Proof. exact self_recursion_err. Qed.

Theorem C08_mutual_recursion_err : forall mr r b, exec_sub [[XCall 1]; [XCall 0]] mr r b 0 = Err.
Proof. exact mutual_recursion_err. Qed.

(* the static call-tree pass that precedes every request (limitations.CheckFastlyCallTreeLimit) ends for
   every call graph - cyclic, deep, wide - with the verdict accepted / "Too many sub calls" *)
Theorem C08_calltree_total : forall limit subs,
  check_call_tree limit subs <> OutOfFuel /\ check_call_tree limit subs <> Crash /\ check_call_tree limit subs <> Err.
Proof. exact calltree_total. Qed.

(* ---------------------------------------------------------------- restarts *)

Theorem C08_restart_total : forall subs,
  serve subs maxCallStackExceedCount MaxVarnishRestarts (S MaxVarnishRestarts) 0 <> OutOfFuel /\
  serve subs maxCallStackExceedCount MaxVarnishRestarts (S MaxVarnishRestarts) 0 <> Crash.
Proof. exact restart_total_gen. Qed.

Theorem C08_restart_bound : forall subs st n,
  serve subs maxCallStackExceedCount MaxVarnishRestarts (S MaxVarnishRestarts) 0 = OK (st, n) -> n <= MaxVarnishRestarts.
Proof. exact restart_bound_gen. Qed.

Theorem C08_unconditional_restart_err :
  serve [[XRestart]] maxCallStackExceedCount MaxVarnishRestarts (S MaxVarnishRestarts) 0 = Err /\
  serve [[XReturn XRestartSt]] maxCallStackExceedCount MaxVarnishRestarts (S MaxVarnishRestarts) 0 = Err.
Proof. exact unconditional_restart_gen. Qed.

(* T tie: the guards and limits the models rest on are the ones in the sources *)
Theorem C08_guard_sites : call_guard_sites = 2 /\ restart_guard_sites = 2 /\ include_guard_sites = 1.
Proof. exact guard_sites. Qed.

Theorem C08_limits : MaxVarnishRestarts = 3 /\ maxCallStackExceedCount = 100.
Proof. exact limits. Qed.

(* ---------------------------------------------------------------- includes *)

(* expansion of includes ends for every set of modules: fuel = number of modules + 1 *)
Theorem C08_include_total : forall (mods : modules) (ss : list item),
  resolve (S (length mods)) mods [] ss <> OutOfFuel /\ resolve (S (length mods)) mods [] ss <> Crash.
Proof. exact include_total. Qed.

Theorem C08_self_include_err : forall (mods : modules) m body,
  nth_error mods m = Some body -> In (IInclude m) body ->
  resolve (S (length mods)) mods [] [IInclude m] = Err.
Proof. exact self_include_err. Qed.

Theorem C08_mutual_include_err : forall (mods : modules) a b body_a body_b,
  nth_error mods a = Some body_a -> nth_error mods b = Some body_b ->
  In (IInclude b) body_a -> In (IInclude a) body_b ->
  resolve (S (length mods)) mods [] [IInclude a] = Err.
Proof. exact mutual_include_err. Qed.

(* the unchanged tree (fixed): no fuel is enough for a self-including module - in Go, a stack overflow *)
Theorem C08_include_old_refuted : forall fuel, resolve_old fuel [[IInclude 0]] [IInclude 0] = OutOfFuel.
Proof. exact resolve_old_diverges. Qed.

(* ---------------------------------------------------------------- integer overflow *)

(* "integer overflow ... yields a value or an error": it yields a VALUE - INTEGER += -= *= whose mathematical result does
   not fit int64 give that result modulo 2^64 in the int64 range (Go's wrapping arithmetic), no error, flags unchanged.
   (C07 speaks about results within range only; no check flags the wrap.) *)
Theorem C08_integer_overflow_yields_value : forall parse_ip a n ni pi b bn lit,
  assign parse_ip OpAdd (VInt a n ni pi) (rint b bn lit) = AOk (VInt (wrap64 (a + b)) n ni pi) /\
  assign parse_ip OpSub (VInt a n ni pi) (rint b bn lit) = AOk (VInt (wrap64 (a - b)) n ni pi) /\
  assign parse_ip OpMul (VInt a n ni pi) (rint b bn lit) = AOk (VInt (wrap64 (a * b)) n ni pi) /\
  in64 (wrap64 (a + b)) = true /\ in64 (wrap64 (a - b)) = true /\ in64 (wrap64 (a * b)) = true.
Proof. exact integer_overflow_yields_value. Qed.

Theorem C08_wrap64_congruent : forall z, ((wrap64 z - z) mod 2 ^ 64 = 0)%Z.
Proof. exact wrap64_congruent. Qed.

(* ---------------------------------------------------------------- built-ins driven by a count argument *)

(* std.strrep: for every count (negative, huge) a value or an error; a value has max(count,0) * |s| bytes and never
   exceeds the request workspace *)
Theorem C08_strrep_bound : forall limit s count r, (0 <= limit)%Z ->
  strrep limit s count = OK r -> (zlen r <= limit /\ zlen r = Z.max count 0 * zlen s)%Z.
Proof. exact strrep_bound. Qed.

Theorem C08_strrep_total : forall limit s count, strrep limit s count <> Crash /\ strrep limit s count <> OutOfFuel.
Proof. exact strrep_total. Qed.

(* std.strpad: the string itself, or exactly |width| bytes within the workspace *)
Theorem C08_strpad_bound : forall limit s width pad r, (0 <= limit)%Z ->
  strpad limit s width pad = OK r ->
  r = s \/ (zlen r = f_to_int (f_of_int (Z.abs width)) /\ zlen r <= limit)%Z.
Proof. exact strpad_bound. Qed.

Theorem C08_randomstr_bound : forall limit pick n chars r,
  randomstr limit pick n chars = OK (Some r) -> (zlen r = Z.max n 0 /\ (0 <= n -> n <= limit))%Z.
Proof. exact randomstr_bound. Qed.

(* KNOWN FINDING: std.replaceall with an empty target has no bound - the output is the product of the sizes *)
Theorem C08_replaceall_unbounded_refuted : forall limit : nat, exists r s : str,
  (length r <= S limit /\ length s <= S limit /\ limit < length (interleave r s))%nat.
Proof. exact replaceall_unbounded_refuted. Qed.

Print Assumptions C08_ops_total.
Print Assumptions C08_local_set_total.
Print Assumptions C08_oper_total.
Print Assumptions C08_ops_total_old_refuted.
Print Assumptions C08_exec_total.
Print Assumptions C08_calltree_total.
Print Assumptions C08_depth_bound.
Print Assumptions C08_self_recursion_err.
Print Assumptions C08_mutual_recursion_err.
Print Assumptions C08_restart_total.
Print Assumptions C08_restart_bound.
Print Assumptions C08_unconditional_restart_err.
Print Assumptions C08_guard_sites.
Print Assumptions C08_limits.
Print Assumptions C08_include_total.
Print Assumptions C08_self_include_err.
Print Assumptions C08_mutual_include_err.
Print Assumptions C08_include_old_refuted.
Print Assumptions C08_strrep_bound.
Print Assumptions C08_strrep_total.
Print Assumptions C08_strpad_bound.
Print Assumptions C08_randomstr_bound.
Print Assumptions C08_replaceall_unbounded_refuted.
Print Assumptions C08_integer_overflow_yields_value.
Print Assumptions C08_wrap64_congruent.
