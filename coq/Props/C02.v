(* C02 - The parser builds the tree the VCL grammar and precedence table dictate.
   Only the property theorems (closed by [exact]) and their Print Assumptions; the model is
   Model/Parse*.v (parser/*.go over the significant token stream), the proofs are in
   Proofs/Parse*.v.  [fok] is the strconv.ParseFloat accept/reject oracle: every theorem holds
   for every such oracle. *)
From Coq Require Import List NArith ZArith Bool.
From Falco Require Import Base.Bytes Gen.TokenTypes Model.ParseKinds Gen.ParserTables
  Model.ParseBase Model.Ast Model.ParseLit Model.ParseExpr Model.ParseStmt Model.ParseDecl Model.Yield
  Proofs.ParseTables Proofs.ParseExprYield Proofs.ParseExprTotal Proofs.ParsePratt Proofs.ParseRoundtrip
  Proofs.ParseLitFacts Proofs.ParseStmtYield Proofs.ParseDeclYield Proofs.ParseStmtTotal Proofs.ParseDeclTotal Proofs.ParseLocated Proofs.ParseLocated2 Proofs.ParseProgram Proofs.ParseProgram2
  Proofs.ParseProgram3 Proofs.ParseProgram4 Proofs.ParseProgram5 Proofs.ParseProgram6
  Gen.ParserDispatch Proofs.ParseDispatch Model.ParseComments Proofs.ParseCommentsProofs.
Import ListNotations.
Local Open Scope N_scope.

(* T tie: the precedence table, the prefix / infix / postfix registrations (with the explicit
   flag of the concatenation closures), the assignment operators and the declaration keywords
   regenerated from the Go sources are the documented ones, for EVERY token type. *)
Theorem C02_tables_are_documented :
  (forall t : ttype,
      type_prec t = doc_prec t
      /\ assoc t prefix_parsers = doc_prefix t
      /\ assoc t infix_parsers = doc_infix t
      /\ assoc t postfix_parsers = doc_postfix t
      /\ mem t assignment_operators = doc_assignment t
      /\ mem t declaration_tokens = doc_declaration t)
  /\ P_LOWEST = D_LOWEST /\ P_PREFIX = D_PREFIX /\ P_POSTFIX = D_POSTFIX /\ P_CALL = D_CALL.
Proof. exact tables_are_documented. Qed.

(* Once, in source order, exactly as written: a successful ParseExpression consumed exactly the
   tokens of the tree it returns (every identifier, operator and literal token is in the tree),
   at least one, and left the rest untouched (on return cur is the last token of the tree). *)
Theorem C02_parse_expr_yield :
  forall fok prec st e st',
    parse_expr fok prec st = POK (e, st') -> toks st = yexpr e ++ after st' /\ yexpr e <> [].
Proof. exact parse_expr_yield. Qed.

(* ... and so do statements and declarations (parse_yield, every node kind): ParseStatement starts
   with NextToken, so a statement's tokens are what follows cur; Parse() returns behind the
   declaration. *)
Theorem C02_parse_stmt_yield :
  forall fok n st s st', pstmt fok n st = POK (s, st') -> after st = ystmt s ++ after st'.
Proof. exact (fun fok n => proj1 (yield_stmt_all fok n)). Qed.

Theorem C02_parse_decl_yield :
  forall fok st d st', parse_decl fok st = POK (d, st') -> toks st = ystmt d ++ toks st'.
Proof. exact parse_decl_yield. Qed.

(* whole programs: each declaration, statement and expression appears once, in source order, with
   exactly the tokens written ([no_eof]: the stream does not contain an EOF token in the middle) *)
Theorem C02_parse_yield :
  forall fok ts v, parse_vcl fok ts = POK v -> no_eof ts = true -> ts = flat_map ystmt (vstmts v).
Proof. exact parse_vcl_yield. Qed.

(* snippets: the same (exact since the dangling-token fix of ParseSnippetVCL: the statement loop
   now runs on cur, so a last token is parsed or reported, never dropped) *)
Theorem C02_parse_snippet_yield :
  forall fok ts v, parse_snippet fok ts = POK v -> no_eof ts = true -> ts = flat_map ystmt (vstmts v).
Proof. exact parse_snippet_yield. Qed.

(* Operators group as the documented table states, parentheses overriding: for EVERY canonical
   tree (any depth; all infix operators, explicit + and juxtaposition, prefix operators, grouping,
   if(), calls, postfix %), any caller precedence p below the tree's loosest operator and any
   continuation that cannot extend the expression, parsing the tokens of the tree returns the tree. *)
Theorem C02_pratt_roundtrip :
  forall fok e p pv rest,
    canon fok e -> p < minprec e -> follow_ok e rest = true -> stops p rest = true ->
    parse_expr fok p (St pv (yexpr e ++ rest)) = POK (e, endst pv (yexpr e) rest).
Proof. exact parse_expr_roundtrip. Qed.

Theorem C02_parse_expression_roundtrip :
  forall fok e, canon fok e -> 1 < minprec e ->
    parse_expression fok (yexpr e) = POK (e, [last (yexpr e) eof_tok]).
Proof. exact parse_expression_roundtrip. Qed.

(* ... hence the grouping is a function of the tokens *)
Theorem C02_canonical_tree_unique :
  forall fok e1 e2, canon fok e1 -> canon fok e2 -> 1 < minprec e1 -> 1 < minprec e2 ->
    yexpr e1 = yexpr e2 -> e1 = e2.
Proof. exact canonical_tree_unique. Qed.

(* exported to C01: the expression parser never runs out of its fuel (2 * tokens + 4), and never
   reaches a Go fault point on a token stream shaped as the lexer shapes it *)
Theorem C02_parse_expr_total : forall fok prec st, parse_expr fok prec st <> PFuel.
Proof. exact parse_expr_total. Qed.

Theorem C02_parse_expr_no_crash :
  forall fok prec st, long_ok (toks st) = true -> parse_expr fok prec st <> PCrash.
Proof. exact parse_expr_no_crash. Qed.

(* Numeric literals keep their exact value: for a literal the lexer can produce (decimal digits, or
   hex digits behind 0x / 0X) with magnitude u, ParseInteger returns u when u < 2^63, -2^63 when
   u = 2^63 directly behind a unary minus, and fails otherwise. *)
Theorem C02_int_literal_exact :
  forall negated l base digits,
    int_split l = (base, digits) -> 1 <= base -> digits <> [] -> forallb (digit_ok base) digits = true ->
    let u := digits_value base 0 digits in
    conv_integer negated l =
      if u <? two63 then Some (Z.of_N u)
      else if (u =? two63) && negated then Some (- Z.of_N two63)%Z
      else None.
Proof. exact int_literal_exact. Qed.

(* %XX / %uXXXX / %u{...} escapes decode only in double-quoted strings: any other STRING token is
   taken verbatim, in particular the body of a long string of a lexer-shaped stream *)
Theorem C02_escape_only_in_dquote :
  forall st, (off (cur st) =? 2) = false -> pstring st = POK (lit (cur st)).
Proof. exact escape_only_in_dquote. Qed.

Theorem C02_long_string_raw :
  forall st o s c v st',
    typ (cur st) = T_OPEN_LONG_STRING -> long_ok (toks st) = true ->
    plong st = POK (o, s, c, v, st') -> v = lit s /\ s = peek st.
Proof. exact long_string_raw. Qed.

(* decodeStringEscapes leaves text without `%`, NUL and non-ASCII bytes unchanged *)
Theorem C02_decode_escapes_plain :
  forall s, forallb plain s = true -> decode_escapes s = POK s.
Proof. exact decode_escapes_plain. Qed.

(* ... and the whole parser: every entry point, EVERY token list.  The fuel is S (tokens) for the
   top-level loops, 4 * tokens + 8 for nested statements / backend properties, 2 * tokens + 4 for
   expressions, S (tokens left) for the flat loops.  [long_ok ts]: the STRING token behind an
   OPEN_LONG_STRING is not of the double-quoted kind (the lexer gives it Offset >= 4); it excludes
   the only reachable fault point of the parser, `str.LongString = true` on a nil str.  The other
   fault point of the model, `lc.Statements[len(lc.Statements)-1]` in ParseSwitchStatement, is
   proved unreachable (a case clause accepted by ParseCaseStatement ends in break; / fallthrough;). *)
Theorem C02_parse_total : forall fok ts, parse_vcl_or_snippet fok ts <> PFuel.
Proof. exact parse_total. Qed.
Theorem C02_parse_no_crash :
  forall fok ts, long_ok ts = true -> parse_vcl_or_snippet fok ts <> PCrash.
Proof. exact parse_no_crash. Qed.
Theorem C02_parse_vcl_total : forall fok ts, parse_vcl fok ts <> PFuel.
Proof. exact parse_vcl_total. Qed.
Theorem C02_parse_vcl_no_crash : forall fok ts, long_ok ts = true -> parse_vcl fok ts <> PCrash.
Proof. exact parse_vcl_no_crash. Qed.
Theorem C02_parse_snippet_total : forall fok ts, parse_snippet fok ts <> PFuel.
Proof. exact parse_snippet_total. Qed.
Theorem C02_parse_snippet_no_crash : forall fok ts, long_ok ts = true -> parse_snippet fok ts <> PCrash.
Proof. exact parse_snippet_no_crash. Qed.

(* parse_error_located: the token of EVERY *ParseError the model returns is the token of the input at
   the reported index (length ts - rem, within [0, length ts)), or the EOF token behind the input.
   [located ts t rem := t = eof_tok \/ (1 <= rem <= length ts /\ nth_error ts (length ts - rem) = Some t)].
   (The index is compared with the Go parser's error token on every run.) *)
Theorem C02_parse_error_located :
  forall fok ts k t rem, parse_vcl_or_snippet fok ts = PErr k t rem -> located ts t rem.
Proof. exact parse_error_located. Qed.
Theorem C02_parse_vcl_error_located :
  forall fok ts k t rem, parse_vcl fok ts = PErr k t rem -> located ts t rem.
Proof. exact parse_vcl_error_located. Qed.
Theorem C02_parse_snippet_error_located :
  forall fok ts k t rem, parse_snippet fok ts = PErr k t rem -> located ts t rem.
Proof. exact parse_snippet_error_located. Qed.
Theorem C02_parse_expression_error_located :
  forall fok ts k t rem, parse_expression fok ts = PErr k t rem -> located ts t rem.
Proof. exact parse_expression_error_located. Qed.

(* program_roundtrip (M2): uniqueness of parse for statements and declarations.  For every canonical
   program [cprog ds] - a list of canonical declarations of EVERY kind (acl with negation, long-string
   address and mask; backend with nested .probe; director with properties and backend objects; table
   with optional type and optional last comma; sub with parameters and return type; penaltybox;
   ratecounter; import; include) whose blocks hold canonical statements of EVERY kind at any nesting
   depth (set add unset remove declare call-with-arguments error return log synthetic
   synthetic.base64 goto label include esi restart block function-call, if / else if / elseif / elsif /
   else chains, switch with case "s" / case ~ "re" / default clauses ending in break; or fallthrough;)
   with canonical expressions - ParseVCL on the tokens of the program returns exactly the program.
   Statement-level follow conditions are part of [cstmt s nx] (a label is not followed by `(`, an
   include without `;` not by `;`, an if without else not by else / elseif / elsif); the switch
   bookkeeping (default index, no duplicate case, one default, last clause not fallthrough) is [book] /
   [last_case_breaks].  Witness: ex_prog in Proofs/ParseProgram5.v (canonical, and parses back). *)
Theorem C02_program_roundtrip :
  forall fok ds, cprog fok ds -> parse_vcl fok (flat_map ystmt ds) = POK (Vcl ds false).
Proof. exact program_roundtrip. Qed.

(* Snippets (ParseSnippetVCL): the flattened tokens of a canonical statement list, followed by the EOF
   token, parse back to exactly that list.  [csnip]: every statement canonical ([cstmt], which since
   round 5 lets `break;` / `fallthrough;` stand anywhere in a case body, not only last - the same
   holds for C02_program_roundtrip), the list ends with the EOF token.  Witness: ex_snippet (a
   top-level switch with a mid-body break), Proofs/ParseProgram6.v. *)
Theorem C02_snippet_roundtrip :
  forall fok ss, csnip fok ss -> parse_snippet fok (flat_map ystmt ss) = POK (Vcl ss true).
Proof. exact snippet_roundtrip. Qed.

(* `-9223372036854775808`: the INT literal 2^63 under a unary minus is the one integer literal that is
   only valid there; the prefix parser hands the sign to the literal conversion.  Witness: ex_int_min. *)
Theorem C02_int_min_roundtrip :
  forall fok op t p pv rest,
    typ op = T_MINUS -> typ t = T_INT ->
    conv_integer true (lit t) = Some (- Z.of_N two63)%Z ->
    stops 8 rest = true -> stops p rest = true ->
    parse_expr fok p (St pv (op :: t :: rest))
    = POK (EPrefix op (EInt t (- Z.of_N two63)%Z), St (Some op) (t :: rest)).
Proof. exact int_min_roundtrip. Qed.

(* T tie of the first-token dispatch: Gen/ParserDispatch.v is regenerated on every run from the switch
   statements of ParseStatement, ParseSnippetVCL and Parse; for EVERY token type the model runs the
   function standing for the method the Go switch selects ([run_method]), and the default error for
   the token types without a case.  Witness: ex_dispatch_set. *)
Theorem C02_statement_dispatch :
  forall fok n st0,
    pstmt fok (S n) st0 = dispatch fok statement_dispatch n (err_cur E_unexpected (next st0)) (next st0).
Proof. exact pstmt_dispatch. Qed.
Theorem C02_snippet_dispatch :
  forall fok st,
    snippet_stmt fok st =
    pbind (dispatch fok snippet_dispatch (stmt_fuel st) (err_peek E_unexpected st) st)
          (fun '(s, st1) => POK (s, next st1)).
Proof. exact snippet_stmt_dispatch. Qed.
Theorem C02_declaration_dispatch :
  forall fok st,
    parse_decl fok st =
    pbind (dispatch fok declaration_dispatch 0 (err_cur E_unexpected st) st)
          (fun '(d, st1) => POK (d, next st1)).
Proof. exact parse_decl_dispatch. Qed.

(* ------------------------------------------------------------------------------------------------
   AUXILIARY FACTS ABOUT Parser.ReadPeek AND COMMENT ATTACHMENT.
   NOT part of C02's statement (C02 speaks of declarations, statements, expressions, identifiers,
   operators, literal values and grouping; it demands nothing about where comments are kept).
   What C02 needs from ReadPeek is [C02_read_peek_tokens]: the token component of what the parser
   reads is the significant stream, i.e. white space and comment placement cannot change the tree -
   every theorem above is about that stream.  The remaining facts describe the model
   Model/ParseComments.v (Leading comments with PrefixedLineFeed / PreviousEmptyLines, Nest,
   PreviousEmptyLines; Parser.Trailing) and are used by C09 / C15; the model is tied to the code by
   the decorated-stream correspondence of checks/c02.py.
   Witnesses: ex_read_peek, ex_attached, ex_split_trailing (Proofs/ParseCommentsProofs.v). *)
Theorem C02_read_peek_tokens :
  forall raw, map dtk (read_peek_stream raw) = signif false raw.
Proof. exact (fun raw => decorate_tokens raw 0%Z rp0 false). Qed.
Theorem C02_aux_read_peek_nest :
  forall raw, map dnest (read_peek_stream raw) = nests 0 (signif false raw).
Proof. exact (fun raw => decorate_nest raw 0%Z rp0 false). Qed.
(* every comment token ReadPeek sees is in exactly one Leading list, in source order *)
Theorem C02_aux_read_peek_comments_in_order :
  forall raw, has_eof raw = true -> attached (read_peek_stream raw) = visible_comments false raw.
Proof. exact comments_attached_once_in_order. Qed.
Theorem C02_aux_read_peek_comments_in_order_nopragma :
  forall raw, has_eof raw = true -> has_pragma raw = false ->
    attached (read_peek_stream raw) = all_comments raw.
Proof. exact comments_attached_once_in_order_nopragma. Qed.
(* a fact about the model (and the code): comment tokens inside `pragma ... ;` are discarded with the
   rest of the pragma, so "visible" above cannot be replaced by "all" *)
Theorem C02_model_pragma_comments_discarded :
  exists raw, has_eof raw = true /\ attached (read_peek_stream raw) <> all_comments raw.
Proof. exact comments_attached_once_in_order_refuted. Qed.
Theorem C02_aux_trailing_split :
  forall l, fst (split_trailing l) ++ snd (split_trailing l) = l.
Proof. exact split_trailing_app. Qed.

Print Assumptions C02_tables_are_documented.
Print Assumptions C02_parse_expr_yield.
Print Assumptions C02_parse_stmt_yield.
Print Assumptions C02_parse_decl_yield.
Print Assumptions C02_parse_yield.
Print Assumptions C02_parse_snippet_yield.
Print Assumptions C02_pratt_roundtrip.
Print Assumptions C02_parse_expression_roundtrip.
Print Assumptions C02_canonical_tree_unique.
Print Assumptions C02_parse_expr_total.
Print Assumptions C02_parse_expr_no_crash.
Print Assumptions C02_int_literal_exact.
Print Assumptions C02_escape_only_in_dquote.
Print Assumptions C02_long_string_raw.
Print Assumptions C02_decode_escapes_plain.
Print Assumptions C02_parse_total.
Print Assumptions C02_parse_no_crash.
Print Assumptions C02_parse_vcl_total.
Print Assumptions C02_parse_vcl_no_crash.
Print Assumptions C02_parse_snippet_total.
Print Assumptions C02_parse_snippet_no_crash.
Print Assumptions C02_parse_error_located.
Print Assumptions C02_parse_vcl_error_located.
Print Assumptions C02_parse_snippet_error_located.
Print Assumptions C02_parse_expression_error_located.
Print Assumptions C02_program_roundtrip.
Print Assumptions C02_snippet_roundtrip.
Print Assumptions C02_int_min_roundtrip.
Print Assumptions C02_statement_dispatch.
Print Assumptions C02_snippet_dispatch.
Print Assumptions C02_declaration_dispatch.
Print Assumptions C02_read_peek_tokens.
Print Assumptions C02_aux_read_peek_nest.
Print Assumptions C02_aux_read_peek_comments_in_order.
Print Assumptions C02_aux_read_peek_comments_in_order_nopragma.
Print Assumptions C02_model_pragma_comments_discarded.
Print Assumptions C02_aux_trailing_split.
