(* C02 - The parser builds the tree the VCL grammar and precedence table dictate.
   Only the property theorems (closed by [exact]) and their Print Assumptions; the model is
   Model/Parse*.v, the proofs are in Proofs/Parse*.v. *)
From Coq Require Import List NArith ZArith.
From Falco Require Import Base.Bytes Gen.TokenTypes Model.ParseKinds Gen.ParserTables
  Model.ParseBase Model.Ast Model.ParseLit Model.ParseExpr Model.ParseStmt Model.ParseDecl
  Proofs.ParseTables.
Import ListNotations.

(* T tie: the precedence table, the prefix / infix / postfix registrations (with the explicit
   flag of the concatenation closures), the assignment operators and the declaration keywords
   regenerated from the Go sources are the documented ones, for EVERY token type. *)
Theorem C02_tables_are_documented :
  (forall t : ttype,
      type_prec t = doc_prec t
      /\ assoc t prefix_parsers = doc_prefix t
      /\ assoc t infix_parsers = doc_infix t
      /\ assoc t postfix_parsers = doc_postfix t
      /\ mem t assignment_operators = doc_assignment t
      /\ mem t declaration_tokens = doc_declaration t)
  /\ P_LOWEST = D_LOWEST /\ P_PREFIX = D_PREFIX /\ P_POSTFIX = D_POSTFIX /\ P_CALL = D_CALL.
Proof. exact tables_are_documented. Qed.

Print Assumptions C02_tables_are_documented.
