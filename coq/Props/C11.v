(* C11 - Linting is total and deterministic.
   Only the property theorems (closed by [exact]) and their Print Assumptions.
   Models: Model/Include.v (include expansion of the linter, repaired with the include stack),
   Model/ScopeInfer.v (detectRecursion, inferSubroutineScopes, the map-ordered report passes);
   every Go `range` over a map takes its key order as an argument. *)
From Coq Require Import List Arith NArith Permutation.
From Falco Require Import Base.Res Gen.InferScopes Model.Include Model.ScopeInfer
  Proofs.IncludeTotal Proofs.ScopeInferLfp Proofs.ScopeInferTerm Proofs.DetectOrder Proofs.InferMain
  Proofs.DeclPerm Proofs.DetectSpec Gen.MapRanges Model.LintMapRanges Proofs.MapPasses Proofs.ScopeRules Gen.ContextState Model.LintContextState.
Import ListNotations.

(* Include expansion terminates within (number of module files + 1) nested calls on EVERY module
   graph - missing, unparsable, self-including, mutually including - and never faults. *)
Theorem C11_include_total :
  forall (g : modgraph) (mods : list nat),
    (forall m, g m <> Missing -> In m mods) ->
    forall items : list item,
    resolve (S (length mods)) g [] items <> OutOfFuel /\
    resolve (S (length mods)) g [] items <> Crash.
Proof. exact include_total. Qed.

(* ... and a cycle ends in a reported error ([occ m]: include of m at any block nesting depth) *)
Theorem C11_include_cycle_reported :
  forall (g : modgraph) fuel m body evs,
    g m = Loaded body -> existsb (occ m) body = true ->
    resolve fuel g [] [Inc m] = OK evs -> In (ECycle m) evs.
Proof. exact include_cycle_reported. Qed.

(* the code before the repair (no include stack) exhausts every fuel on a self-including module *)
Theorem C11_include_unrepaired_refuted :
  exists g items, forall fuel, resolve_unrepaired fuel g items = OutOfFuel.
Proof. exact include_unrepaired_refuted. Qed.

(* T tie: ten single-bit scope constants (regenerated from linter/context/scope.go), the
   fastlyScopes table of scope_inference.go maps ten distinct names into them *)
Theorem C11_scope_constants :
  popcount all_scopes = 10 /\ length scope_consts = 10 /\ NoDup scope_consts /\
  Forall (fun c => popcount c = 1) scope_consts /\
  Forall (fun kv => In (snd kv) scope_consts) fastly_scopes /\
  NoDup (map fst fastly_scopes) /\ length fastly_scopes = 10.
Proof. exact scope_constants. Qed.

Theorem C11_scope_rule_tables : scope_rule_tables_statement.
Proof. exact scope_rule_tables. Qed.

(* Scope propagation stops after at most 10 * |subroutines| changing rounds, for every key order
   the runtime may pick in every round (orders), every call graph, every initial scopes within
   the ten scope bits. *)
Theorem C11_infer_terminates :
  forall (present explicit : name -> bool) (callees : name -> list name) (subs : list name),
    NoDup subs -> (forall n, present n = true <-> In n subs) ->
    forall (orders : nat -> list name) (s0 : state),
      (forall n, In n subs -> sub (s0 n) all_scopes) ->
      exists r, infer present explicit callees (S (10 * length subs)) orders 0 s0 = OK r.
Proof. exact infer_terminates_scopes. Qed.

(* The inferred scopes are the least fixpoint of the propagation constraints above the initial
   scopes, hence the same for any two choices of key orders. *)
Theorem C11_infer_lfp_order_free :
  forall (present explicit : name -> bool) (callees : name -> list name) (subs : list name),
    NoDup subs -> (forall n, present n = true <-> In n subs) ->
    forall (orders orders' : nat -> list name) (s0 : state),
      (forall j, covers callees (orders j)) -> (forall j, covers callees (orders' j)) ->
      (forall n, In n subs -> sub (s0 n) all_scopes) ->
      exists r r',
        infer present explicit callees (S (10 * length subs)) orders 0 s0 = OK r /\
        infer present explicit callees (S (10 * length subs)) orders' 0 s0 = OK r' /\
        (forall n, r n = r' n) /\ is_lfp present explicit callees s0 r.
Proof. exact infer_lfp_order_free. Qed.

(* detectRecursion terminates (depth <= number of nodes) and the names it writes into inCycle are
   the same multiset / set for every enumeration order of the call-graph keys *)
Theorem C11_cycle_set_order_free :
  forall (callees : name -> list name) (nodes : list name),
    (forall n, In n nodes -> incl (callees n) nodes) ->
    forall order order', Permutation order order' -> incl order nodes ->
    exists w w', detect callees (S (length nodes)) order = OK w /\
                 detect callees (S (length nodes)) order' = OK w' /\
                 Permutation w w' /\ (forall n, In n w <-> In n w').
Proof. exact cycle_set_order_free. Qed.

(* WHAT detectRecursion computes: for every enumeration order of the keys, the names written into inCycle
   all reach a cycle of the call graph, every enumerated start name that reaches a cycle is written, and when
   the order covers every name that has callees (the keys of graph) the written set is exactly
   { f | f reaches a cycle }.  [reaches_cycle callees f] = exists c, f ->* c /\ c ->+ c. *)
Theorem C11_detect_spec :
  forall (callees : name -> list name) (nodes order : list name),
    (forall n, In n nodes -> incl (callees n) nodes) -> incl order nodes ->
    exists w, detect callees (S (length nodes)) order = OK w /\
      (forall f, In f w -> reaches_cycle callees f) /\
      (forall s, In s order -> reaches_cycle callees s -> In s w) /\
      ((forall f, callees f <> [] -> In f order) -> forall f, In f w <-> reaches_cycle callees f).
Proof. exact detect_spec. Qed.

(* ... which is NOT "lies on a cycle" (the message says "is involved in recursive call"): a subroutine that
   merely calls a recursive one is reported too *)
Theorem C11_detect_on_cycle_refuted :
  exists callees order w f, detect callees 3 order = OK w /\ In f w /\ ~ on_cycle callees f.
Proof. exact detect_on_cycle_refuted. Qed.

(* T tie: the `for ... range <map>` loops of linter/ (go/types), regenerated on every run, are exactly the
   audited ones; each has one of the four shapes of Model/ScopeInfer.v, and each shape is proved order free:
   Report (C11_unused_multiset_order_free), Pointwise (C11_pointwise_order_free), DfsStarts
   (C11_cycle_set_order_free / C11_detect_spec), FixpointRound (C11_infer_lfp_order_free).  A new map-ordered
   loop breaks this by name. *)
Theorem C11_map_ranges_audited : map_ranges = map fst audited_ranges.
Proof. reflexivity. Qed.

(* T tie: the mutable state of the linter context.  The fields of context.Context and the fields every method
   writes (go/types, transitively through Context method calls) are regenerated on every run; the audited
   classification of every field is CHECKED against them: the scope-entering methods are exactly Scope and
   UserDefinedFunctionScope; every ResetOnEntry field (the re.group.N counters) is reset by EVERY scope-entering
   method; every PerSubroutine field is reset by Restore or by lintSubRoutineDeclaration; ReadOnly fields are never
   written; root registries are not touched by scope entry / exit.  A field that is no longer reset on one entry
   path, a new field or a new scope-entering method breaks this by name. *)
Theorem C11_context_state_audited :
  map fst audited_fields = context_fields /\
  entry_methods = expected_entry_methods /\
  forallb class_ok audited_fields = true.
Proof. split; [reflexivity | split; reflexivity]. Qed.

(* the initialisation loops of inferSubroutineScopes: every iteration rewrites only its own entry *)
Theorem C11_pointwise_order_free :
  forall (g : name -> N -> N) order order' (s : state),
    NoDup order -> Permutation order order' ->
    forall n, pointwise_pass g order s n = pointwise_pass g order' s n.
Proof. exact pointwise_order_free. Qed.

(* the map-ordered report passes (lintUnused*, the report loop of detectRecursion) yield the same
   multiset of diagnostics for every key order *)
Theorem C11_unused_multiset_order_free :
  forall (D : Type) (report : name -> option D) order order',
    Permutation order order' -> Permutation (unused D report order) (unused D report order').
Proof. exact unused_multiset_order_free. Qed.

(* Permuting the subroutine declarations does not change the inferred scopes (for any key orders),
   PROVIDED declarations of the same name agree on their explicit scope ([consistent]); registration
   (first non-Fastly duplicate wins, Fastly names overwrite), buildCallGraph (callees of all
   declarations of a name) and the initial scopes are those of Model/ScopeInfer.v. *)
Theorem C11_infer_decl_permutation :
  forall ds ds' : list decl, Permutation ds ds' -> consistent ds ->
  forall fuel fuel' orders orders' r r',
    (forall j, covers (lookup_callees (build_graph ds [])) (orders j)) ->
    (forall j, covers (lookup_callees (build_graph ds' [])) (orders' j)) ->
    infer (is_present (register ds [])) (is_explicit (register ds [])) (lookup_callees (build_graph ds []))
          fuel orders 0 (init_state (register ds [])) = OK r ->
    infer (is_present (register ds' [])) (is_explicit (register ds' [])) (lookup_callees (build_graph ds' []))
          fuel' orders' 0 (init_state (register ds' [])) = OK r' ->
    forall n, r n = r' n.
Proof. exact infer_decl_permutation. Qed.

(* KNOWN FINDING (known_findings.txt, dup_user_sub_differs): without [consistent] the order of two
   declarations of the same non-Fastly name is observable *)
Theorem C11_decl_permutation_refuted :
  exists ds ds', Permutation ds ds' /\
    infer_program 10 ds (fun _ k => k) <> infer_program 10 ds' (fun _ k => k).
Proof. exact decl_permutation_refuted. Qed.

Print Assumptions C11_infer_decl_permutation.
Print Assumptions C11_decl_permutation_refuted.
Print Assumptions C11_scope_rule_tables.
Print Assumptions C11_context_state_audited.
Print Assumptions C11_map_ranges_audited.
Print Assumptions C11_pointwise_order_free.
Print Assumptions C11_detect_spec.
Print Assumptions C11_detect_on_cycle_refuted.
Print Assumptions C11_include_total.
Print Assumptions C11_include_cycle_reported.
Print Assumptions C11_include_unrepaired_refuted.
Print Assumptions C11_scope_constants.
Print Assumptions C11_infer_terminates.
Print Assumptions C11_infer_lfp_order_free.
Print Assumptions C11_cycle_set_order_free.
Print Assumptions C11_unused_multiset_order_free.
