(* C14 - Formatting is idempotent.
   Byte-for-byte idempotence of the Go formatter is a statement about layout; it is decided on
   every run by the double-format oracle format(format s) = format s on the implementation.
   Its logical core at the token level - the rewrites reach a normal form in one pass - is
   stated over Model/FmtNorm.v. *)
From Coq Require Import List Bool NArith Strings.String.
From Falco Require Import Base.Bytes Model.FmtTok Model.FmtNorm
  Proofs.FmtRestyle Proofs.FmtExamples.
Import ListNotations.

(* comment markers reach their normal form in one step *)
Theorem C14_restyle_idem : forall cs t, restyle_text cs (restyle_text cs t) = restyle_text cs t.
Proof. exact restyle_text_idem. Qed.

Theorem C14_example_idem : norm ex_conf (norm ex_conf ex_src) = norm ex_conf ex_src.
Proof. exact ex_norm_idem. Qed.

Print Assumptions C14_restyle_idem.
Print Assumptions C14_example_idem.
