(* C14 - Formatting is idempotent.
   Byte-for-byte idempotence of the Go formatter is a statement about layout; it is decided on
   every run by the double-format oracle format(format s) = format s on the implementation.
   Its logical core at the token level - one application of the rewrites (and of the declaration
   sort) reaches a normal form - is PROVED here over Model/FmtNorm.v for EVERY configuration and
   EVERY token stream (also unbalanced / meaningless ones).

   Not covered by the theorem: layout (blanks, line feeds, indentation, alignment, line breaking:
   the byte-level property) and sort_declaration_property, which are outside the token model.  The
   model is tied to the real formatter on every run (tokens(format c src) = norm c (tokens src)),
   and is additionally evaluated twice on every correspondence input. *)
From Coq Require Import List Bool NArith Strings.String.
From Falco Require Import Base.Bytes Model.FmtTok Model.FmtNorm
  Proofs.FmtRestyle Proofs.FmtSort Proofs.FmtExamples
  Proofs.FmtIdem1 Proofs.FmtIdem2 Proofs.FmtIdem4 Proofs.FmtIdem5 Proofs.FmtIdem7.
From Falco Require Model.Ast Proofs.FmtTreeExpr Proofs.FmtTreeNorm Proofs.ParseProgram3 Proofs.ParseProgram5 Proofs.FmtTreeProgram Proofs.FmtExamples.
Import ListNotations.

(* every configuration (sort_declaration included), every token stream *)
Theorem C14_norm_idem : forall c ts, norm c (norm c ts) = norm c ts.
Proof. exact norm_idem. Qed.

(* the rewrite pass run over its own output changes nothing: from ANY pair of related states
   (in particular from the initial state), whatever comments were pending *)
Theorem C14_run_idem :
  forall c its si so carry out tl,
  inv si -> rel si so -> (is_fresh si so -> pe si = false) ->
  (is_fresh si so -> nk_is (head_kind its) KLParen = false) ->
  run c si carry its = (out, tl) -> run c so [] out = (out, []).
Proof. exact run_replay. Qed.

(* Declarations.Sort applied to its own result changes nothing *)
Theorem C14_sort_idem : forall gs, sort_groups (sort_groups gs) = sort_groups gs.
Proof. exact sort_groups_idem. Qed.

(* comment markers reach their normal form in one step *)
Theorem C14_restyle_idem : forall cs t, restyle_text cs (restyle_text cs t) = restyle_text cs t.
Proof. exact restyle_text_idem. Qed.

(* non-vacuity, with sorting on: a stream on which every rewrite fires *)
Theorem C14_example_idem : norm ex_conf (norm ex_conf ex_src) = norm ex_conf ex_src.
Proof. exact ex_norm_idem. Qed.

(* tree level (parser model of C02, Proofs/FmtTreeNorm.v): the documented normalisation is idempotent - on expressions
   and return values for every tree, on statements / blocks / chains / case lists and on whole programs for every
   canonical one (the image of the parser, C02_program_roundtrip), by induction over the canonicity derivation *)
Theorem C14_tree_expr_idem :
  forall c e, FmtTreeNorm.nexpr c (FmtTreeNorm.nexpr c e) = FmtTreeNorm.nexpr c e.
Proof. exact FmtTreeProgram.nexpr_idem. Qed.

Theorem C14_tree_return_idem :
  forall c fn v, FmtTreeNorm.nret c fn (FmtTreeNorm.nret c fn v) = FmtTreeNorm.nret c fn v.
Proof. exact FmtTreeProgram.nret_idem. Qed.

Theorem C14_tree_stmt_idem :
  forall c fok s nx, ParseProgram3.cstmt fok s nx -> forall fn,
    FmtTreeNorm.nstmt c fn (FmtTreeNorm.nstmt c fn s) = FmtTreeNorm.nstmt c fn s.
Proof. exact (fun c fok => proj1 (FmtTreeProgram.norm_fixed_point c fok)). Qed.

Theorem C14_tree_idem :
  forall c fok ds, ParseProgram5.cprog fok ds ->
    FmtTreeNorm.norm_vcl c (FmtTreeNorm.norm_vcl c (Ast.Vcl ds false)) = FmtTreeNorm.norm_vcl c (Ast.Vcl ds false).
Proof. exact FmtTreeProgram.tree_idem. Qed.

(* non-vacuity: the witness program of C02 under a configuration where every rewrite applies *)
Theorem C14_tree_idem_example :
  FmtTreeNorm.norm_vcl FmtExamples.ex_conf (FmtTreeNorm.norm_vcl FmtExamples.ex_conf (Ast.Vcl ParseProgram5.ex_prog false))
  = FmtTreeNorm.norm_vcl FmtExamples.ex_conf (Ast.Vcl ParseProgram5.ex_prog false).
Proof. exact FmtTreeProgram.ex_prog_tree_idem. Qed.

Print Assumptions C14_tree_expr_idem.
Print Assumptions C14_tree_return_idem.
Print Assumptions C14_tree_stmt_idem.
Print Assumptions C14_tree_idem.
Print Assumptions C14_tree_idem_example.
Print Assumptions C14_norm_idem.
Print Assumptions C14_run_idem.
Print Assumptions C14_sort_idem.
Print Assumptions C14_restyle_idem.
Print Assumptions C14_example_idem.
