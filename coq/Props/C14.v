(* C14 - Formatting is idempotent.
   Byte-for-byte idempotence of the Go formatter is a statement about layout; it is decided on
   every run by the double-format oracle format(format s) = format s on the implementation.
   Its logical core at the token level - one pass of the rewrites reaches a normal form - is
   proved here over Model/FmtNorm.v for EVERY token stream (also unbalanced / meaningless ones).

   Partial: with sort_declaration = true the theorem is not proved (the pass is proved to be
   idempotent from any reachable state - C14_run_idem - and the sort to be a permutation, but
   re-splitting the sorted stream into the same declarations is not); sort_declaration_property
   and all layout options are outside the model.  The extracted model is evaluated twice on every
   correspondence input of every run, sorted or not (evidence: model_norm_twice_evaluated), and was
   enumerated over all streams of length <= 3 over a 25-symbol alphabet x 64 configurations. *)
From Coq Require Import List Bool NArith Strings.String.
From Falco Require Import Base.Bytes Model.FmtTok Model.FmtNorm
  Proofs.FmtRestyle Proofs.FmtExamples Proofs.FmtIdem1 Proofs.FmtIdem2 Proofs.FmtIdem4 Proofs.FmtIdem5.
Import ListNotations.

(* every configuration that does not sort declarations, every token stream *)
Theorem C14_norm_idem_partial :
  forall c ts, sort_declaration c = false -> norm c (norm c ts) = norm c ts.
Proof. exact norm_idem_unsorted. Qed.

(* the rewrite pass run over its own output changes nothing: from ANY pair of related states
   (in particular from the initial state), whatever comments were pending *)
Theorem C14_run_idem :
  forall c its si so carry out tl,
  inv si -> rel si so -> (is_fresh si so -> pe si = false) ->
  (is_fresh si so -> nk_is (head_kind its) KLParen = false) ->
  run c si carry its = (out, tl) -> run c so [] out = (out, []).
Proof. exact run_replay. Qed.

(* comment markers reach their normal form in one step *)
Theorem C14_restyle_idem : forall cs t, restyle_text cs (restyle_text cs t) = restyle_text cs t.
Proof. exact restyle_text_idem. Qed.

(* non-vacuity, with sorting on: a stream on which every rewrite fires *)
Theorem C14_example_idem : norm ex_conf (norm ex_conf ex_src) = norm ex_conf ex_src.
Proof. exact ex_norm_idem. Qed.

Print Assumptions C14_norm_idem_partial.
Print Assumptions C14_run_idem.
Print Assumptions C14_restyle_idem.
Print Assumptions C14_example_idem.
