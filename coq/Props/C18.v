(* C18 - Concurrent requests and concurrent lint plugins are serialisable.
   Only the property theorems (closed by [exact]) and their Print Assumptions.
   Model: Model/Sched.v (threads = lists of atomic steps over one shared state, one mutex, a schedule
   = any interleaving on which [exec] is defined, i.e. that respects the lock).  Proofs: Proofs/Sched*.v.

   PARTIAL with respect to the property text: the clause "no data race occurs" is a statement about
   the Go memory model, which this model cannot express (every step is atomic here).  It is covered
   only by the shape facts regenerated from the Go AST (Gen/SchedShape.v) and by the race detector
   in the differential run; it is not proved. *)
From Coq Require Import String List Arith Bool Permutation.
From Falco Require Import Base.Res Base.SMBase Model.SM.
From Falco Require Import Gen.SchedShape Proofs.SchedProofs Proofs.SchedSerial Proofs.SchedPlugins Proofs.SchedCollect
  Proofs.SchedRequests Proofs.SchedTwo Proofs.SchedShapeFacts.
From Falco Require Import Model.Sched.
Import ListNotations.

(* any number of requests, any bodies (sequences of atomic accesses to the shared state and of
   response computations), any lock-respecting schedule: final state and every response equal those
   of the one-at-a-time schedule in lock-acquisition order, which is itself lock-respecting *)
Theorem C18_locked_serialisable :
  forall (S R : Type) (bodies : list (list (step S R))) (s0 : S) sched c,
  Forall (fun b => forallb is_body_step b = true) bodies ->
  respects_lock (map handler bodies) s0 sched c ->
  exists perm c',
    perm = acq c /\ Permutation perm (seq 0 (length bodies)) /\
    respects_lock (map handler bodies) s0 (sequential (map handler bodies) perm) c' /\
    st c = st c' /\ forall i, i < length bodies -> resp c i = resp c' i.
Proof. exact locked_serialisable_sched. Qed.

(* THE FULL OUTCOME over the simulator's own state (C06's Model/SM.v): n requests (any oracles = any programs,
   any environments), each served by a handler `Acquire; request; Release` on the persistent state (cache, rate
   counter, penalty box).  For every lock-respecting interleaving: the persistent state left behind and the
   process report of every request are those of run_history on the requests in lock-acquisition order.
   (The remaining clause of the property, "no data race occurs", is about the Go memory model and is NOT a
   statement of this model: see the header.) *)
Theorem C18_requests_serialisable :
  forall (reqs : list (oracle * request)) (p0 : persistent) sched c,
  respects_lock (map handler (map request_body reqs)) p0 sched c ->
  Permutation (acq c) (seq 0 (length reqs)) /\
  exists rs, run_history (map (fun i => nth i reqs req0) (acq c)) p0 = OK (rs, st c) /\
             length rs = length reqs /\
             forall k i, nth_error (acq c) k = Some i -> resp c i = nth_error rs k.
Proof. exact requests_serialisable. Qed.

(* two simulators in one process (the conc2 batches): nothing modelled is shared - the translator finds no
   package-level variable written by the request path, ast.idCounter is atomic - so a joint interleaving is one
   interleaving per simulator and each ends as run_history of ITS requests in ITS lock-acquisition order *)
Theorem C18_two_simulators_serialisable :
  forall (reqs1 reqs2 : list (oracle * request)) (p1 p2 : persistent) sched c1 c2,
  exec2 persistent report sched (init (map handler (map request_body reqs1)) p1,
                                 init (map handler (map request_body reqs2)) p2) = Some (c1, c2) ->
  finished (length reqs1) c1 -> finished (length reqs2) c2 ->
  (exists rs, run_history (map (fun i => nth i reqs1 req0) (acq c1)) p1 = OK (rs, st c1) /\ length rs = length reqs1) /\
  (exists rs, run_history (map (fun i => nth i reqs2 req0) (acq c2)) p2 = OK (rs, st c2) /\ length rs = length reqs2).
Proof. exact two_simulators_serialisable. Qed.

(* the same against the functional one-at-a-time reference (what the differential run computes) *)
Theorem C18_locked_serialisable_ref :
  forall (S R : Type) (bodies : list (list (step S R))),
  Forall (fun b => forallb is_body_step b = true) bodies ->
  forall (s0 : S) sched c,
  respects_lock (map handler bodies) s0 sched c ->
  Permutation (acq c) (seq 0 (length bodies)) /\ lock c = None /\
  st c = seq_final (fun i => nth i bodies []) (acq c) s0 /\
  forall i, i < length bodies -> resp c i = seq_resp (fun i => nth i bodies []) (acq c) s0 i.
Proof. exact locked_serialisable. Qed.

(* plugin reporting as a corollary of serialisability, one thread per reported diagnostic: with the
   mutex around read-append-write every diagnostic is in the final list *)
Theorem C18_append_locked_complete :
  forall (D : Type) (ds : list D) sched c,
  respects_lock (reports D (report_locked D) ds) (astate0 D) sched c ->
  forall d, In d ds -> In d (fst (st c)).
Proof. exact append_locked_complete. Qed.

(* custom_linter.go as it collects now: goroutine idx fills results[idx] only, the slots are reported in
   annotation order after the join.  A plugin answers with its diagnostics or fails (not found, non-zero exit,
   timeout, unreadable answer = ONE failure diagnostic in its place).  Any number of plugins, any outcomes, any
   interleaving: what is reported is exactly flat_map diags outcomes - the diagnostics of the plugins that
   answered plus one failure per plugin that did not, in annotation order. *)
Theorem C18_plugins_collected_in_order :
  forall (D : Type) (os : list (outcome D)) sched c,
  exec sched (init (collect_threads D os) (slots0 D)) = Some c -> finished (length os) c ->
  collected D (length os) (st c) = flat_map (diags D) os.
Proof. exact plugins_collected_in_order. Qed.

(* the earlier design (every goroutine calls the locked Linter.Error itself), kept: completeness holds there
   too, the ORDER does not (it is the lock-acquisition order) *)
(* custom_linter.go before bba4c2f: plugin goroutine k reports the LIST nth k dss of diagnostics, one call of
   Linter.Error (Acquire; read; append-write; Release) per diagnostic, in program order; any number of
   plugins, any lists, every lock-respecting interleaving: every diagnostic of every plugin is in the
   final list.  Without the mutex (two plugins, two diagnostics each) one is lost. *)
Theorem C18_append_locked_complete_goroutines :
  forall (D : Type) (dss : list (list D)) sched c,
  respects_lock (plugin_threads D (report_locked D) dss) (astate0 D) sched c ->
  forall k d, In d (nth k dss []) -> In d (fst (st c)).
Proof. exact append_locked_complete_goroutines. Qed.

Theorem C18_append_unlocked_goroutines_refuted :
  exists (dss : list (list nat)) sched c,
    exec sched (init (plugin_threads nat (report_unlocked nat) dss) (astate0 nat)) = Some c /\
    finished (length dss) c /\ exists k d, In d (nth k dss []) /\ ~ In d (fst (st c)).
Proof. exact append_unlocked_goroutines_refuted. Qed.

(* without the mutex a diagnostic is lost (read, read, write, write) *)
Theorem C18_append_unlocked_refuted :
  exists (ds : list nat) sched c,
    exec sched (init (reports nat (report_unlocked nat) ds) (astate0 nat)) = Some c /\
    finished (length ds) c /\ exists d, In d ds /\ ~ In d (fst (st c)).
Proof. exact append_unlocked_refuted. Qed.

(* T tie: the shape the theorems rely on, regenerated from the Go AST on every run *)
Theorem C18_shape_facts :
  servehttp_lock_then_defer_unlock = true /\ servehttp_state_before_lock = [] /\
  servehttp_unlock_only_deferred = true /\ servehttp_no_go_stmt = true /\
  interpreter_lock_used_outside_servehttp = [] /\
  linter_error_locks_first = true /\ linter_errors_appended_outside_error = [] /\
  customlint_goroutines_call_error = false /\
  globals_written_after_init = ["interpreter/variable:injectedVariable@Inject"%string].
Proof. exact shape_facts. Qed.

Print Assumptions C18_locked_serialisable.
Print Assumptions C18_requests_serialisable.
Print Assumptions C18_two_simulators_serialisable.
Print Assumptions C18_locked_serialisable_ref.
Print Assumptions C18_plugins_collected_in_order.
Print Assumptions C18_append_locked_complete.
Print Assumptions C18_append_locked_complete_goroutines.
Print Assumptions C18_append_unlocked_goroutines_refuted.
Print Assumptions C18_append_unlocked_refuted.
Print Assumptions C18_shape_facts.
