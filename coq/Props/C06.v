(* C06 - Request processing follows the Fastly request state machine.
   Only the property theorems (closed by [exact]) and their Print Assumptions.
   Model: Model/SM.v (the simulator's Process* functions, restart, cache, report), Model/SMDoc.v (the
   documented machine doc_next, written independently of the code).  Proofs: Proofs/SM*.v.
   Quantifiers: [orc] = how each lifecycle subroutine ends as a function of req.restarts (any
   program), [p] = any state left by any earlier requests, [q] = clock, hash, backend behaviour. *)
From Coq Require Import List ZArith NArith Bool Arith.
From Falco Require Import Base.Res Base.SMBase Gen.SMConst Gen.ObsEdges Gen.SMKnown Model.SM Model.SMDoc
  Proofs.SMBasics Proofs.SMPath Proofs.SMCache Proofs.SMReport Proofs.SMHistory Proofs.SMEdges Proofs.SMSwitch Proofs.SMExamples Proofs.SMStatus Gen.SMSwitch.
Import ListNotations.

(* the flow of every request is a path of the documented machine and starts at vcl_recv with
   req.restarts = 0; consecutive entries are linked by doc_next (restart increments req.restarts) *)
Theorem C06_sm_path : forall orc p q rep p',
  run_request orc p q = OK (rep, p') -> is_path (r_trace rep) /\ starts_at_recv (r_trace rep).
Proof. exact sm_path. Qed.

(* restart re-enters vcl_recv at most MaxVarnishRestarts = 3 times (T: Gen/SMConst.v) *)
Theorem C06_restart_bound : forall orc p q rep p',
  run_request orc p q = OK (rep, p') -> r_restarts rep <= max_varnish_restarts.
Proof. exact run_request_restarts. Qed.

Theorem C06_max_restarts_is_3 : max_varnish_restarts = 3.
Proof. exact max_restarts_is_3. Qed.

(* the explicit fuel 7 * (MaxVarnishRestarts + 1) suffices: never OutOfFuel, never Crash *)
Theorem C06_sm_total : forall orc p q, exists rep p', run_request orc p q = OK (rep, p').
Proof. exact run_request_total. Qed.

Theorem C06_history_total : forall h p, exists rs p', run_history h p = OK (rs, p') /\ length rs = length h.
Proof. exact run_history_total. Qed.

(* no reported error => vcl_log ran exactly once, last, and ended with a documented action *)
Theorem C06_log_last_once : forall orc p q rep p',
  run_request orc p q = OK (rep, p') -> r_error rep = false ->
  (exists tr r a, r_trace rep = tr ++ [(DLog, r, a)] /\ doc_next DLog a = Some TEnd) /\
  count_log (r_trace rep) = 1.
Proof. exact log_last_once. Qed.

(* the lookup made by ProcessRecv, from ANY context and persistent state: vcl_hit runs next iff an
   unexpired object is stored under this round's request hash, else vcl_miss; no other step looks up *)
Theorem C06_hit_iff_stored : forall orc q c p c' p' n',
  process_recv orc q c p = (c', p', Goto n') -> n' = NHit \/ n' = NMiss ->
  (n' = NHit <-> stored_fresh (q_now q) (q_hash q (c_restarts c)) (p_cache p) = true).
Proof. exact recv_lookup. Qed.

Theorem C06_only_recv_looks_up : forall orc q n c p c' p' n',
  step orc q n c p = (c', p', Goto n') -> n' = NHit \/ n' = NMiss -> n = NRecv.
Proof. exact only_recv_looks_up. Qed.

(* never on the first request to a fresh simulator - unless that request itself fetched (and restarted) *)
Theorem C06_fresh_no_hit_before_fetch : forall orc q rep p',
  run_request orc init q = OK (rep, p') ->
  existsb is_fetch (r_trace rep) = false -> existsb is_hit (r_trace rep) = false.
Proof. exact fresh_no_hit_before_fetch. Qed.

(* the same at history level.  (1) After ANY history, the first lookup of the next request takes vcl_hit
   iff an unexpired object is stored under the request hash in the state that history left (with
   C06_persist: the state request k+1 is served from).  (2) On a fresh simulator no request of a history
   runs vcl_hit as long as no request has run vcl_fetch. *)
Theorem C06_history_hit_iff_stored : forall h p rs p1 orc q r p2,
  run_history h p = OK (rs, p1) -> run_request orc p1 q = OK (r, p2) -> looks_up_first orc ->
  (nth_error (r_trace r) 2 = Some (DHit, 0, orc Hit 0) <->
   stored_fresh (q_now q) (q_hash q 0) (p_cache p1) = true).
Proof. exact history_hit_iff_stored. Qed.

Theorem C06_history_no_hit_before_any_fetch : forall h p rs p',
  p_cache p = [] -> run_history h p = OK (rs, p') ->
  Forall (fun r => existsb is_fetch (r_trace r) = false) rs ->
  Forall (fun r => existsb is_hit (r_trace r) = false) rs /\ p_cache p' = [].
Proof. exact history_no_hit_before_any_fetch. Qed.

(* what is stored: a cacheable answer with positive TTL, fetched for a miss (not through vcl_pass) and
   accepted by vcl_fetch, is an unexpired object for every clock reading up to its expiry ... *)
Theorem C06_fetch_stores : forall orc q c p c' p' nx ttl,
  process_fetch orc q c p = (c', p', nx) -> c_pass c = false ->
  fetch_accepts (run_sub Fetch (c_restarts c) (orc Fetch (c_restarts c))) ->
  q_bresp q (c_restarts c) = Some (true, ttl) -> (0 < ttl)%Z ->
  forall now', (now' <= q_now q + ttl)%Z ->
  stored_fresh now' (q_hash q (c_restarts c)) (p_cache p') = true.
Proof. exact fetch_stores. Qed.

(* ... and nothing else is: a passed round, or vcl_fetch ending with pass / hit_for_pass / error / restart,
   leaves the cache alone; a request that never runs vcl_miss inserts no object at all *)
Theorem C06_fetch_does_not_store : forall orc q c p c' p' nx,
  process_fetch orc q c p = (c', p', nx) ->
  c_pass c = true \/ ~ fetch_accepts (run_sub Fetch (c_restarts c) (orc Fetch (c_restarts c))) ->
  p_cache p' = p_cache p.
Proof. exact fetch_does_not_store. Qed.

Theorem C06_no_miss_no_new_keys : forall orc p q rep p',
  run_request orc p q = OK (rep, p') -> existsb is_miss (r_trace rep) = false ->
  forall k, has k (p_cache p') = true -> has k (p_cache p) = true.
Proof. exact no_miss_no_new_keys. Qed.

(* the reported cached flag and X-Cache header are the branch the flow took last (HIT after vcl_hit,
   MISS after vcl_miss or a pass from vcl_recv); X-Cache-Hits is positive only on that HIT branch;
   a request without reported error has the header *)
Theorem C06_report_faithful : forall orc p q rep p',
  q_backend q = true ->
  run_request orc p q = OK (rep, p') ->
  (r_cached rep = true <-> last_branch (r_trace rep) XNone = XHit) /\
  (forall x, r_xcache rep = Some x -> x = last_branch (r_trace rep) XNone) /\
  (forall h, r_xhits rep = Some h -> 0 < h -> last_branch (r_trace rep) XNone = XHit) /\
  (r_error rep = false -> r_xcache rep <> None).
Proof. exact report_faithful. Qed.

(* the same for EVERY request of EVERY history (any state left by the earlier requests): cached / X-Cache /
   X-Cache-Hits say which branch the flow took last - HIT, MISS or a pass from vcl_recv, also when the request
   restarted or ended through vcl_error (examples: Proofs/SMStatus.v ex_error_status, ex_error_after_restarts) *)
Theorem C06_history_report_faithful : forall h p rs p',
  Forall (fun oq => q_backend (snd oq) = true) h ->
  run_history h p = OK (rs, p') -> Forall faithful rs.
Proof. exact history_report_faithful. Qed.

(* every request of every history that reports no error ran vcl_log exactly once and last; the endings with a
   reported error (restart beyond the limit, error statement outside its scopes, failure in vcl_error) run no
   vcl_log: ex_error_endings *)
Theorem C06_history_log_last_once : forall h p rs p',
  run_history h p = OK (rs, p') ->
  Forall (fun r => r_error r = false ->
                   (exists tr k a, r_trace r = tr ++ [(DLog, k, a)] /\ doc_next DLog a = Some TEnd) /\
                   count_log (r_trace r) = 1) rs.
Proof. exact history_log_last_once. Qed.

(* `error <code>` then deliver: the status the client sees is reported for the synthetic object of vcl_error
   only, and that object carries obj.status as the last `error <code>;` that passed its scope guard left it
   (any code, also < 200 or >= 600; 500 when no code was given) *)
Theorem C06_status_only_after_error : forall orc p q rep p' k,
  run_request orc p q = OK (rep, p') -> r_status rep = Some k -> existsb is_error (r_trace rep) = true.
Proof. exact status_only_after_error. Qed.

Theorem C06_error_object_status : forall orc q c p c' p' nx,
  process_error orc q c p = (c', p', nx) -> nx <> Goto NRecv -> c_errobj c' = Some (c_objstatus c).
Proof. exact error_object_status. Qed.

(* cache, rate counter and penalty box after request k are the inputs of request k+1 *)
Theorem C06_persist : forall h1 orc q h2 p rs p',
  run_history (h1 ++ (orc, q) :: h2) p = OK (rs, p') ->
  exists rs1 p1 r p2 rs2,
    run_history h1 p = OK (rs1, p1) /\ run_request orc p1 q = OK (r, p2) /\
    run_history h2 p2 = OK (rs2, p') /\ rs = rs1 ++ r :: rs2.
Proof. exact persist. Qed.

(* O tie - finite, exhaustive: the 360 (position, action, restarts-at-limit) cells of all_cells, each
   observed on the real interpreter (Gen/ObsEdges.v; AAbsent = the subroutine is not defined); equal to the documented machine except the
   recorded finding(s) of Gen/SMKnown.v, which are real; the model takes the observed edge on every cell *)
Theorem C06_obs_cells_complete : map fst obs_edges = all_cells /\ length all_cells = 360.
Proof. exact (conj obs_cells_complete all_cells_count). Qed.

Theorem C06_obs_edges_eq_doc : forall c o,
  In (c, o) obs_edges -> o = doc_outcome c \/ known_gap c = true.
Proof. exact obs_edges_eq_doc. Qed.

Theorem C06_miss_deliver_stale_refuted :
  In ((DMiss, ARet SDeliverStale, false), OErr) obs_edges /\
  doc_outcome (DMiss, ARet SDeliverStale, false) = OGo Deliver.
Proof. exact miss_deliver_stale_refuted. Qed.

Theorem C06_model_agrees_with_observed : forall c o, In (c, o) obs_edges -> model_outcome c = Some o.
Proof. exact model_agrees_with_observed. Qed.

(* T tie: scope guards of the restart / error statements and the linter's expects lists, regenerated
   from the Go sources, against the documented machine; both restart paths check the limit *)
Theorem C06_translated_tables :
  restart_stmt_checks_limit = true /\ restart_fn_checks_limit = true /\
  forallb (fun s => Bool.eqb (mem_scope s restart_stmt_scopes) (doc_allows s ARestartStmt) &&
                    Bool.eqb (mem_scope s error_stmt_scopes) (doc_allows s AErrorStmt)) all_scopes = true /\
  forallb (fun s => forallb (fun r =>
     Bool.eqb (mem_rstate r (lint_expects s)) (doc_allows s (ARet r) && negb (linter_omits s r))) all_rstates) all_scopes = true.
Proof. exact (conj (proj1 restart_guards) (conj (proj2 restart_guards) (conj stmt_scopes_eq_doc linter_expects_eq_doc))). Qed.

(* T tie on the transition relation itself: the `switch state` clauses, NONE defaults and hash/log guards of
   every Process* function, regenerated from interpreter/interpreter.go (Gen/SMSwitch.v), agree with one step of
   the model for every scope and every state a subroutine can return (9 scopes x 13 states, by computation) *)
Theorem C06_switch_eq_model : forall sc s,
  In sc switch_scopes -> In s all_states -> gen_callees sc s = model_callees sc s.
Proof. exact switch_eq_model. Qed.

Theorem C06_guards_eq_model :
  forallb (fun sc => forallb (fun s =>
     Bool.eqb (match assoc_scope sc impl_accept with Some l => mem_string (state_name s) l | None => false end)
              (model_accepts sc s)) all_states) [Hash; Log] = true.
Proof. exact guards_eq_model_b. Qed.

(* recorded finding: no hit-for-pass objects (the exclusion in the documented behaviour is needed) *)
Theorem C06_hit_for_pass_refuted :
  exists orc1 orc2 q rs p,
    orc1 Fetch 0 = ARet SPass /\
    run_history [(orc1, q); (orc2, q)] init = OK (rs, p) /\
    match rs with
    | [_; r2] => existsb (scope_eqb Miss) (r_flows r2) = true /\ existsb (scope_eqb Pass) (r_flows r2) = false
    | _ => False
    end.
Proof. exact hit_for_pass_refuted. Qed.

Print Assumptions C06_hit_for_pass_refuted.
Print Assumptions C06_switch_eq_model.
Print Assumptions C06_guards_eq_model.
Print Assumptions C06_sm_path.
Print Assumptions C06_restart_bound.
Print Assumptions C06_max_restarts_is_3.
Print Assumptions C06_sm_total.
Print Assumptions C06_history_total.
Print Assumptions C06_log_last_once.
Print Assumptions C06_hit_iff_stored.
Print Assumptions C06_only_recv_looks_up.
Print Assumptions C06_fresh_no_hit_before_fetch.
Print Assumptions C06_history_hit_iff_stored.
Print Assumptions C06_history_no_hit_before_any_fetch.
Print Assumptions C06_fetch_stores.
Print Assumptions C06_fetch_does_not_store.
Print Assumptions C06_no_miss_no_new_keys.
Print Assumptions C06_report_faithful.
Print Assumptions C06_history_report_faithful.
Print Assumptions C06_history_log_last_once.
Print Assumptions C06_status_only_after_error.
Print Assumptions C06_error_object_status.
Print Assumptions C06_persist.
Print Assumptions C06_obs_cells_complete.
Print Assumptions C06_obs_edges_eq_doc.
Print Assumptions C06_miss_deliver_stale_refuted.
Print Assumptions C06_model_agrees_with_observed.
Print Assumptions C06_translated_tables.
