(* C10 - Test-runner verdicts are faithful.
   Only the property theorems (closed by [exact]) and their Print Assumptions.  Models:
   Model/TestRun.v (tester.go run, counter.go, runTest), Model/TestRunCover.v
   (interpreter/coverage.go over a small statement language), Model/TestRunInst.v (the instance run
   against `falco test`); proofs in Proofs/TestRun*.v. *)
From Coq Require Import List NArith Bool Permutation.
From Coq Require Strings.String.
Import Strings.String.StringSyntax.
Delimit Scope string_scope with string.
From Falco Require Import Base.Res Model.StoreSyntax Model.Store Proofs.StoreHeap Proofs.StoreInv
  Model.TestRun Model.TestRunCover Model.TestRunInst
  Proofs.TestRunProofs Proofs.TestRunCoverProofs Proofs.TestRunBridge
  Gen.TestRunHelpers Proofs.TestRunHelpersTie.
Import ListNotations.

(* A test body (any sequence of statements and assertions, any interpreter) is reported failed
   exactly when an assertion that is reached does not hold or a statement that is reached raises,
   and the two kinds are reported as such. *)
Theorem C10_verdict_iff :
  forall (scope logline istate : Type) (sc : scope) (b : list (step scope logline istate)) (σ : istate),
    let '(_, v, _, _) := run_body_steps scope logline istate sc b σ in
    (failed v = true <-> exists a, bad scope logline istate sc b σ a) /\
    (v = FailAssert <-> bad scope logline istate sc b σ true) /\
    (v = FailRuntime <-> bad scope logline istate sc b σ false).
Proof. exact verdict_iff. Qed.

(* `falco test` exits non-zero exactly when at least one case failed, zero exactly when every
   case passed or was skipped (for any test bodies and any interpreter). *)
Theorem C10_exit_iff_fail :
  forall (scope logline istate body : Type) run_body (init : istate) (ts : list (test scope body)),
    exit_status (snd (run_file scope logline istate body run_body init ts c0)) = 1 <->
    exists x, In x (fst (run_file scope logline istate body run_body init ts c0)) /\ is_failed x = true.
Proof. exact exit_iff_fail. Qed.

Theorem C10_exit_zero_iff :
  forall (scope logline istate body : Type) run_body (init : istate) (ts : list (test scope body)),
    exit_status (snd (run_file scope logline istate body run_body init ts c0)) = 0 <->
    forall x, In x (fst (run_file scope logline istate body run_body init ts c0)) ->
              is_passed x = true \/ is_skipped x = true.
Proof. exact exit_zero_iff. Qed.

(* passed + failed + skipped = number of (test, scope) pairs; Statistics.Skips = skipped cases *)
Theorem C10_count_sum :
  forall (scope logline istate body : Type) run_body (init : istate) (ts : list (test scope body)),
    let cs := fst (run_file scope logline istate body run_body init ts c0) in
    count is_passed cs + count is_failed cs + count is_skipped cs = length (expand_scopes ts) /\
    skips (snd (run_file scope logline istate body run_body init ts c0)) = count is_skipped cs.
Proof. exact count_sum. Qed.

(* Each ungrouped test yields the same cases - verdicts and logs - whatever else is in the file and
   in whatever order (each starts from [init]); counters and exit status are order-independent. *)
Theorem C10_order_independent :
  forall (scope logline istate body : Type) run_body (init : istate) (ts ts' : list (test scope body)),
    Permutation ts ts' ->
    Permutation (fst (run_file scope logline istate body run_body init ts c0))
                (fst (run_file scope logline istate body run_body init ts' c0)) /\
    snd (run_file scope logline istate body run_body init ts c0) =
    snd (run_file scope logline istate body run_body init ts' c0).
Proof. exact order_independent. Qed.

Theorem C10_subset_independent :
  forall (scope logline istate body : Type) run_body (init : istate) (ts : list (test scope body)) t,
    In t ts ->
    exists before after,
      fst (run_file scope logline istate body run_body init ts c0) =
      before ++ cases_of scope logline istate body run_body init t ++ after.
Proof. exact subset_independent. Qed.

(* A test that does not run - @skip, or filtered out by its @tag under the -t option - influences nothing:
   the executed cases, the assertion / pass / fail counters and the exit status are those of the file with
   every such test REMOVED (only the number of skipped cases differs).  [untag cli] is what the runner makes of
   a tagged test; [C10_tag_table] is the table of docs/testing.md. *)
Theorem C10_skipped_influence_nothing :
  forall (scope logline istate body : Type) run_body (init : istate) (ts : list (test scope body)),
    let r := run_file scope logline istate body run_body init ts c0 in
    let r' := run_file scope logline istate body run_body init (filter (executed scope body) ts) c0 in
    filter (fun x => negb (tc_skip x)) (fst r) = fst r' /\
    asserts (snd r) = asserts (snd r') /\ passes (snd r) = passes (snd r') /\ fails (snd r) = fails (snd r') /\
    exit_status (snd r) = exit_status (snd r').
Proof. exact skipped_influence_nothing. Qed.

Theorem C10_filtered_tests_influence_nothing :
  forall (scope logline istate body : Type) run_body (init : istate) (cli : list N) (tts : list (list tag * test scope body)),
    let r := run_file scope logline istate body run_body init (map (untag cli) tts) c0 in
    let r' := run_file scope logline istate body run_body init (filter (executed scope body) (map (untag cli) tts)) c0 in
    filter (fun x => negb (tc_skip x)) (fst r) = fst r' /\ fails (snd r) = fails (snd r') /\
    exit_status (snd r) = exit_status (snd r').
Proof.
  exact (fun scope logline istate body run_body init cli tts =>
    match skipped_influence_nothing scope logline istate body run_body init (map (untag cli) tts) with
    | conj A (conj _ (conj _ (conj D E))) => conj A (conj D E) end).
Qed.

Theorem C10_tag_table :
  forall p d : N, p <> d ->
    tag_runs [(p, false)] [] = false /\ tag_runs [(p, false)] [p] = true /\ tag_runs [(p, false)] [d] = false /\
    tag_runs [(p, true)] [] = true /\ tag_runs [(p, true)] [p] = false /\ tag_runs [(p, true)] [d] = true /\
    tag_runs [] [] = true /\ tag_runs [] [p] = true /\ tag_runs [] [d] = true.
Proof. exact tag_table. Qed.

(* ---- with describe groups and before_/after_ hooks (any interpreter, any bodies).
   The claim of independence is about UNGROUPED tests and about groups AS UNITS:
   * the items of a test file (ungrouped test subroutines and whole describe groups) can be permuted
     freely: whether the run fails as a whole (a hook raised: no report), the multiset of cases
     (group, name, scope, skip, verdict, logs) and the counters - hence the exit status - are the same;
   * every item contributes exactly [item_cases i], a function of the item alone, wherever it stands;
   * for an ungrouped test that is [cases_of t]. *)
Theorem C10_items_order_independent :
  forall (scope logline istate body : Type) run_body (init : istate) (is is' : list (item scope body)),
    Permutation is is' ->
    match run_items scope logline istate body run_body init is c0,
          run_items scope logline istate body run_body init is' c0 with
    | Some (cs, c), Some (cs', c') => Permutation cs cs' /\ c = c'
    | None, None => True
    | _, _ => False
    end.
Proof. exact items_order_independent. Qed.

Theorem C10_items_subset_independent :
  forall (scope logline istate body : Type) run_body (init : istate) (is : list (item scope body)) i cs c,
    run_items scope logline istate body run_body init is c0 = Some (cs, c) -> In i is ->
    exists before after, cs = before ++ item_cases scope logline istate body run_body init i ++ after.
Proof. exact items_subset_independent. Qed.

(* A test file that fails before any of its tests runs (it cannot be resolved, lexed or parsed; `t.run`
   returns the error and `Tester.Run` returns it without a factory): the process exits non-zero, reports no
   case and counts nothing - whatever the other files of the run contain and wherever the broken one stands. *)
Theorem C10_broken_file_verdict :
  forall (scope logline istate body : Type) run_body (init : istate) (fs : list (tfile scope body)),
    In FBroken fs ->
    let '(ex, cs, c) := cli_outcome scope logline istate body run_body init fs in
    ex <> 0 /\ cs = [] /\ c = c0.
Proof. exact broken_file_verdict. Qed.

(* ... and a run without such a file is the run of all its items in sequence on one counter *)
Theorem C10_files_are_their_items :
  forall (scope logline istate body : Type) run_body (init : istate) (fls : list (list (item scope body))) c,
    run_files scope logline istate body run_body init (map FOk fls) c =
    run_items scope logline istate body run_body init (concat fls) c.
Proof. exact run_files_all_ok. Qed.

Theorem C10_broken_file_example :
  cli_outcome unit unit unit unit bf_body tt [FOk [ISingle bf_test]; FBroken] = (1, [], c0) /\
  fst (fst (cli_outcome unit unit unit unit bf_body tt [FOk [ISingle bf_test]])) = 0 /\
  length (snd (fst (cli_outcome unit unit unit unit bf_body tt [FOk [ISingle bf_test]]))) = 1.
Proof. exact broken_file_example. Qed.

Theorem C10_ungrouped_item :
  forall (scope logline istate body : Type) run_body (init : istate) (t : test scope body),
    item_ok scope logline istate body run_body init (ISingle t) = true /\
    item_cases scope logline istate body run_body init (ISingle t) =
    map (fun x => (None, x)) (cases_of scope logline istate body run_body init t).
Proof. exact single_item. Qed.

(* Tests INSIDE one describe group share the interpreter: there the verdict of a test does depend
   on what ran before it (the scope of the independence claim, made visible): in a group,
   `assert.is_notset(req.http.f0)` passes before and fails after `set req.http.f0 = "1"`;
   as ungrouped tests it passes in both orders. *)
Theorem C10_group_order_dependent_refuted :
  verdict_of 1 (irun_items false [] [grp [t_b; t_a]]) = Some Pass /\
  verdict_of 1 (irun_items false [] [grp [t_a; t_b]]) = Some FailAssert /\
  verdict_of 1 (irun_items false [] [ISingle t_a; ISingle t_b]) = Some Pass /\
  verdict_of 1 (irun_items false [] [ISingle t_b; ISingle t_a]) = Some Pass.
Proof. exact group_order_dependent_refuted. Qed.

Theorem C10_coverage_independent_items :
  forall P is, irun_items true P is = irun_items false P is.
Proof. exact inst_coverage_independent_items. Qed.

(* Coverage instrumentation (markers before statements, else-if chains turned into nested else,
   pre-evaluated if() conditions, two markers per switch case) does not change what a subroutine
   does, PROVIDED every pre-evaluated if() condition is quiet: evaluates to a truth value without
   error and without changing the (observable) state. *)
Theorem C10_instrument_equiv :
  forall (cond prim ctl St cval : Type) ev run_prim ifconds has_marker sw_ctl sw_test (quiet : cond -> bool),
    (forall c, quiet c = true -> forall σ : St, exists b, ev c σ = OK (b, σ)) ->
    forall body σ,
      okq_block cond prim ctl ifconds quiet body = true ->
      exec_block cond prim ctl St cval ev run_prim sw_ctl sw_test (instr_sub cond prim ctl ifconds has_marker body) σ
      = exec_block cond prim ctl St cval ev run_prim sw_ctl sw_test body σ.
Proof. exact instrument_equiv. Qed.

(* Without quietness it does (KNOWN FINDING, reproduced on `falco test --coverage`,
   corpus/C10/regroup and corpus/C10/noisy): a statement that reads re.group.1 and then evaluates an
   if() whose condition matches sees the group the pre-evaluation wrote. *)
Theorem C10_instrument_regroup_refuted :
  exists (body : block unit unit unit) (σ : nat * list nat),
    exec_block unit unit unit _ unit rg_ev rg_prim (fun _ σ => OK (tt, σ)) (fun _ _ _ σ => OK (false, σ))
      (instr_sub unit unit unit (fun _ => [tt]) (fun _ => true) body) σ
    <> exec_block unit unit unit _ unit rg_ev rg_prim (fun _ σ => OK (tt, σ)) (fun _ _ _ σ => OK (false, σ)) body σ.
Proof. exact instrument_regroup_refuted. Qed.

(* In the heap model of C13 a condition without user calls and without a match is quiet at the level
   of everything a program can observe (C13's eval_frame + capture groups). *)
Theorem C10_quiet_condition_in_store_model :
  forall Os P n e σ l σ',
    wf σ -> pure e = true -> nomatch e = true ->
    eval repaired Os P n cond_mode e σ = OK (l, σ') ->
    (forall x, read σ' x = read σ x) /\
    hdrs σ' = hdrs σ /\ logs σ' = logs σ /\ locals σ' = locals σ /\ groups σ' = groups σ /\ depth σ' = depth σ.
Proof. exact quiet_condition_in_store_model. Qed.

(* For the instance that is run against `falco test` (conditions over headers): the whole report -
   cases, logs, counters - is the same with and without coverage. *)
Theorem C10_coverage_independent_instance :
  forall P ts, irun_file true P ts = irun_file false P ts.
Proof. exact inst_coverage_independent. Qed.

(* The registry of test-only functions, regenerated from tester/function/functions.go on every run
   (Gen/TestRunHelpers.v): every name is wired to its own implementation (`assert.equal_fold` to
   Assert_equal_fold, ...; the coverage.* markers to Coverage), and exactly the assert* functions
   report to the pass / fail counter - the runner model lets only [Assert] steps move the verdict. *)
Theorem C10_helpers_wired :
  forall e, In e helpers ->
    (is_coverage (fst e) = false -> fst (snd e) = [canon (fst e)]) /\
    (snd (snd e) = true <-> is_assert (fst e) = true).
Proof. exact helpers_wired. Qed.

Theorem C10_helper_names_distinct : nodupb (map fst helpers) = true.
Proof. exact helpers_names_distinct. Qed.

(* witnesses: the repaired entry is in the table, and the entry as it was before the repair is refused *)
Theorem C10_equal_fold_wired_example :
  In ("assert.equal_fold", (["Assert_equal_fold"], true))%string helpers /\
  wiredb ("assert.equal_fold", (["Assert_equal"], true))%string = false.
Proof. exact (conj equal_fold_wired equal_fold_miswired_refused). Qed.

Print Assumptions C10_verdict_iff.
Print Assumptions C10_exit_iff_fail.
Print Assumptions C10_exit_zero_iff.
Print Assumptions C10_count_sum.
Print Assumptions C10_order_independent.
Print Assumptions C10_subset_independent.
Print Assumptions C10_skipped_influence_nothing.
Print Assumptions C10_filtered_tests_influence_nothing.
Print Assumptions C10_tag_table.
Print Assumptions C10_items_order_independent.
Print Assumptions C10_items_subset_independent.
Print Assumptions C10_ungrouped_item.
Print Assumptions C10_group_order_dependent_refuted.
Print Assumptions C10_coverage_independent_items.
Print Assumptions C10_instrument_equiv.
Print Assumptions C10_instrument_regroup_refuted.
Print Assumptions C10_quiet_condition_in_store_model.
Print Assumptions C10_coverage_independent_instance.
Print Assumptions C10_helpers_wired.
Print Assumptions C10_helper_names_distinct.
Print Assumptions C10_equal_fold_wired_example.
Print Assumptions C10_broken_file_verdict.
Print Assumptions C10_files_are_their_items.
Print Assumptions C10_broken_file_example.
