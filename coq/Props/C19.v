(* C19 - The AST codec round-trips every statement and decoding is total.
   This file holds only the property theorems (closed by [exact]) and their
   Print Assumptions; the model is Model/Codec.v (+ Model/CodecWf.v, Model/CodecPlugin.v),
   the proofs are in Proofs/Codec*.v. *)
From Coq Require Import List NArith ZArith String.
From Falco Require Import Base.Res Base.Bytes Base.Utf8 Gen.CodecFrames Gen.CodecPlugin
  Model.CodecAst Model.Codec Model.CodecWf Model.CodecPlugin
  Proofs.CodecTotal Proofs.CodecRT1 Proofs.CodecRoundtrip Proofs.CodecSize
  Proofs.CodecWfb Proofs.CodecEncTotal Proofs.CodecPluginProofs.
Import ListNotations.

(* Round trip: for every list of well-formed statements (any kind, any nesting depth, any
   number of arguments / parameters / cases / entries), decoding the encoding returns exactly
   the statements.  [wf_block] = what the parser produces: strings are Unicode scalar
   sequences, integers are 64-bit patterns, no nil sub-expression, `error;` without a code
   has no argument, and (KNOWN FINDING, see C19_leaf_64k_refuted) every leaf payload is
   shorter than 65536 bytes. *)
Theorem C19_decode_encode :
  forall ss bs, wf_block ss -> encode ss = OK bs -> decode bs = OK ss.
Proof. exact decode_encode. Qed.

(* [wf_block] is decidable by the extracted checker [wfb_block], which the check runs on every
   AST the real parser produced: the hypothesis above is tied to the parser on every run. *)
Theorem C19_wfb_sound : forall ss, wfb_block ss = true -> wf_block ss.
Proof. exact wfb_sound. Qed.
Theorem C19_wfb_complete : forall ss, wf_block ss -> wfb_block ss = true.
Proof. exact wfb_complete. Qed.

Theorem C19_decode_encode_checked :
  forall ss bs, wfb_block ss = true -> encode ss = OK bs -> decode bs = OK ss.
Proof. exact (fun ss bs H => decode_encode ss bs (wfb_sound ss H)). Qed.

(* The encoder side is not vacuous: every well-formed list encodes (no error, no nil-frame crash). *)
Theorem C19_encode_total : forall ss, wf_block ss -> exists bs, encode ss = OK bs.
Proof. exact encode_total. Qed.

Theorem C19_encode_injective :
  forall a b, wf_block a -> wf_block b -> encode a = encode b -> a = b.
Proof. exact encode_injective. Qed.

(* Totality and crash-freedom of the decoder on EVERY byte string. *)
Theorem C19_decode_total : forall bs : list byte, decode bs <> OutOfFuel.
Proof. exact (fun bs => proj1 (decode_total_no_crash bs)). Qed.

Theorem C19_decode_no_crash : forall bs : list byte, decode bs <> Crash.
Proof. exact (fun bs => proj2 (decode_total_no_crash bs)). Qed.

(* The plugin path (linter/custom_linter.go -> plugin.ReadLinterRequest[T]).
   Encoder.Encode(stmt) is Encodes of the singleton list. *)
Theorem C19_encode1_is_encodes : forall s, encode1 s = encode [s].
Proof. exact encode1_encodes. Qed.

(* What customLint sends for a well-formed statement is read back as that statement by the plugin
   instantiated at its kind, and rejected with a type error naming its kind by every other one. *)
Theorem C19_plugin_roundtrip :
  forall s, wf_stmt s ->
  exists bs, encode1 s = OK bs
    /\ read_request (kind_of s) bs = ROk s
    /\ forall t, t <> kind_of s -> read_request t bs = RType (kind_of s).
Proof. exact plugin_roundtrip. Qed.

(* ReadLinterRequest on EVERY byte string: a request or an error, never a crash or a hang; a
   returned request has the requested type and is the first decoded statement. *)
Theorem C19_plugin_total :
  forall t (bs : list byte), read_request t bs <> RCrash /\ read_request t bs <> RHang.
Proof. exact plugin_total. Qed.
Theorem C19_plugin_typed :
  forall t bs s, read_request t bs = ROk s -> kind_of s = t /\ exists more, decode bs = OK (s :: more).
Proof. exact plugin_typed. Qed.

(* T tie over the regenerated tables Gen/CodecPlugin.v (finite lists, named in the statement):
   the LintStatement union of plugin/linter.go, the Statement() receivers of package ast, the
   type switches of Linter.lint and Encoder.encode. *)
Theorem C19_plugin_kinds :
  (forall n, In n lint_switch_types -> In n ast_statement_types -> In n lint_statement_types)
  /\ (forall n, In n lint_statement_types ->
        In n encoder_switch_types /\ exists k, In k all_kinds /\ kind_name k = n /\ lintable k = true)
  /\ (forall k, In k all_kinds -> In (kind_name k) encoder_switch_types)
  /\ (forall n, In n encoder_switch_types -> exists k, In k all_kinds /\ kind_name k = n)
  /\ NoDup (map kind_name all_kinds)
  /\ (forall k, In k all_kinds -> lintable k = false -> In k not_lintable_kinds).
Proof. exact plugin_kinds. Qed.

(* T tie: the frame numbering regenerated from ast/codec/codec.go is injective and keeps the
   two markers the wire format documents (END = 1, FIN = 2). *)
Theorem C19_frame_numbering : NoDup frame_types /\ FT_END = 1%N /\ FT_FIN = 2%N /\ FT_UNKNOWN = 0%N.
Proof. exact C19_frame_numbering_proof. Qed.

(* the 16-bit length field: the round trip is FALSE without the leaf-size hypothesis *)
Theorem C19_leaf_64k_refuted :
  exists ss bs, encode ss = OK bs /\ decode bs <> OK ss.
Proof. exact leaf_64k_refuted. Qed.

Print Assumptions C19_decode_encode.
Print Assumptions C19_wfb_sound.
Print Assumptions C19_wfb_complete.
Print Assumptions C19_decode_encode_checked.
Print Assumptions C19_encode_total.
Print Assumptions C19_encode_injective.
Print Assumptions C19_decode_total.
Print Assumptions C19_decode_no_crash.
Print Assumptions C19_encode1_is_encodes.
Print Assumptions C19_plugin_roundtrip.
Print Assumptions C19_plugin_total.
Print Assumptions C19_plugin_typed.
Print Assumptions C19_plugin_kinds.
Print Assumptions C19_frame_numbering.
Print Assumptions C19_leaf_64k_refuted.
