(* C19 - The AST codec round-trips every statement and decoding is total.
   This file holds only the property theorems (closed by [exact]) and their
   Print Assumptions; the model is Model/Codec.v, the proofs are in Proofs/Codec*.v. *)
From Coq Require Import List NArith ZArith.
From Falco Require Import Base.Res Base.Bytes Base.Utf8 Gen.CodecFrames Model.CodecAst Model.Codec
  Proofs.CodecTotal Proofs.CodecRT1 Proofs.CodecRoundtrip Proofs.CodecSize.
Import ListNotations.

(* Round trip: for every list of well-formed statements (any kind, any nesting depth, any
   number of arguments / parameters / cases / entries), decoding the encoding returns exactly
   the statements.  [wf_block] = what the parser produces: strings are Unicode scalar
   sequences, integers are 64-bit patterns, no nil sub-expression, `error;` without a code
   has no argument, and (KNOWN FINDING, see C19_leaf_64k_refuted) every leaf payload is
   shorter than 65536 bytes. *)
Theorem C19_decode_encode :
  forall ss bs, wf_block ss -> encode ss = OK bs -> decode bs = OK ss.
Proof. exact decode_encode. Qed.

(* Totality and crash-freedom of the decoder on EVERY byte string. *)
Theorem C19_decode_total : forall bs : list byte, decode bs <> OutOfFuel.
Proof. exact (fun bs => proj1 (decode_total_no_crash bs)). Qed.

Theorem C19_decode_no_crash : forall bs : list byte, decode bs <> Crash.
Proof. exact (fun bs => proj2 (decode_total_no_crash bs)). Qed.

(* T tie: the frame numbering regenerated from ast/codec/codec.go is injective and keeps the
   two markers the wire format documents (END = 1, FIN = 2). *)
Theorem C19_frame_numbering : NoDup frame_types /\ FT_END = 1%N /\ FT_FIN = 2%N /\ FT_UNKNOWN = 0%N.
Proof. exact C19_frame_numbering_proof. Qed.

(* the 16-bit length field: the round trip is FALSE without the leaf-size hypothesis *)
Theorem C19_leaf_64k_refuted :
  exists ss bs, encode ss = OK bs /\ decode bs <> OK ss.
Proof. exact leaf_64k_refuted. Qed.

Print Assumptions C19_decode_encode.
Print Assumptions C19_decode_total.
Print Assumptions C19_decode_no_crash.
Print Assumptions C19_frame_numbering.
Print Assumptions C19_leaf_64k_refuted.
