(* placeholder until the proofs land *)
From Falco Require Import Model.Codec.
