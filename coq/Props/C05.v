(* C05 - Linter, reference tables and simulator agree on types, scopes and signatures.
   This file holds only the property theorems (closed by [exact]) and their Print Assumptions.
   Models: Model/ScopeMask.v, LintTables.v, LintOps.v, TablesDomain.v; proofs: Proofs/ScopeMaskProofs.v,
   Proofs/TablesProofs.v.  Tables: Gen/Lint*.v Ref*.v InterpFuncs.v (translator, tie T), Gen/Obs*.v
   (real linter and real simulator run on every cell, tie O), Gen/KnownGaps.v (`known:` lines).

   The finite statements quantify over rows of an observed table and positions of a position list;
   the *_domain theorems say that the rows are exactly the domain computed from the regenerated linter
   tables: every predefined variable (wildcards instantiated) x {get,set,unset}, every built-in x its
   declared signatures, the 14 scope-restricted statements, 23 operators x 10 target types x the existing
   (value type, form) cells; positions45 = the nine scopes + the 36 two-scope annotations. *)
From Coq Require Import NArith List String Bool.
From Falco Require Import Model.Val Model.Assign.
From Falco Require Import Base.TablesBase Model.ScopeMask Model.LintTables Model.LintOps Model.TablesDomain
  Model.InterpAssign Model.InterpVars Proofs.ScopeMaskProofs Proofs.TablesProofs Proofs.InterpAssignProofs Proofs.Tables2Proofs Proofs.InterpVarsProofs.
From Falco Require Import Gen.LintConsts Gen.LintVars Gen.LintDyn Gen.LintFuncs Gen.RefVars Gen.RefFuncs Gen.InterpFuncs.
From Falco Require Import Gen.InterpVars.
From Falco Require Import Gen.ObsVars Gen.ObsFuncs Gen.ObsStmts Gen.ObsOps Gen.ObsWide Gen.ObsCoerce Gen.ObsInferred Gen.ObsIdArgs Gen.KnownGaps.
Import ListNotations.
Local Open Scope N_scope.
Local Open Scope string_scope.

(* ---- unbounded: scope masks (any N) *)
Theorem C05_mask_all_iff : forall obj cur,
  (N.land obj cur =? cur)%N = forallb (fun s => allowed obj s) (scopes_of cur).
Proof. exact mask_all_iff. Qed.

Theorem C05_mask_some_iff : forall obj cur,
  negb (N.land obj cur =? 0)%N = existsb (fun s => allowed obj s) (scopes_of cur).
Proof. exact mask_some_iff. Qed.

(* any annotation mask, not just the 36 two-scope ones *)
Theorem C05_multi_scope_exact : forall obj cur,
  all_scopes_test obj cur = forallb (fun s => all_scopes_test obj (N.shiftl 1 s)) (scopes_of cur).
Proof. exact multi_scope_exact. Qed.

(* the guards as they were before the repairs (obj & cur == 0 is the error): "some scope", not "every scope" *)
Theorem C05_multi_scope_funcs_refuted : exists obj cur,
  some_scope_test obj cur = true /\ forallb (fun s => allowed obj s) (scopes_of cur) = false.
Proof. exact some_scope_test_refuted. Qed.

(* ---- T: linter tables = reference tables, every name, every field *)
Theorem C05_lint_vars_eq_ref : forall name,
  option_rel var_entry_agrees (assoc name lint_var_flat) (assoc name ref_vars) = true.
Proof. exact lint_vars_eq_ref. Qed.

Theorem C05_lint_funcs_eq_ref : forall name,
  option_rel func_entry_agrees (assoc name lint_func_flat) (assoc name ref_funcs) = true.
Proof. exact lint_funcs_eq_ref. Qed.

Theorem C05_lint_dyn_eq_ref : forall name a, In (name, a) dyn_entries ->
  option_rel var_entry_agrees (Some a) (assoc name ref_vars) = true \/ gap_covers "dyn-ref" name "" 0 = true.
Proof. exact lint_dyn_eq_ref. Qed.

Theorem C05_interp_funcs_agree_lint : forall name f, In (name, f) lint_func_flat ->
  (exists g, assoc name interp_funcs = Some g /\ interp_func_agrees f g = true)
  \/ gap_covers "func-table" name "" 0 = true.
Proof. exact interp_funcs_agree_lint. Qed.

(* ---- O: the observed tables are keyed by exactly the domains *)
Theorem C05_obs_domains :
  map obs_var_key obs_vars = var_rows obs_http_names /\
  map obs_func_key obs_funcs = func_rows /\
  map (fun r => match r with (k, _, _) => k end) obs_stmts = stmt_kinds /\
  map obs_op_key obs_ops = op_rows.
Proof. exact (conj obs_vars_domain (conj obs_funcs_domain (conj obs_stmts_domain obs_ops_domain))). Qed.

(* ---- hand models = observed linter (model_agrees_with_observed) *)
Theorem C05_lint_vars_model_eq_observed : forall t n op lint interp ctx p,
  In (t, n, op, lint, interp, ctx) obs_vars -> In p positions45 ->
  lint_var_op the_ctx n op (lint_mode (mask_at p)) = N.testbit ctx p /\
  lint_var_op the_ctx n op (lint_mode (mask_at p)) = N.testbit lint p.
Proof. exact lint_vars_model_eq_observed. Qed.

Theorem C05_lint_funcs_model_eq_observed : forall n i lint interp p,
  In (n, i, lint, interp) obs_funcs -> In p positions45 ->
  is_some (lint_get_function n (lint_mode (mask_at p))) = N.testbit lint p.
Proof. exact lint_funcs_model_eq_observed. Qed.

Theorem C05_lint_stmts_model_eq_observed : forall k lint interp p,
  In (k, lint, interp) obs_stmts -> In p positions45 ->
  lint_stmt k (lint_mode (mask_at p)) = N.testbit lint p.
Proof. exact lint_stmts_model_eq_observed. Qed.

Theorem C05_lint_ops_model_eq_observed : forall op lty lint interp p rty form,
  In (op, lty, lint, interp) obs_ops -> In (p, rty, form) op_cells_existing ->
  lint_op_model op lty rty form = N.testbit lint p.
Proof. exact lint_ops_model_eq_observed. Qed.

(* annotations of three and more scopes (every 3-scope mask and the 9-scope mask; thorough tier: all 511 masks) *)
Theorem C05_lint_wide_model_eq_observed :
  (forall n op bits m, In (n, op, bits) obs_vars_wide -> In m obs_wide_masks ->
     lint_var_op the_ctx n op (lint_mode m) = N.testbit bits m) /\
  (forall n bits m, In (n, bits) obs_funcs_wide -> In m obs_wide_masks ->
     is_some (lint_get_function n (lint_mode m)) = N.testbit bits m) /\
  (forall k bits m, In (k, bits) obs_stmts_wide -> In m obs_wide_masks ->
     lint_stmt k (lint_mode m) = N.testbit bits m /\ N.testbit bits m = forallb (ref_stmt k) (scopes_of m)).
Proof. exact lint_wide_model_eq_observed. Qed.

Theorem C05_obs_wide_domain :
  map (fun r => match r with (n, op, _) => (n, op) end) obs_vars_wide
    = map (fun r => match r with (_, n, op) => (n, op) end) (var_rows obs_http_names) /\
  map fst obs_funcs_wide = map fst lint_func_flat /\
  map fst obs_stmts_wide = stmt_kinds /\
  forallb (fun m => mem_N m obs_wide_masks) three_scope_masks = true.
Proof. exact obs_wide_domain. Qed.

(* ---- the linter accepts exactly what the reference allows (every scope of the mask) *)
Theorem C05_lint_ops_eq_ref : forall op lty lint interp p rty form,
  In (op, lty, lint, interp) obs_ops -> In (p, rty, form) op_cells_base -> In op assign_ops ->
  N.testbit lint p = ref_assign op lty rty form \/ gap_covers "op-ref" op lty p = true.
Proof. exact lint_ops_eq_ref. Qed.

Theorem C05_lint_var_cells_eq_ref : forall t n op lint interp ctx p,
  In (t, n, op, lint, interp, ctx) obs_vars -> In p positions45 ->
  (exists rv, assoc t ref_vars = Some rv /\ N.testbit lint p = ref_var_allows rv op (mask_at p))
  \/ gap_covers "var-ref" n op p = true.
Proof. exact lint_var_cells_eq_ref. Qed.

Theorem C05_lint_func_cells_eq_ref : forall n i lint interp p,
  In (n, i, lint, interp) obs_funcs -> In p positions45 ->
  (exists rf, assoc n ref_funcs = Some rf /\ N.testbit lint p = ref_func_allows rf (mask_at p))
  \/ gap_covers "func-ref" n "" p = true.
Proof. exact lint_func_cells_eq_ref. Qed.

Theorem C05_lint_stmts_eq_ref : forall k lint interp p,
  In (k, lint, interp) obs_stmts -> In p positions45 ->
  N.testbit lint p = forallb (ref_stmt k) (scopes_of (mask_at p)) \/ gap_covers "stmt-ref" k "" p = true.
Proof. exact lint_stmts_eq_ref. Qed.

(* ---- everything the linter accepts executes in the simulator (no type error, not undefined, not out of
   scope, no arity / argument type mismatch, no crash), or is a recorded gap *)
Theorem C05_lint_sub_interp_ops : forall op lty lint interp p rty form,
  In (op, lty, lint, interp) obs_ops -> In (p, rty, form) op_cells_existing ->
  N.testbit lint p = true ->
  N.testbit interp p = true \/ gap_covers "op-interp" op lty p = true.
Proof. exact lint_sub_interp_ops. Qed.

Theorem C05_lint_sub_interp_vars : forall t n op lint interp ctx p,
  In (t, n, op, lint, interp, ctx) obs_vars -> In p positions45 ->
  N.testbit lint p = true ->
  N.testbit interp p = true \/ gap_covers "var-interp" n op p = true.
Proof. exact lint_sub_interp_vars. Qed.

Theorem C05_lint_sub_interp_calls : forall n i lint interp p,
  In (n, i, lint, interp) obs_funcs -> In p positions45 ->
  N.testbit lint p = true ->
  N.testbit interp p = true \/ gap_covers "func-interp" n (sig_name i) p = true.
Proof. exact lint_sub_interp_calls. Qed.

Theorem C05_lint_sub_interp_stmts : forall k lint interp p,
  In (k, lint, interp) obs_stmts -> In p positions45 ->
  N.testbit lint p = true ->
  N.testbit interp p = true \/ gap_covers "stmt-interp" k "" p = true.
Proof. exact lint_sub_interp_stmts. Qed.

(* ---- the simulator side of the operator table as a MODEL (Model/InterpAssign.v mirrors the type switches of
   interpreter/assign/*.go, doAssign, the header path of AllScopeVariables.Set and interpreter/operator):
   the model is the observed simulator on every cell ... *)
Theorem C05_interp_assign_model_eq_observed : forall op lty lint interp p rty form,
  In (op, lty, lint, interp) obs_ops -> In (p, rty, form) op_cells_existing ->
  interp_op_model op lty rty form = N.testbit interp p.
Proof. exact interp_assign_model_eq_observed. Qed.

(* ... and the inclusion holds between the two MODELS on the whole product (no observed table in the statement) *)
Theorem C05_lint_sub_interp_ops_models : forall op lty p rty form,
  In op all_ops -> In lty op_types -> In (p, rty, form) op_cells_existing ->
  lint_op_model op lty rty form = true ->
  interp_op_model op lty rty form = true \/ gap_covers "op-interp" op lty p = true.
Proof. exact lint_sub_interp_ops_models. Qed.

(* the decision table agrees with the value model of interpreter/assign (Model/Assign.v) on the scalar types *)
Theorem C05_interp_assign_agrees_with_value_model : forall o lt rt lit,
  In o Assign.all_aops -> In lt scalar_types -> In rt scalar_types -> (lit = true -> has_literal rt = true) ->
  is_aok (Assign.assign any_address o (sample true lt) (Val.mkOp (sample false rt) lit))
  = do_assign_ok (op_name o) (vt_of lt) (vt_of rt) lit.
Proof. exact interp_assign_agrees_with_value_model. Qed.

(* ---- a value of type T in eight forms (literal / identifier, local, predefined variable, PARAMETER of a functional
   subroutine bound from each of these, if() expression, function result) where a value of type E is expected:
   ctx = arg (built-in argument), ret (return value of a functional subroutine), par (typed parameter).
   Domain: coerce_rows (3 contexts x 9 expected types) x op_cells_existing (10 value types x 14 forms, existing ones).
   The operator theorems above range over the same eight forms. *)
Theorem C05_obs_coerce_domain : map (fun r => match r with (c, e, _, _) => (c, e) end) obs_coerce = coerce_rows.
Proof. exact obs_coerce_domain. Qed.

Theorem C05_coerce_models_eq_observed : forall cx e lint interp p t form,
  In (cx, e, lint, interp) obs_coerce -> In (p, t, form) op_cells_existing ->
  lint_coerce_model cx e t form = N.testbit lint p /\ interp_coerce_model cx e t form = N.testbit interp p.
Proof. exact coerce_models_eq_observed. Qed.

Theorem C05_lint_sub_interp_coerce : forall cx e lint interp p t form,
  In (cx, e, lint, interp) obs_coerce -> In (p, t, form) op_cells_existing ->
  N.testbit lint p = true ->
  N.testbit interp p = true \/ gap_covers "coerce-interp" cx e p = true.
Proof. exact lint_sub_interp_coerce. Qed.

Theorem C05_lint_sub_interp_coerce_models : forall cx e p t form,
  In cx coerce_ctxs -> In e value_types -> In (p, t, form) op_cells_existing ->
  lint_coerce_model cx e t form = true ->
  interp_coerce_model cx e t form = true \/ gap_covers "coerce-interp" cx e p = true.
Proof. exact lint_sub_interp_coerce_models. Qed.

Theorem C05_lint_sub_interp_coerce_refuted : exists cx e lint interp p t form,
  In (cx, e, lint, interp) obs_coerce /\ In (p, t, form) op_cells_existing /\
  N.testbit lint p = true /\ N.testbit interp p = false.
Proof. exact lint_sub_interp_coerce_refuted. Qed.

(* ---- HOW a local variable operand got its value does not matter: the forms dinit / dexpr / copy / compound /
   default / inif are value forms of every operator and coercion cell above, and for the LEFT operand: *)
Theorem C05_ops_left_models_eq_observed : forall op lty lp lint interp p rty form,
  In (op, lty, lp, lint, interp) obs_ops_left -> In (p, rty, form) op_cells_left ->
  lint_op_model op lty rty form = N.testbit lint p /\ interp_op_model_left op lty lp rty form = N.testbit interp p /\
  (N.testbit lint p = true ->
   N.testbit interp p = true \/ gap_covers "opl-interp" op (String.append lty (String.append ":" lp)) p = true).
Proof. exact ops_left_models_eq_observed. Qed.

Theorem C05_obs_ops_left_domain :
  map (fun r => match r with (op, l, lp, _, _) => (op, l, lp) end) obs_ops_left = opl_rows.
Proof. exact obs_ops_left_domain. Qed.

(* other spellings of a literal and a header sub-field as right operand (domain: op_rows x lit_variants) *)
Theorem C05_op_variants_eq_base : forall op lty lint interp i vid t f,
  In (op, lty, lint, interp) obs_op_variants -> In (i, vid, t, f) lit_variants ->
  lint_op_model op lty t f = N.testbit lint i /\ interp_op_model op lty t f = N.testbit interp i.
Proof. exact op_variants_eq_base. Qed.
Theorem C05_obs_op_variants_domain : map obs_op_key obs_op_variants = op_rows.
Proof. exact obs_op_variants_domain. Qed.

(* ---- identifier arguments: every built-in with an ID-typed argument and the add statement x idarg_idents x 9 scopes,
   "interp" bit = the simulator raises no error attributable to the identifier (relative to the baseline cell with an
   identifier of the correct kind; see lib/tables_util.py idarg_verdict) *)
Theorem C05_obs_idargs_domain : map (fun r => match r with (fn, i, _, _) => (fn, i) end) obs_idargs = idarg_rows.
Proof. exact obs_idargs_domain. Qed.
Theorem C05_lint_sub_interp_idargs : forall fn i lint interp p ident s,
  In (fn, i, lint, interp) obs_idargs -> In (p, ident, s) idarg_cells ->
  N.testbit lint p = true ->
  N.testbit interp p = true \/ gap_covers "idarg-interp" fn (sig_digit i) p = true.
Proof. exact lint_sub_interp_idargs. Qed.

(* ---- scopes obtained by the linter's CALL-GRAPH INFERENCE (no @scope annotation): the use in the innermost of
   1..3 un-annotated helpers called from every pair (thorough tier: also every triple, depth 2) of lifecycle
   subroutines.  Domain: inferred_rows (representatives of every accessor class / function scope mask in the quick
   tier, every variable and function in the thorough tier; all 14 statements) x depths 1..3 x pair_masks. *)
Theorem C05_obs_inferred_domain :
  map obs_inferred_key obs_inferred = inferred_rows obs_http_names obs_inferred_full /\
  map obs_inferred_key obs_inferred3 = inferred3_rows obs_http_names obs_inferred_full.
Proof. exact obs_inferred_domain. Qed.

Theorem C05_lint_inferred_eq_model : forall k n a d lint interp m,
  In (k, n, a, d, lint, interp) obs_inferred -> In m pair_masks ->
  lint_use_model the_ctx k n a m = N.testbit lint m /\
  (N.testbit lint m = true -> N.testbit interp m = true \/ use_gap_covers k n a m = true).
Proof. exact lint_inferred_eq_model. Qed.

Theorem C05_lint_inferred3_eq_model : forall k n a d lint interp m,
  In (k, n, a, d, lint, interp) obs_inferred3 -> In m triple_masks ->
  lint_use_model the_ctx k n a m = N.testbit lint m /\
  (N.testbit lint m = true -> N.testbit interp m = true \/ use_gap_covers k n a m = true).
Proof. exact lint_inferred3_eq_model. Qed.

(* ---- the simulator's variable dispatch is REGENERATED (Gen.InterpVars: case labels of `switch name`, dispatcher
   functions, regular expressions, delegation to the all-scope base of interpreter/variable/*.go); the observed table
   is the correspondence of that translation, and the inclusion holds between the two regenerated tables *)
Theorem C05_interp_var_regexes_known : forall re pat, In (re, pat) interp_var_regexes -> In pat known_regexes.
Proof. exact interp_var_regexes_known. Qed.

Theorem C05_interp_vars_regen_eq_observed : forall t n op lint interp ctx p,
  In (t, n, op, lint, interp, ctx) obs_vars -> In p positions45 ->
  interp_var_has_mask n op (mask_at p) = N.testbit interp p \/ gap_covers "var-interp" n op p = true.
Proof. exact interp_vars_regen_eq_observed. Qed.

Theorem C05_lint_sub_interp_vars_regen : forall t n op p,
  In (t, n, op) (var_rows obs_http_names) -> In p positions45 ->
  lint_var_op the_ctx n op (lint_mode (mask_at p)) = true ->
  interp_var_has_mask n op (mask_at p) = true \/ gap_covers "var-interp" n op p = true.
Proof. exact lint_sub_interp_vars_regen. Qed.

(* where both sides give a type to a read of the variable it is the same type *)
Theorem C05_lint_types_eq_interp : forall n tys s t,
  In (n, tys) obs_var_types -> In s positions9 ->
  lint_get the_ctx n (lint_mode (N.shiftl 1 s)) = Some t ->
  nth (N.to_nat s) tys "-" = "-" \/ nth (N.to_nat s) tys "-" = type_name t
  \/ (type_name t = "REQBACKEND" /\ nth (N.to_nat s) tys "-" = "BACKEND")
  \/ gap_covers "var-type" n (type_name t) s = true.
Proof. exact lint_types_eq_interp. Qed.

(* ---- the exclusions are needed: without the known-gap disjunct the inclusions are false *)
Theorem C05_lint_sub_interp_vars_refuted : exists t n op lint interp ctx p,
  In (t, n, op, lint, interp, ctx) obs_vars /\ In p positions45 /\
  N.testbit lint p = true /\ N.testbit interp p = false.
Proof. exact lint_sub_interp_vars_refuted. Qed.

Theorem C05_lint_sub_interp_calls_refuted : exists n i lint interp p,
  In (n, i, lint, interp) obs_funcs /\ In p positions45 /\
  N.testbit lint p = true /\ N.testbit interp p = false.
Proof. exact lint_sub_interp_calls_refuted. Qed.

Print Assumptions C05_mask_all_iff.
Print Assumptions C05_mask_some_iff.
Print Assumptions C05_multi_scope_exact.
Print Assumptions C05_multi_scope_funcs_refuted.
Print Assumptions C05_lint_vars_eq_ref.
Print Assumptions C05_lint_funcs_eq_ref.
Print Assumptions C05_lint_dyn_eq_ref.
Print Assumptions C05_interp_funcs_agree_lint.
Print Assumptions C05_obs_domains.
Print Assumptions C05_lint_vars_model_eq_observed.
Print Assumptions C05_lint_funcs_model_eq_observed.
Print Assumptions C05_lint_stmts_model_eq_observed.
Print Assumptions C05_lint_ops_model_eq_observed.
Print Assumptions C05_lint_wide_model_eq_observed.
Print Assumptions C05_obs_wide_domain.
Print Assumptions C05_lint_ops_eq_ref.
Print Assumptions C05_lint_var_cells_eq_ref.
Print Assumptions C05_lint_func_cells_eq_ref.
Print Assumptions C05_lint_stmts_eq_ref.
Print Assumptions C05_lint_sub_interp_ops.
Print Assumptions C05_lint_sub_interp_vars.
Print Assumptions C05_lint_sub_interp_calls.
Print Assumptions C05_lint_sub_interp_stmts.
Print Assumptions C05_interp_assign_model_eq_observed.
Print Assumptions C05_lint_sub_interp_ops_models.
Print Assumptions C05_interp_assign_agrees_with_value_model.
Print Assumptions C05_obs_coerce_domain.
Print Assumptions C05_coerce_models_eq_observed.
Print Assumptions C05_lint_sub_interp_coerce.
Print Assumptions C05_lint_sub_interp_coerce_models.
Print Assumptions C05_lint_sub_interp_coerce_refuted.
Print Assumptions C05_ops_left_models_eq_observed.
Print Assumptions C05_obs_ops_left_domain.
Print Assumptions C05_op_variants_eq_base.
Print Assumptions C05_obs_op_variants_domain.
Print Assumptions C05_obs_idargs_domain.
Print Assumptions C05_lint_sub_interp_idargs.
Print Assumptions C05_obs_inferred_domain.
Print Assumptions C05_lint_inferred_eq_model.
Print Assumptions C05_lint_inferred3_eq_model.
Print Assumptions C05_interp_var_regexes_known.
Print Assumptions C05_interp_vars_regen_eq_observed.
Print Assumptions C05_lint_sub_interp_vars_regen.
Print Assumptions C05_lint_types_eq_interp.
Print Assumptions C05_lint_sub_interp_vars_refuted.
Print Assumptions C05_lint_sub_interp_calls_refuted.
