(* C01 - Lexing and parsing are total, and diagnostics are located in the input. *)
From Coq Require Import List NArith ZArith.
From Falco Require Import Base.Res Base.Bytes Base.Utf8 Gen.Tokens Model.Lex Model.Pump Model.LexSpec
  Proofs.LexTables.
Import ListNotations.

Theorem C01_keywords_documented : keywords = keywords_ref.
Proof. exact keywords_documented. Qed.

Print Assumptions C01_keywords_documented.
