(* C01 - Lexing and parsing are total, and diagnostics are located in the input.
   This file holds only the property theorems (closed by [exact]) and their Print Assumptions.
   Model: Model/Lex.v (lexer/lexer.go + lexer/reader.go), Model/Pump.v (Parser.ReadPeek);
   proofs: Proofs/Lex*.v, Proofs/PumpTotal.v.

   The parser half: Model/LexParse.v composes the lexer and pump model with C02's parser model
   (Model/Parse*.v); the theorems C01_parse_* below are obtained from C02's parse_total /
   parse_no_crash (Proofs/ParseDeclTotal.v) and the lexer fact C01_source_long_ok. *)
From Coq Require Import List NArith ZArith.
From Falco Require Gen.TokenTypes Model.ParseBase Model.Ast Model.ParseDecl Proofs.ParseExprTotal.
From Falco Require Import Base.Res Base.Bytes Base.Utf8 Gen.Tokens Gen.LexOps Model.Lex Model.LexOps Model.Pump Model.PumpLx Model.LexSpec Model.LexLines Model.LexParse
  Proofs.LexTables Proofs.LexProgress Proofs.LexToken Proofs.PumpTotal Proofs.LexView Proofs.LexLocated Proofs.LexExtra
  Proofs.LexOpen Proofs.LexOps Proofs.LexLines Proofs.PumpRefine Proofs.LexParse Proofs.LexTheorems Proofs.LexExamples Proofs.LexParseExamples.
Import ListNotations.

(* Totality: for EVERY byte string the token loop (NextToken until the first EOF), run with the
   fuel 3 * length s + 4 or more for the loop and for each inner read loop, returns a token
   list: it does not run out of fuel (no Go loop spins), does not crash, returns no error. *)
Theorem C01_lex_returns :
  forall (s : list byte) (n : nat), lex_fuel s <= n -> exists ts, lex_all n s = OK ts.
Proof. exact C01_lex_returns_proof. Qed.

Theorem C01_lex_total : forall (s : list byte) n, lex_fuel s <= n -> lex_all n s <> OutOfFuel.
Proof. exact C01_lex_total_proof. Qed.

Theorem C01_lex_no_crash : forall (s : list byte) n, lex_fuel s <= n -> lex_all n s <> Crash.
Proof. exact C01_lex_no_crash_proof. Qed.

(* Every NextToken call makes progress: it returns EOF, or the measure
   3 * (unread bytes + cursor) + queued tokens strictly decreases. *)
Theorem C01_next_token_progress :
  forall n st, nu st < n -> wf st ->
  exists t st', next_token n st = OK (t, st') /\ (is_eof t = true \/ mu st' < mu st).
Proof. exact C01_next_token_progress_proof. Qed.

(* No token has an empty type: each is one of the constants of token/token.go; the list ends with EOF. *)
Theorem C01_lex_typed :
  forall s ts t, tokens s = OK ts -> In t ts -> ttype t <> [] /\ In (ttype t) all_types.
Proof. exact C01_lex_typed_proof. Qed.

Theorem C01_lex_ends_with_eof :
  forall s ts, tokens s = OK ts -> exists body e, ts = body ++ [e] /\ is_eof e = true.
Proof. exact C01_lex_ends_with_eof_proof. Qed.

(* Located: every token's (line, column) lies inside the input and designates the token's text.
   [designates] (Model/LexSpec.v) is defined on the decoded input alone: the input splits as
   pre ++ surface form ++ suf where (line, column) is the position following pre (lines and rune
   columns counted from 1, a line feed ends its line).  Surface form: the literal; the quote + the
   literal for STRING; brace + delimiter + quote for OPEN_LONG_STRING; the closing brace for
   CLOSE_LONG_STRING (or the place where an unterminated long string stopped); EOF sits one
   column past the last rune, or on the NUL byte that ends the input. *)
Theorem C01_lex_located :
  forall s ts t, tokens s = OK ts -> In t ts -> designates (dec_all s) t.
Proof. exact lex_located. Qed.

(* The source line of a located position: if the text at (l, c) starts with txt then line l of the
   decoded input ([get_line], the k-th line without its line feed - what Lexer.GetLine(k) returns,
   checked against the real GetLine on every input) is c - 1 characters followed by the rest of
   that line from there, which begins with txt.  For the tokens whose surface form is their
   literal: the caret under column [tpos] of line [tline] points at the literal. *)
Theorem C01_get_line_spec :
  forall rs l c txt, at_text rs (l, c) txt ->
  exists a suf, get_line rs l = Some (a ++ line_head (txt ++ suf)) /\ (N.of_nat (length a) + 1 = c)%N /\ (1 <= l)%N.
Proof. exact get_line_spec. Qed.

Theorem C01_token_line_spec :
  forall s ts t, tokens s = OK ts -> In t ts -> plain_b (ttype t) = true ->
  exists a suf, get_line (dec_all s) (tline t) = Some (a ++ line_head (tlit t ++ suf)) /\
                (N.of_nat (length a) + 1 = tpos t)%N.
Proof. exact token_line_spec. Qed.

(* A position designates at most one place: the prefix in [at_text] is unique. *)
Theorem C01_position_unique :
  forall rs pre1 suf1 pre2 suf2,
  rs = pre1 ++ suf1 -> rs = pre2 ++ suf2 -> end_pos pre1 = end_pos pre2 -> pre1 = pre2.
Proof. exact position_unique. Qed.

(* The EOF token is stable: at the end of input (or on a NUL byte), with an empty queue, NextToken
   returns an EOF token and a state from which it returns the same token again. *)
Theorem C01_eof_stable :
  forall n st, ch st = 0%N -> peeks st = [] -> 1 <= n -> wf st ->
  exists e st1, next_token n st = OK (e, st1) /\ is_eof e = true /\ next_token n st1 = OK (e, st1).
Proof. exact eof_stable. Qed.

(* PeekToken is coherent with NextToken: after PeekToken returned t, NextToken returns t and
   reaches the state NextToken alone would have reached; peeking twice changes nothing. *)
Theorem C01_peek_then_next :
  forall n st t st1, peek_token n st = OK (t, st1) ->
  exists st2, next_token n st1 = OK (t, st2) /\ next_token n st = OK (t, st2).
Proof. exact peek_then_next. Qed.

Theorem C01_peek_idempotent :
  forall n st t st1, peek_token n st = OK (t, st1) -> peek_token n st1 = OK (t, st1).
Proof. exact peek_idempotent. Qed.

(* The parser's token pump: over ANY token list followed by a repeated EOF token, ReadPeek
   (LF / COMMENT / C! W! / pragma skipping) returns and the pump reaches EOF. *)
Theorem C01_pump_total :
  forall e ts n, is_eof e = true -> S (length ts) <= n -> pump_all n e ts <> OutOfFuel.
Proof. exact C01_pump_total_proof. Qed.

Theorem C01_pump_no_crash :
  forall e ts n, is_eof e = true -> S (length ts) <= n -> pump_all n e ts <> Crash.
Proof. exact C01_pump_no_crash_proof. Qed.

(* REFINEMENT: Parser.ReadPeek run on the LEXER (Model/PumpLx.v: NextToken / PeekToken with the peek
   queue, the lexer's fuel for each NextToken) delivers, for every byte string, exactly what
   Model/Pump.v delivers on the lexer's token list - the pumped metas with their Leading comments,
   nest levels and empty-line counts.  So every statement about [pump s] (totality, located tokens,
   the parser half) is a statement about the code path the Go parser runs. *)
Theorem C01_pump_refines_lexer :
  forall s : list byte, exists ts, tokens s = OK ts /\ pump_lx (lex_fuel s) (S (length ts)) s = pump s.
Proof. exact pump_refines_lexer. Qed.

(* lexer + pump on every byte string *)
Theorem C01_pump_source_returns : forall s : list byte, exists ms, pump s = OK ms /\ ms <> [].
Proof. exact pump_ok. Qed.

(* ---- the parser half: bytes -> lexer -> pump -> parser model, for the three entry points ----
   [parse_source fok mode s] = lexer.New(s), parser.New, then ParseVCL / ParseSnippetVCL /
   ParseVCLOrSnippet (mode), over the parser model of C02; [fok] is the strconv.ParseFloat
   accept/reject oracle, the theorems hold for every such oracle. *)

(* the lexer fact C02's crash freedom needs: in the token list handed to the parser, the STRING
   behind an OPEN_LONG_STRING never has Offset 2 *)
Theorem C01_source_long_ok :
  forall s ms, pump s = OK ms -> ParseExprTotal.long_ok (to_ptoks ms) = true.
Proof. exact source_long_ok. Qed.

Theorem C01_parse_total :
  forall fok mode (s : list byte), parse_source fok mode s <> ParseBase.PFuel.
Proof. exact parse_source_total. Qed.

Theorem C01_parse_no_crash :
  forall fok mode (s : list byte), parse_source fok mode s <> ParseBase.PCrash.
Proof. exact parse_source_no_crash. Qed.

(* every token the parser is given (hence every token it can put into a *ParseError) is a token
   of the lexer and designates its text; the stream ends with the EOF meta *)
Theorem C01_pump_tokens_located :
  forall s ms m, pump s = OK ms -> In m ms -> designates (dec_all s) (mtok m).
Proof. exact pump_tokens_located. Qed.

Theorem C01_parse_eof_located :
  forall s ms, pump s = OK ms ->
  exists body m, ms = body ++ [m] /\ is_eof (mtok m) = true /\ designates (dec_all s) (mtok m).
Proof. exact pump_eof_located. Qed.

(* Every parse error is located: whenever parsing a byte string (any entry point, any ParseFloat
   oracle) ends in a *ParseError, the pumped token the error refers to ([err_meta]: the token at
   index length - rem of the significant stream, the EOF meta for an error at the end of input -
   this is the token whose type / literal / line / column the correspondence compares with the
   real parser) exists, is one of the tokens the parser was given, is the image of the model's
   error token (or the EOF meta), and its (line, column) designates its text.
   From C02's parse_error_located (the error token is eof_tok or the token at that index),
   C01_pump_tokens_located and C01_parse_eof_located. *)
Theorem C01_parse_error_located :
  forall fok mode (s : list byte) k t rem,
  parse_source fok mode s = ParseBase.PErr k t rem ->
  exists ms m, pump s = OK ms /\ err_meta ms t rem = Some m /\ In m ms /\
               designates (dec_all s) (mtok m) /\
               (conv (mtok m) = t \/ (t = ParseBase.eof_tok /\ is_eof (mtok m) = true)).
Proof. exact parse_error_located. Qed.

(* T tie: the keyword table regenerated from token/token.go is the documented one; the token
   type names are pairwise distinct and none is empty. *)
Theorem C01_keywords_documented : keywords = keywords_ref.
Proof. exact keywords_documented. Qed.

(* T tie: the character classes (isLetter, isDigit, isDecimalDigit, isHexDigit,
   isLongStringDelimiter) and the loop conditions of skipWhitespace, readString and the identifier
   tail, regenerated from the Go boolean expressions, are the documented ones for EVERY rune. The
   model is built on the regenerated functions. *)
Theorem C01_char_classes_documented : forall r : rune,
  is_letter r = ref_letter r /\ is_decimal r = ref_decimal r /\ is_digit r = ref_digit r /\
  is_hex r = ref_hex r /\ is_delim r = ref_delim r /\ is_space r = ref_space r /\
  in_string r = ref_in_string r /\ is_ident_cont r = ref_ident_cont r.
Proof. exact char_classes_documented. Qed.

(* T tie: the `switch l.char` of NextToken, regenerated as a decision table (character, look-ahead
   characters, token type, spelling), is the documented operator / punctuation table (special
   actions - strings, comments, long strings, EOF - compared by position only) ... *)
Theorem C01_operator_table_documented :
  map (fun p => (fst p, erase (snd p))) op_table = ref_op_table.
Proof. exact op_table_documented. Qed.

(* ... and the model follows the regenerated table: on every entry free of special actions
   (22 of 27), lex_char is the table interpreter. *)
Theorem C01_lex_char_follows_table :
  forall c tree, In (c, tree) op_table -> simple tree = true ->
  forall n st, ch st = c -> lex_char n st = interp tree st (line st) (idx st).
Proof. exact lex_char_follows_table. Qed.

(* ... also on the entries whose literal is read by a loop of reader.go: `/` (/=, // comment,
   block comment, or SLASH) and `#` - 24 of 27 entries; the remaining three (`{`, the quote, EOF)
   are tied by the differential run. *)
Theorem C01_lex_char_follows_table_c :
  forall c tree, In (c, tree) op_table -> simple_c tree = true ->
  forall n st, ch st = c -> lex_char n st = interp_c n tree st (line st) (idx st).
Proof. exact lex_char_follows_table_c. Qed.

Theorem C01_token_types_distinct : nodup_b all_types = true /\ str_in [] all_types = false.
Proof. exact types_distinct. Qed.

Print Assumptions C01_lex_returns.
Print Assumptions C01_lex_total.
Print Assumptions C01_lex_no_crash.
Print Assumptions C01_next_token_progress.
Print Assumptions C01_lex_typed.
Print Assumptions C01_lex_ends_with_eof.
Print Assumptions C01_lex_located.
Print Assumptions C01_get_line_spec.
Print Assumptions C01_token_line_spec.
Print Assumptions C01_position_unique.
Print Assumptions C01_eof_stable.
Print Assumptions C01_peek_then_next.
Print Assumptions C01_peek_idempotent.
Print Assumptions C01_pump_total.
Print Assumptions C01_pump_no_crash.
Print Assumptions C01_pump_refines_lexer.
Print Assumptions C01_pump_source_returns.
Print Assumptions C01_source_long_ok.
Print Assumptions C01_parse_total.
Print Assumptions C01_parse_no_crash.
Print Assumptions C01_pump_tokens_located.
Print Assumptions C01_parse_eof_located.
Print Assumptions C01_parse_error_located.
Print Assumptions C01_keywords_documented.
Print Assumptions C01_char_classes_documented.
Print Assumptions C01_operator_table_documented.
Print Assumptions C01_lex_char_follows_table.
Print Assumptions C01_lex_char_follows_table_c.
Print Assumptions C01_token_types_distinct.
