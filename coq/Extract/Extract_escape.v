(* Extraction of the quoting / string-escape / rendering model (C20): ExtrOcamlBasic only. *)
From Coq Require Extraction ExtrOcamlBasic.
From Falco Require Import Base.Res Base.Bytes Base.Utf8 Model.Escape Model.Rules Model.Snippets.
Extraction Language OCaml.
Extraction "escape_model.ml" vcl_quote clean_comment sanitize decode_string_escapes read_string
  render_dict render_acl render_backend render_director parse_table n2b b2n
  render_rule render_content_type longstring scoped include_of t_none.
