(* Extraction of the C09 token model: ExtrOcamlBasic only; nat, positive, N stay inductives. *)
From Coq Require Extraction ExtrOcamlBasic.
From Falco Require Import Model.Decor.
Extraction Language OCaml.
Extraction "decor_model.ml" pump significant annotations rendered.
