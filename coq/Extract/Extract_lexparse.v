(* Extraction of the composed model bytes -> lexer -> pump -> parser (C01 closing the parser half):
   ExtrOcamlBasic only; nat, positive, N, Z, byte, string stay extracted inductives. *)
From Coq Require Extraction ExtrOcamlBasic.
From Coq Require Import List.
From Falco Require Import Base.Res Base.Bytes Base.Utf8 Model.Lex Model.Pump Model.LexParse.
Extraction Language OCaml.
Extraction "lexparse_model.ml" parse_outcomes enc_all dec_all n2b b2n.
