(* Extraction of the C11 models (include expansion, scope inference, recursion detection):
   ExtrOcamlBasic only; nat, positive, N stay inductives. *)
From Coq Require Extraction ExtrOcamlBasic.
From Coq Require Import NArith.
From Falco Require Import Base.Res Model.Include Model.ScopeInfer.
Extraction Language OCaml.
Extraction "lintdet_model.ml" resolve_table infer_program detect_program unused.
