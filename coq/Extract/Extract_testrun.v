(* Extraction of the test-runner model (C10): ExtrOcamlBasic only. *)
From Coq Require Extraction ExtrOcamlBasic.
From Falco Require Import Base.Res Model.TestRun Model.TestRunCover Model.TestRunInst.
Extraction Language OCaml.
Extraction "testrun_model.ml" irun_file irun_items exit_status iexec iinstr untag.
