(* Extraction of the parser model: ExtrOcamlBasic only; nat, positive, N, Z, byte, string
   stay extracted inductives. *)
From Coq Require Extraction ExtrOcamlBasic.
From Coq Require Import String.
From Coq Require Import List.
From Falco Require Import Base.Bytes Gen.TokenTypes Model.ParseKinds Gen.ParserTables
  Model.ParseBase Model.Ast Model.ParseLit Model.ParseExpr Model.ParseStmt Model.ParseDecl Model.ParseComments.
Definition tname_b (t : ttype) : list byte := s2b (tname t).
Extraction Language OCaml.
Extraction "parse_model.ml" parse_vcl parse_snippet parse_vcl_or_snippet parse_expression
  n2b b2n all_ttypes tname_b read_peek_stream.
