(* Extraction of the store model (C13): ExtrOcamlBasic only; nat, positive, N, Z, byte stay inductives. *)
From Coq Require Extraction ExtrOcamlBasic.
From Falco Require Import Base.Res Base.Bytes Model.StoreSyntax Model.Store Model.StoreOps.
Extraction Language OCaml.
Extraction "store_model.ml" run_main init_state std_ops repaired original of_bits64 to_bits64 n2b b2n mk_snap field_of_text hget.
