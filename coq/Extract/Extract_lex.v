(* Extraction of the lexer / pump model: ExtrOcamlBasic only (bool, option, list, prod,
   unit, sumbool mapped to OCaml's); nat, positive, N, Z, byte stay inductives. *)
From Coq Require Extraction ExtrOcamlBasic.
From Falco Require Import Base.Res Base.Bytes Base.Utf8 Gen.Tokens Model.Lex Model.Pump.
Extraction Language OCaml.
Extraction "lex_model.ml" tokens pump enc_all dec_all n2b b2n.
