(* Extraction of the C07/C08 evaluator models: ExtrOcamlBasic only; nat, positive, N, Z stay
   extracted inductives. *)
From Coq Require Extraction ExtrOcamlBasic.
From Falco Require Import Base.Res Model.Acl.
Extraction Language OCaml.
Extraction "eval_model.ml" impl_match spec_match old_match.
