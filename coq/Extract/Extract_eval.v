(* Extraction of the C07/C08 evaluator models: ExtrOcamlBasic only; nat, positive, N, Z, byte
   stay extracted inductives. *)
From Coq Require Extraction ExtrOcamlBasic.
From Falco Require Import Base.Res Base.Bytes Gen.EvalConst Model.Float Model.Acl Model.Val Model.Assign Model.Oper Model.Exec Model.EvalInclude Model.Concat Model.Eval Model.CallTree Model.Builtins Model.ReGroup.
Extraction Language OCaml.
Extraction "eval_model.ml" impl_match spec_match old_match
  n2b b2n sf_of_bits bits_of_sf local_set assign oper create
  exec_sub serve resolve maxCallStackExceedCount MaxVarnishRestarts exec_block concat_series check_call_tree MaxSubroutineCallTree strrep strpad randomstr MaxRequestWorkspaceSize trace read.
