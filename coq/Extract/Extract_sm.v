(* Extraction of the request state machine model (C06): ExtrOcamlBasic only; nat, positive, N, Z
   stay extracted inductives. *)
From Coq Require Extraction ExtrOcamlBasic.
From Falco Require Import Base.Res Base.SMBase Gen.SMConst Model.SM Model.SMDoc.
Extraction Language OCaml.
Extraction "sm_model.ml" run_history r_flows init stored_fresh rc_bucket max_varnish_restarts model_outcome all_cells doc_outcome.
