(* Extraction of the header-store model (C17): ExtrOcamlBasic only. *)
From Coq Require Extraction ExtrOcamlBasic.
From Falco Require Import Base.Bytes Model.HdrField Model.Hdr Model.HdrMulti.
Extraction Language OCaml.
Extraction "hdr_model.ml" run st0 step mrun mst0 mstep h_getfn get_field set_field unset_field n2b b2n.
