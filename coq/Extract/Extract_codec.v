(* Extraction of the codec model: ExtrOcamlBasic only (bool, option, list, prod,
   unit, sumbool mapped to OCaml's); nat, positive, N, Z, byte stay inductives. *)
From Coq Require Extraction ExtrOcamlBasic.
From Falco Require Import Base.Res Base.Bytes Base.Utf8 Model.CodecAst Model.Codec Model.CodecWf Model.CodecPlugin.
Extraction Language OCaml.
Extraction "codec_model.ml" encode decode enc_all dec_all n2b b2n
  wfb_block wfb_stmt encode1 read_request classify kind_of kind_name all_kinds lintable.
