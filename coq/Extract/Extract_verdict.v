(* Extraction of the lint-verdict model: ExtrOcamlBasic only. *)
From Coq Require Extraction ExtrOcamlBasic.
From Falco Require Import Base.Bytes Model.Verdict.
Extraction Language OCaml.
Extraction "verdict_model.ml" run_lint overrides_of n2b b2n.
