(* Extraction of the lint-verdict model: ExtrOcamlBasic only. *)
From Coq Require Extraction ExtrOcamlBasic.
From Falco Require Import Base.Bytes Model.Verdict Model.VerdictExt.
Extraction Language OCaml.
Extraction "verdict_model.ml" run_lint overrides_of cfg_of flag_of_name yverbose_of doc_files run_stats sev_of_string n2b b2n.
