(* Extraction of the formatter token model: ExtrOcamlBasic only (bool, option, list, prod,
   unit mapped to OCaml's); nat, positive, N, byte, ascii, string stay inductives. *)
From Coq Require Extraction ExtrOcamlBasic.
From Falco Require Import Base.Bytes Model.FmtTok Model.FmtNorm.
Extraction Language OCaml.
Extraction "fmt_model.ml" norm restyle_text comments significant default_config n2b b2n.
