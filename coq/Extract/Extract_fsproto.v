(* Extraction of the fmt --write protocol model (C16): ExtrOcamlBasic only. *)
From Coq Require Extraction ExtrOcamlBasic.
From Falco Require Import Base.Bytes Model.FsProto.
Extraction Language OCaml.
Extraction "fsproto_model.ml" fmt_w fmt_w_old exec exec_ops exit_of exit_of_old inject run_prefix run_effs n2b b2n.
