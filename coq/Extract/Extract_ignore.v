(* Extraction of the ignore-comment model: ExtrOcamlBasic only. *)
From Coq Require Extraction ExtrOcamlBasic.
From Falco Require Import Base.Bytes Model.Ignore Model.IgnoreLegacy.
Extraction Language OCaml.
Extraction "ignore_model.ml" report_vcl report_vcl_unrepaired report parse_ignore_comment n2b b2n.
