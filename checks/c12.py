"""C12 - ignore comments suppress exactly what they cover.

proof  : coq/Props/C12.v over Model/Ignore.v (ignore_restores, ignore_exact for next-line /
         this-line directives at any node, any nesting, any other directives; range_exact;
         comment parsing of every rendering; refutations for overlapping ranges)
tie    : C  extracted model (build/modelrun_ignore: report_vcl) vs the real linter
            (build/implrun lint-ignore: l.Errors as (rule, line)) on generated programs with 0, 1 or 2
            directives in every kind of slot; exhaustive over all statement-tree shapes up to a
            bound x every single-directive placement.
oracle : on the implementation alone, for EVERY case: errors(with directives) = errors(without) minus exactly
         those located in the covered statement(s) and named by the directive(s).  One construct is a recorded
         known finding (two overlapping start..end pairs that share rules: overlap_facts); a deviation there
         prints KNOWN-FINDING, any other deviation is a VIOLATION.
"""
import os
import re
import vcommon as V
from gen import ignoregen as G

IMPL = [os.path.join(V.BUILD, "implrun"), "lint-ignore"]


def hxs(t):
    return '"' + t.encode().hex() + '"'


def parse_reply(rep):
    """'ok rule@line rule@file#line ...' -> [(rule, line | (file, line))] | None"""
    if rep is None or not rep.startswith("ok"):
        return None
    out = []
    for it in rep.split()[1:]:
        r, _, ln = it.rpartition("@")
        if "#" in ln:
            f, _, l2 = ln.rpartition("#")
            out.append((r, (f, int(l2))))
        else:
            out.append((r, int(ln)))
    return out


META_IDEMIT = ("sub", "other", "simple", "if", "branch", "switch", "case", "block")


def read_dump(dump):
    """the reply of `implrun ignore-meta`: (model request, {(line, position): (node number, list 0|1|2, node kind)}) or None.
    Node numbers are pre-order, blocks counted - the numbering of gen/ignoregen.py Program.number()."""
    if dump is None or not dump.startswith("ok "):
        return None
    toks = re.findall(r'\(|\)|"[0-9a-f]*"@\d+:\d+|[^\s()]+', dump[3:])
    land = {}
    counter = [0]
    pos = [0]

    def walk():
        # toks[pos] == "("
        pos[0] += 1
        head = toks[pos[0]] if toks[pos[0]] not in ("(", ")") else None
        me = None
        if head in META_IDEMIT:
            me = counter[0]
            counter[0] += 1
        if head == "m":
            pos[0] += 1
            lists = []
            for li in range(3):
                pos[0] += 1          # "("
                items = []
                while toks[pos[0]] != ")":
                    items.append(toks[pos[0]])
                    pos[0] += 1
                pos[0] += 1
                lists.append(items)
            pos[0] += 1              # ")"
            return ("m", lists)
        kids = []
        if head is not None:
            pos[0] += 1
        while toks[pos[0]] != ")":
            if toks[pos[0]] == "(":
                k = walk()
                if k[0] == "m" and me is not None:
                    for li, items in enumerate(k[1]):
                        for it in items:
                            m = re.match(r'"[0-9a-f]*"@(\d+):(\d+)', it)
                            land[(int(m.group(1)), int(m.group(2)))] = (me, li, head)
            else:
                pos[0] += 1
        pos[0] += 1
        return (head, None)
    walk()
    return re.sub(r'("[0-9a-f]*")@\d+:\d+', r"\1", dump[3:]), land


def full_line_map(prog):
    """line (or (snippet file, line)) -> node id"""
    m = {}
    for n in prog.nodes():
        if n.kind == "block":
            continue
        if n.file is not None:
            m[(n.file, n.srcline)] = n.id
        elif n.line is not None:
            m[n.line] = n.id
    return m


def locate(prog, errs):
    """[(rule, line)] -> sorted [(rule, node id)]; a diagnostic on a line owned by no node gets a negative id"""
    lm = full_line_map(prog)
    out = []
    for r, ln in errs:
        out.append((r, lm.get(ln, -(ln if isinstance(ln, int) else 10 ** 6 + ln[1]))))
    return sorted(out)


class Case:
    __slots__ = ("prog", "placements", "src", "covered", "facts", "label", "desc", "nbase",
                 "static_cov", "slot_dirs", "subtree", "base_loc", "dg", "extra_req", "py_sexp")


def subtree_map(prog):
    if getattr(prog, "_subtree", None) is None:
        prog._subtree = {n.id: frozenset(x.id for x in n.walk()) for n in prog.nodes()}
    return prog._subtree


KEYWORDS = {"falco-ignore-next-line": "next-line", "falco-ignore": "this-line", "falco-ignore-start": "start", "falco-ignore-end": "end"}


def py_parse(comment):
    """what a comment means as a directive: (kind, [rules]) or None - the reading the linter documents: optional comment
    marker, blanks and '@', the keyword, a blank, a comma separated rule list; used by the oracle, independent of model and linter"""
    c = comment.strip()
    body = c.lstrip("#@*/ ")
    if c.startswith("/*") and body.endswith("*/"):
        body = body[:-2]
    word, _, rest = body.partition(" ")
    if word not in KEYWORDS:
        return None
    return KEYWORDS[word], [r.strip() for r in rest.split(",") if r.strip()]


HOSTILE = [
    lambda k, rs: "#" + k + (" " + ",".join(rs) if rs else ""),                    # no blank after the marker
    lambda k, rs: "#### " + k + (" " + " ,, ".join(rs) + " ,," if rs else ""),     # repeated markers, empty items
    lambda k, rs: "# @" + k + (" " + ", ".join(rs + rs) if rs else ""),            # annotation style, duplicated rules
    lambda k, rs: "//   " + k + ("   " + "  ,  ".join(rs) if rs else "   "),       # runs of blanks
    lambda k, rs: "# " + k + "\t" + ", ".join(rs or ["x"]),                        # a tab instead of the blank: not a directive
    lambda k, rs: "# " + k.upper() + (" " + ", ".join(rs) if rs else ""),          # upper case: not a directive
    lambda k, rs: "# " + k + "x" + (" " + ", ".join(rs) if rs else ""),            # keyword with a suffix: not a directive
    lambda k, rs: "# " + k + " " + ", ".join((rs or []) + ["no/such-rule", "another.unknown_rule", "*", "--"]),
    lambda k, rs: "/* " + k + (" " + ", ".join(rs) if rs else "") + "*/",          # terminator glued to the text
    lambda k, rs: "# see " + k + " below",                                         # the keyword is not the first word
    lambda k, rs: "# " + k + " " + ", ".join((rs or ["a/b"]) * 40),                # a very long list
]
WORD = {"next-line": "falco-ignore-next-line", "this-line": "falco-ignore", "start": "falco-ignore-start", "end": "falco-ignore-end"}


def slots_of(prog):
    """every (node, where) a directive comment can be put"""
    lead = [n for n in prog.nodes() if n.kind != "block"]
    trail = [n for n in prog.nodes() if n.kind in ("simple", "decl")]
    infix = [n for n in prog.nodes() if n.kind == "block"]
    return lead, trail, infix


def range_choices(prog):
    """(list owner, list, i, j): start before list[i], end before list[j] (or in the owner block's infix when j == len)"""
    out = []
    for owner, lst in prog.lists():
        n = len(lst)
        for i in range(n):
            for j in range(i + 1, n + 1):
                if j == n and (owner is None or owner.kind != "block"):
                    continue
                out.append((owner, lst, i, j))
    return out


def apply_placement(prog, pl):
    """pl = dict(kind, node, where, text) ; appended in order"""
    node = pl["node"]
    if pl["where"].startswith("extra:"):
        lst = node.extra.setdefault(pl["where"][6:], [])
    else:
        lst = getattr(node, pl["where"])
    pl["obj"] = G.Tagged(pl["text"])
    if pl.get("front"):
        lst.insert(0, pl["obj"])
    else:
        lst.append(pl["obj"])


def covered_by(prog, d):
    """ids of the nodes a directive (or start/end pair) covers, per the property"""
    if d["form"] == "next-line":
        return prog.subtree_ids(d["node"])
    if d["form"] == "this-line":
        return {d["node"].id}
    if d["form"] == "range":
        ids = set()
        for k in range(d["i"], d["j"]):
            ids |= prog.subtree_ids(d["lst"][k])
        return ids
    if d["form"] == "open":
        # everything the walk enters from that node on (node ids are pre-order)
        return {x.id for x in prog.nodes() if x.id >= d["node"].id}
    return set()     # dead placement


def mk_directive(rng, prog, fired_rules, form=None, marker=None, with_rules=None):
    lead, trail, infix = slots_of(prog)
    form = form or rng.choice(["next-line"] * 4 + ["this-line"] * 3 + ["range"] * 4 + ["dead"] + ["slot"] * 4 + ["hostile"] * 2 + ["open"])
    marker = marker or rng.choice(G.MARKERS)
    if with_rules is None:
        with_rules = rng.random() < 0.5
    rules = []
    if with_rules:
        pool = [r for r in fired_rules if r != "-"] or ["function/arguments"]
        rules = rng.sample(pool, min(len(pool), rng.choice([1, 1, 2, 3])))
        if rng.random() < 0.15:
            rules.append("acl/syntax")            # a rule that never fires here
    d = {"form": form, "rules": rules, "marker": marker, "placements": []}
    if form == "next-line":
        d["node"] = rng.choice(lead)
        d["placements"].append({"node": d["node"], "where": "lead", "text": G.comment(marker, "next-line", rules, rng),
                                "front": rng.random() < 0.5})
    elif form == "this-line":
        d["node"] = rng.choice(trail)
        d["placements"].append({"node": d["node"], "where": "trail", "text": G.comment(marker, "this-line", rules, rng)})
    elif form == "range":
        owner, lst, i, j = rng.choice(range_choices(prog))
        d.update(owner=owner, lst=lst, i=i, j=j)
        d["placements"].append({"node": lst[i], "where": "lead", "text": G.comment(marker, "start", rules, rng),
                                "front": rng.random() < 0.5})
        m2 = marker if rng.random() < 0.7 else rng.choice(G.MARKERS)
        if j < len(lst):
            d["placements"].append({"node": lst[j], "where": "lead", "text": G.comment(m2, "end", rules, rng),
                                    "front": rng.random() < 0.5})
        else:
            d["placements"].append({"node": owner, "where": "infix", "text": G.comment(m2, "end", rules, rng)})
    elif form == "hostile":
        # odd spellings of a next-line / trailing directive; what they mean is decided by py_parse
        kind = rng.choice(["next-line", "this-line"])
        text = rng.choice(HOSTILE)(WORD[kind], rules)
        meaning = py_parse(text)
        n = rng.choice(lead if kind == "next-line" else trail)
        if kind == "this-line" and not text.startswith("/*") and n.trail:
            n = rng.choice(lead)
            kind = "next-line"
            text = rng.choice(HOSTILE)(WORD[kind], rules)
            meaning = py_parse(text)
        d.update(node=n, hostile=text, marker="hostile")
        d["placements"].append({"node": n, "where": "lead" if kind == "next-line" else "trail", "text": text})
        if meaning is not None and meaning[0] == kind:
            d["form"], d["rules"] = kind, meaning[1]
        else:
            d["form"], d["dead"] = "dead", "hostile"
    elif form == "open":
        # falco-ignore-start and no end: the rest of the file - before a root declaration, or before a statement anywhere
        # inside a subroutine body (then the variables declared before it and the subroutine itself are NOT covered)
        if rng.random() < 0.5:
            n = rng.choice(prog.subs)
        else:
            n = rng.choice([x for x in prog.nodes() if x.kind in ("simple", "if", "switch")
                            and not x.text.startswith(("break", "fallthrough"))] or prog.subs)
        d.update(form="open", node=n)
        d["placements"].append({"node": n, "where": "lead", "text": G.comment(marker, "start", rules, rng)})
    elif form == "slot":
        # one of the other comment placeholders of docs/parser.md; what it covers follows from where the parser attaches it
        cands = [(n, sl) for n in prog.nodes() for sl in n.slots()]
        n, sl = rng.choice(cands)
        kind = rng.choice(["next-line", "next-line", "this-line"])
        mk = marker if sl in G.LINE_END_SLOTS else "/*"
        d.update(node=n, slot=sl, kind=kind, marker=mk)
        d["placements"].append({"node": n, "where": "extra:" + sl, "text": G.comment(mk, kind, rules, rng)})
    else:   # dead: a directive keyword in a position where the linter does not look for it
        k = rng.choice(["this-in-lead", "next-in-trail", "start-in-trail", "next-in-infix"])
        if k == "this-in-lead":
            d["placements"].append({"node": rng.choice(lead), "where": "lead", "text": G.comment(marker, "this-line", rules, rng)})
        elif k == "next-in-trail":
            d["placements"].append({"node": rng.choice(trail), "where": "trail", "text": G.comment(marker, "next-line", rules, rng)})
        elif k == "start-in-trail":
            d["placements"].append({"node": rng.choice(trail), "where": "trail", "text": G.comment(marker, "start", rules, rng)})
        else:
            d["placements"].append({"node": rng.choice(infix), "where": "infix", "text": G.comment(marker, "next-line", rules, rng)})
        d["dead"] = k
    return d


def snippet_program(rng, bld, k):
    """sub vcl_recv whose #FASTLY RECV macro embeds 1-2 managed snippets; the first embedded statement carries k % 4 comments.
    Returns (program, request suffix, plain source)."""
    n_main = rng.randint(2, 4)
    main = [bld.simple() for _ in range(n_main)]
    at = 0 if rng.random() < 0.7 else rng.randrange(n_main)          # the statement that carries the macro
    main[at].fixed_lead = [rng.choice(["#FASTLY RECV", "#FASTLY recv", "#FASTLY RECV managed snippets go here"])]
    snips = []
    for j in range(rng.choice([1, 1, 2])):
        for i in range(rng.choice([1, 2])):
            st = bld.simple()
            st.file = "snippet::managed%d" % j
            if j == 0 and i == 0:
                st.fixed_lead = ["# managed by fastly (%d)" % t for t in range(k % 4)]
            elif rng.random() < 0.3:
                st.fixed_lead = ["// a comment"]
            snips.append(st)
    body = main[:at] + snips + main[at:]
    tail = G.Node("sub", "vcl_deliver", [bld.block([bld.simple(0)])])
    prog = G.Program([G.Node("sub", "vcl_recv", [bld.block(body)]), tail]).number()
    prog.macro_stmt = main[at]
    prog.clear()
    plain = prog.render()
    return prog, prog.snippet_req, plain


def include_program(rng, bld, k):
    """sub vcl_recv with an `include "m<k>";` statement somewhere in its body (or in a nested if block): the module's
    statements take the place of the include statement in the walk.  Returns (program, request suffix, plain source)."""
    n_main = rng.randint(1, 4)
    main = [bld.simple() for _ in range(n_main)]
    mod = []
    for i in range(rng.randint(1, 3)):
        st = bld.simple()
        st.file = "mod::m%d" % k
        if rng.random() < 0.3:
            st.fixed_lead = ["# a comment of the module"]
        mod.append(st)
    at = rng.randrange(n_main + 1)
    if rng.random() < 0.3:
        body = main[:at] + [bld.if_(mod + [bld.simple()])] + main[at:]
    else:
        body = main[:at] + mod + main[at:]
    tail = G.Node("sub", "vcl_deliver", [bld.block([bld.simple(0)])])
    prog = G.Program([G.Node("sub", "vcl_recv", [bld.block(body)]), tail]).number()
    prog.macro_stmt = None
    prog.clear()
    plain = prog.render()
    return prog, prog.snippet_req, plain


def snippet_directives(rng, prog, fired, j):
    """directives above / below / around the macro line (systematic for the first cases), then anywhere"""
    m = prog.macro_stmt
    if m is None:
        return [mk_directive(rng, prog, fired, form=rng.choice(["next-line", "this-line", "range", "range"])) for _ in range(rng.choice([1, 1, 2]))]
    named = [r for r in fired if r != "-"]
    rules = [rng.choice(named)] if named and j % 2 else []
    mk = G.MARKERS[j % 3]

    def nl(where):
        return {"form": "next-line", "rules": rules, "marker": mk, "node": m,
                "placements": [{"node": m, "where": where, "text": G.comment(mk, "next-line", rules)}]}
    if j == 0 or j == 1:
        return [nl("lead")]                               # below the macro, directly above the statement
    if j == 2 or j == 3:
        return [nl("pre_lead")]                           # above the macro
    if j in (4, 5, 6, 7):
        # start above / below the macro, end before a later statement of the body (or before the closing brace)
        owner = next(n for n in prog.nodes() if n.kind == "block" and m in n.kids)
        lst = owner.kids
        i = lst.index(m)
        jj = rng.randint(i + 1, len(lst))
        pls = [{"node": m, "where": "pre_lead" if j < 6 else "lead", "text": G.comment(mk, "start", rules)}]
        if jj < len(lst):
            pls.append({"node": lst[jj], "where": "lead", "text": G.comment(mk, "end", rules)})
        else:
            pls.append({"node": owner, "where": "infix", "text": G.comment(mk, "end", rules)})
        return [{"form": "range", "rules": rules, "marker": mk, "owner": owner, "lst": lst, "i": i, "j": jj, "placements": pls}]
    return [mk_directive(rng, prog, fired, form=rng.choice(["next-line", "this-line", "range"])) for _ in range(rng.choice([1, 2]))]


def mk_stack(rng, prog, dg):
    """2-4 directives in force at once on ONE statement: next-line comments, trailing falco-ignore comments, start..end pairs
    that begin at it - same kind or mixed - with rule lists that are disjoint, overlapping, empty (= all) or repeated, so
    that a diagnostic of the statement is named only by an earlier / only by a later / by several / by none of them"""
    simples = [n for n in prog.nodes() if n.kind == "simple" and not n.text.startswith(("break", "fallthrough"))]
    with_diags = [n for n in simples if dg.get(n.id)]
    n = rng.choice(with_diags or simples)
    own = [r for r in dg.get(n.id, []) if r != "-"]
    pool = list(dict.fromkeys(own + ["acl/syntax", "function/arguments", "operator/assignment"]))
    owner, lst = next((o, l) for o, l in prog.lists() if n in l)
    i = lst.index(n)
    out = []
    kinds = rng.choice([["next-line"], ["this-line"], ["range"], ["next-line", "this-line", "range"], ["next-line", "range"]])
    for t in range(rng.randint(2, 4)):
        kind = rng.choice(kinds)
        pick = rng.random()
        rules = [] if pick < 0.2 else rng.sample(pool, min(len(pool), rng.choice([1, 1, 2])))
        if rng.random() < 0.15 and rules:
            rules = rules + [rules[0]]
        mk = "/*" if kind == "this-line" else rng.choice(G.MARKERS)
        if kind == "next-line":
            out.append({"form": "next-line", "rules": rules, "marker": mk, "node": n,
                        "placements": [{"node": n, "where": "lead", "text": G.comment(mk, "next-line", rules), "front": rng.random() < 0.5}]})
        elif kind == "this-line":
            out.append({"form": "this-line", "rules": rules, "marker": mk, "node": n,
                        "placements": [{"node": n, "where": "trail", "text": G.comment(mk, "this-line", rules)}]})
        else:
            cands = [j for j in range(i + 1, len(lst) + 1) if j < len(lst) or (owner is not None and owner.kind == "block")]
            if not cands:
                continue
            j = rng.choice(cands)
            pls = [{"node": n, "where": "lead", "text": G.comment(mk, "start", rules), "front": rng.random() < 0.5}]
            if j < len(lst):
                pls.append({"node": lst[j], "where": "lead", "text": G.comment(mk, "end", rules)})
            else:
                pls.append({"node": owner, "where": "infix", "text": G.comment(mk, "end", rules)})
            out.append({"form": "range", "rules": rules, "marker": mk, "owner": owner, "lst": lst, "i": i, "j": j, "placements": pls})
    return out


def trailing_ok(node):
    """a line comment must be the last thing on the line"""
    for lst in [node.trail] + list(node.extra.values()):
        for c in lst[:-1]:
            if not c.startswith("/*"):
                return False
    return True


def describe(d):
    s = "%s[%s]%s" % (d["form"], d["marker"], "(" + ",".join(d["rules"]) + ")" if d["rules"] else "")
    if "node" in d:
        s += "@%s#%d" % (d["node"].kind, d["node"].id)
    if d["form"] == "range":
        s += "@%s[%d:%d]" % (d["owner"].kind if d["owner"] else "program", d["i"], d["j"])
    if d.get("dead"):
        s += ":" + d["dead"]
    if d.get("hostile"):
        s += ":" + repr(d["hostile"][:60])
    if d["form"] == "slot":
        s += ":" + d["kind"] + "@" + d["slot"]
    return s


def expected_by_oracle(prog, base_located, ds):
    """baseline diagnostics minus those covered and named by some directive"""
    cov = [(covered_by(prog, d), d["rules"]) for d in ds]
    out = []
    for r, nid in base_located:
        hit = False
        for ids, rules in cov:
            if nid in ids and (not rules or r in rules):
                hit = True
        if not hit:
            out.append((r, nid))
    return sorted(out)


KNOWN_OVERLAP = {"construct": "overlapping-ranges-sharing-rules"}


def overlap_facts(prog, ds):
    """The one construct for which the implementation is known (known_findings.txt) not to follow the
    property: two start..end pairs whose source extents overlap in the statement stream (one starts before the
    other has ended: nested or interleaved) AND whose rule lists are not disjoint (a bare pair names every rule).  The
    range set is one set: the end of the inner pair removes its rules from it, also for the outer pair.
    Call after prog.render().  Returns the facts for ctx.violation, or None."""
    rs = [d for d in ds if d["form"] in ("range", "open")]
    if len(rs) < 2:
        return None
    order = prog.comment_order()
    hit = False
    for x in range(len(rs)):
        for y in range(x + 1, len(rs)):
            a, b = rs[x], rs[y]
            # a start without end runs to the end of the file
            (sa, ea), (sb, eb) = [(tuple(order[id(p["obj"])] for p in d["placements"]) + (10 ** 9,))[:2] for d in (a, b)]
            if ea < sb or eb < sa:
                continue                 # one pair is closed before the other opens
            if a["rules"] and b["rules"] and not (set(a["rules"]) & set(b["rules"])):
                continue                 # disjoint rule lists: the pairs do not interfere
            hit = True
    if not hit:
        return None
    return dict(KNOWN_OVERLAP)


def corpus_cases():
    """corpus/C12/*.vcl: first line `# expect: rule@line ...` = what the property demands; an optional second line
    `# known: {json}` marks an input of a recorded known finding (a mismatch is then reported as KNOWN-FINDING)"""
    d = os.path.join(V.VERIF, "corpus", "C12")
    out = []
    if os.path.isdir(d):
        for fn in sorted(os.listdir(d)):
            if fn.endswith(".vcl"):
                src = open(os.path.join(d, fn)).read()
                lines = src.split("\n")
                first = lines[0]
                if first.startswith("# expect:"):
                    exp = sorted((it.rpartition("@")[0], int(it.rpartition("@")[2])) for it in first[len("# expect:"):].split())
                    facts = None
                    if len(lines) > 1 and lines[1].startswith("# known:"):
                        import json as _json
                        facts = _json.loads(lines[1][len("# known:"):])
                    out.append((fn, src, exp, facts))
    return out


def run(ctx):
    rng = ctx.rng
    thorough = ctx.thorough()
    proved = ctx.prove()
    with V.Lock("build"):
        model = V.driver("ignore")
    ctx.trusted += [
        "Coq 8.16.1 kernel (coqc); axioms: none expected (Print Assumptions of Props/C12.v)",
        "extraction: ExtrOcamlBasic only; OCaml 4.13.1; ocaml/common.ml + ocaml/ignore_main.ml (S-expression glue)",
        "harness/cmd/implrun lintapi.go (lint-ignore: ParseVCLOrSnippet + linter.New(conf).Lint, l.Errors as rule@line)",
        "gen/ignoregen.py: rendering of the tree (one statement per line), placement of comments into leading / trailing / "
        "before-closing-brace positions, assignment of the baseline diagnostics to nodes by line; a wrong prediction of where "
        "the parser attaches a comment shows up as a model/implementation disagreement",
        "modelled not verified: Model/Ignore.v is a hand transcription of linter/ignore.go and of the setup/teardown call sites "
        "(lintStatement, lintBlockStatement, lintIfStatement, lintSwitchStatement, lintSubRoutineDeclaration, lintDeclareStatement), "
        "tied by the differential run; the individual lint rules are not modelled (their diagnostics are taken from the baseline run)",
        "strings.TrimSpace is modelled for ASCII white space only (generated rule lists are ASCII)",
    ]
    viol = []   # (size, what, replay, facts)
    known_v = []   # deviations inside the recorded known construct (smallest few kept)

    # ---------------- corpus (minimised inputs of repaired defects): recorded expectation
    cc = corpus_cases()
    reps = V.run_batch(IMPL, [s.encode().hex() for _, s, _, _ in cc], hang_s=10)
    corpus_ok = 0
    for (fn, src, exp, facts), rep in zip(cc, reps):
        got = parse_reply(rep)
        if got is None or sorted(got) != exp:
            (known_v if facts else viol).append((0, "corpus/C12/%s: the linter reports %s, the property demands %s" % (fn, rep, exp),
                                                 {"file": fn, "source": src, "reply": rep, "expected": exp}, facts))
        else:
            corpus_ok += 1

    # ---------------- programs
    bld = G.Builder(rng)
    progs = []
    n_prog = 2500 if thorough else 280
    for i in range(n_prog):
        progs.append(("gen-%d" % i, bld.program()))
    max_shape = 6 if thorough else 5
    max_slot_shape = 5 if thorough else 4
    max_pair_shape = 4 if thorough else 3
    n_snippet = 300 if thorough else 25
    shape_progs = []
    for n in range(1, max_shape + 1):
        for k, sh in enumerate(G.shapes(n)):
            shape_progs.append(("shape-%d-%d" % (n, k), G.shape_program(bld, sh, start=k)))

    # baselines
    allp = progs + shape_progs
    for _, p in allp:
        p.clear()
    base_src = [p.render() for _, p in allp]
    base_rep = V.run_batch(IMPL, [s.encode().hex() for s in base_src], hang_s=10)
    base = {}
    rule_hist = {}
    usable = []
    for (label, p), src, rep in zip(allp, base_src, base_rep):
        errs = parse_reply(rep)
        if errs is None:
            viol.append((len(src), "baseline lint of a generated program failed (%s): %s" % (label, rep),
                         {"source": src, "reply": rep}, None))
            continue
        loc = locate(p, errs)
        if any(nid < 0 for _, nid in loc):
            viol.append((len(src), "a diagnostic of the baseline is located on a line that belongs to no statement (%s)" % label,
                         {"source": src, "reply": rep}, None))
            continue
        for r, _ in loc:
            rule_hist[r] = rule_hist.get(r, 0) + 1
        dg = {}
        for r, nid in loc:
            dg.setdefault(nid, []).append(r)
        base[id(p)] = (loc, dg, sorted(set(r for r, _ in loc)))
        usable.append((label, p))

    # ---------------- cases (processed in chunks: generate, run both sides, compare, forget)
    cases = []
    stat = {"n": 0, "agree": 0, "oracle_agree": 0, "oracle_checked": 0, "nontrivial": 0, "leak_detectors": 0}
    forms = {}
    landed = {}
    distinct = set()
    samples = []
    META = [os.path.join(V.BUILD, "implrun"), "ignore-meta"]

    def fill(req, dg):
        """the parser's tree with the diagnostics of the baseline at the placeholders"""
        def two(m):
            rs = dg.get(int(m.group(1)), [])
            return "(%s) (%s)" % (" ".join(hxs(r) for r in rs if r not in G.DEFERRED_RULES),
                                  " ".join(hxs(r) for r in rs if r in G.DEFERRED_RULES))
        req = re.sub(r"@S(\d+)", two, req)
        return re.sub(r"@P(\d+)", lambda m: "(%s)" % " ".join(hxs(r) for r in dg.get(int(m.group(1)), [])), req)

    def flush():
        if not cases:
            return
        ireps = V.run_batch(IMPL, [c.src.encode().hex() + c.extra_req for c in cases], hang_s=10)
        dumps = V.run_batch(META, [c.src.encode().hex() for c in cases], hang_s=10)
        mreq, lands = [], []
        for c, dump in zip(cases, dumps):
            rd = read_dump(dump)
            lands.append(rd[1] if rd else None)
            # the model is fed the tree and the comment attachment of the real parser; programs with embedded managed
            # snippets (not part of the parsed file) use the tree the generator predicts
            mreq.append("vcl " + (c.py_sexp if c.py_sexp is not None else fill(rd[0], c.dg) if rd else "()"))
        mreps = V.run_batch([model], mreq, hang_s=30)
        for c, ir, mr, land in zip(cases, ireps, mreps, lands):
            linemap, pathmap = c.covered
            errs = parse_reply(ir)
            replay = {"label": c.label, "directives": c.desc, "source": c.src, "impl": ir, "model": mr}
            if c.extra_req:
                replay["scoped_snippets"] = c.extra_req
            size = len(c.src)
            stat["n"] += 1
            if errs is None or (land is None and c.py_sexp is None):
                viol.append((size, "linting / parsing a program with ignore comments failed: %s (%s)" % (ir, c.desc), replay, None))
                continue
            got = sorted((r, linemap.get(ln, -1)) for r, ln in errs)
            if mr is None or not mr.startswith("ok"):
                viol.append((size, "model driver failed: %s" % mr, replay, None))
                continue
            mod = []
            for it in mr.split()[1:]:
                pth, _, rh = it.partition(":")
                mod.append((bytes.fromhex(rh).decode(), pathmap[pth]))
            mod.sort()
            for d in c.placements:
                key = d["form"] + ("+rules" if d["rules"] else "") + " " + d["marker"]
                forms[key] = forms.get(key, 0) + 1
            distinct.add(hash(c.src + c.extra_req))
            if got != mod:
                viol.append((size, "linter and Model/Ignore.v disagree on the reported diagnostics [%s]: only linter %s, only model %s"
                             % (c.desc, sorted(set(got) - set(mod))[:6], sorted(set(mod) - set(got))[:6]), replay, None))
            else:
                stat["agree"] += 1
            # ---- the direct oracle: baseline minus covered-and-named
            cov = list(c.static_cov)
            for (ln, col, kind, rules, slot) in c.slot_dirs:
                at = land.get((ln, col)) if land else None
                where = "nowhere"
                if at is not None:
                    where = "%s.%s" % (at[2], ("leading", "trailing", "infix")[at[1]])
                    if (kind == "next-line" and at[1] == 0) or (kind == "this-line" and at[1] == 1 and at[2] != "block"):
                        cov.append((c.subtree[at[0]], rules))
                key = "%s -> %s" % (slot, where)
                landed[key] = landed.get(key, 0) + 1
            exp = sorted((r, nid) for r, nid in c.base_loc
                         if not any(nid in ids and (not rules or r in rules) for ids, rules in cov))
            if c.facts:
                stat["overlap_cases"] = stat.get("overlap_cases", 0) + 1
            stat["oracle_checked"] += 1
            if got != exp:
                extra = [x for x in got if x not in exp]
                missing = [x for x in exp if x not in got]
                what = ("ignore comment does not suppress exactly what it covers [%s]: " % c.desc
                        + ("still reported inside the covered statements %s; " % extra[:6] if extra else "")
                        + ("suppressed outside the covered statements / unnamed rules %s" % missing[:6] if missing else ""))
                if c.facts:
                    stat["known_overlap"] = stat.get("known_overlap", 0) + 1
                (known_v if c.facts else viol).append((size, what, dict(replay, expected=exp, got=got), c.facts))
            else:
                stat["oracle_agree"] += 1
                if len(exp) < c.nbase:
                    stat["nontrivial"] += 1
                    if exp:
                        stat["leak_detectors"] += 1
        if len(samples) < 3 and len(cases) > 1:
            samples.append({"directives": cases[len(cases) // 2].desc, "source": cases[len(cases) // 2].src[:600]})
        if len(viol) > 400:
            viol.sort(key=lambda v: v[0])
            del viol[200:]
        if len(known_v) > 20:
            known_v.sort(key=lambda v: v[0])
            del known_v[5:]
        del cases[:]

    def add_case(label, p, ds, crlf=False, extra_req="", use_py_sexp=False):
        p.clear()
        p.crlf = crlf
        for d in ds:
            for pl in d["placements"]:
                apply_placement(p, pl)
        if not all(trailing_ok(n) for n in p.nodes()):
            p.crlf = False
            return
        c = Case()
        c.prog, c.placements, c.label = None, [{"form": d["form"], "rules": d["rules"], "marker": d["marker"]} for d in ds], label + ("/crlf" if crlf else "")
        c.src = p.render()
        p.crlf = False
        c.desc = "; ".join(describe(d) for d in ds)
        loc, dg, fired = base[id(p)]
        c.nbase, c.base_loc, c.dg = len(loc), loc, dg
        c.covered = (full_line_map(p), {k: v.id for k, v in p.model_paths().items()})
        c.subtree = subtree_map(p)
        c.static_cov = [(frozenset(covered_by(p, d)), d["rules"]) for d in ds if d["form"] != "slot"]
        c.slot_dirs = [(p.cline[id(d["placements"][0]["obj"])], p.cpos[id(d["placements"][0]["obj"])], d["kind"], d["rules"], d["node"].slot_kind() + "." + d["slot"])
                       for d in ds if d["form"] == "slot"]
        c.facts = overlap_facts(p, ds)
        c.extra_req = p.snippet_req if extra_req is None else extra_req
        c.py_sexp = p.sexp(dg) if use_py_sexp else None
        cases.append(c)
        if len(cases) >= 20000:
            flush()

    per_prog = 40
    stack_n = 0
    for label, p in usable:
        if not label.startswith("gen-"):
            continue
        loc, dg, fired = base[id(p)]
        add_case(label, p, [])
        for k in range(per_prog):
            if rng.random() < 0.2:
                ds = mk_stack(rng, p, dg)
                stack_n += 1
            else:
                nd = rng.choice([1, 1, 1, 2, 2, 3])
                ds = [mk_directive(rng, p, fired) for _ in range(nd)]
            add_case(label, p, ds, crlf=rng.random() < 0.08)

    # exhaustive: every shape x every single-directive placement (marker rotated, with and without a rule list)
    exhaustive_n = slot_n = pair_n = 0
    rot = 0
    for label, p in usable:
        if not label.startswith("shape-"):
            continue
        nshape = int(label.split("-")[1])
        loc, dg, fired = base[id(p)]
        named = [r for r in fired if r != "-"]
        lead, trail, infix = slots_of(p)
        variants = [[]] + ([[named[rot % len(named)]]] if named else [])
        for rules in variants:
            for n in lead:
                rot += 1
                mk = G.MARKERS[rot % 3]
                add_case(label, p, [{"form": "next-line", "rules": rules, "marker": mk, "node": n,
                                     "placements": [{"node": n, "where": "lead", "text": G.comment(mk, "next-line", rules)}]}])
                exhaustive_n += 1
            for n in trail:
                rot += 1
                mk = G.MARKERS[rot % 3]
                add_case(label, p, [{"form": "this-line", "rules": rules, "marker": mk, "node": n,
                                     "placements": [{"node": n, "where": "trail", "text": G.comment(mk, "this-line", rules)}]}])
                exhaustive_n += 1
            for owner, lst, i, j in range_choices(p):
                rot += 1
                mk = G.MARKERS[rot % 3]
                pls = [{"node": lst[i], "where": "lead", "text": G.comment(mk, "start", rules)}]
                if j < len(lst):
                    pls.append({"node": lst[j], "where": "lead", "text": G.comment(mk, "end", rules)})
                else:
                    pls.append({"node": owner, "where": "infix", "text": G.comment(mk, "end", rules)})
                add_case(label, p, [{"form": "range", "rules": rules, "marker": mk, "owner": owner, "lst": lst, "i": i, "j": j,
                                     "placements": pls}])
                exhaustive_n += 1
            # every other comment placeholder of every node, next-line and trailing keyword
            if nshape <= max_slot_shape:
                for n in p.nodes():
                    for sl in n.slots():
                        for kind in ("next-line", "this-line"):
                            rot += 1
                            mk = G.MARKERS[rot % 3] if sl in G.LINE_END_SLOTS else "/*"
                            add_case(label, p, [{"form": "slot", "kind": kind, "slot": sl, "rules": rules, "marker": mk, "node": n,
                                                 "placements": [{"node": n, "where": "extra:" + sl, "text": G.comment(mk, kind, rules)}]}])
                            slot_n += 1
        # nested pairs of rule-listed next-line directives: an outer one before a compound statement, an inner one at any
        # place inside it where the parser makes it a leading comment (of a statement, a branch, a case, a block), each
        # naming one rule, all ordered pairs of the rules raised in the program (state leaking from the inner directive
        # into the rest of the outer statement shows as a diagnostic missing after the inner node)
        if nshape <= max_pair_shape and len(named) >= 2:
            st = subtree_map(p)
            outers = [n for n in p.nodes() if n.kind in ("if", "switch", "sub", "branch", "case")]
            for o in outers:
                inner_slots = [(n, "lead") for n in p.nodes() if n.kind != "block" and n.id in st[o.id] and n.id != o.id]
                inner_slots += [(n, "extra:" + sl) for n in p.nodes() if n.id in st[o.id] for sl in n.slots() if sl in ("brace", "after_brace")]
                for n, where in inner_slots:
                    for ra in named:
                        for rb in named:
                            if ra == rb:
                                continue
                            d_out = {"form": "next-line", "rules": [ra], "marker": "#", "node": o,
                                     "placements": [{"node": o, "where": "lead", "text": G.comment("#", "next-line", [ra])}]}
                            if where == "lead":
                                d_in = {"form": "next-line", "rules": [rb], "marker": "//", "node": n,
                                        "placements": [{"node": n, "where": "lead", "text": G.comment("//", "next-line", [rb])}]}
                            else:
                                d_in = {"form": "slot", "kind": "next-line", "slot": where[6:], "rules": [rb], "marker": "/*", "node": n,
                                        "placements": [{"node": n, "where": where, "text": G.comment("/*", "next-line", [rb])}]}
                            add_case(label, p, [d_out, d_in])
                            pair_n += 1
    # programs whose statement stream the linter changes: managed snippets embedded at the #FASTLY macro
    snippet_n = 0
    sps = [sp for sp in (snippet_program(rng, bld, k) for k in range(n_snippet)) if sp is not None]
    sps += [include_program(rng, bld, k) for k in range(n_snippet)]
    sbase = V.run_batch(IMPL, [plain.encode().hex() + req for _, req, plain in sps], hang_s=10)
    for k, ((prog, req, plain), brep) in enumerate(zip(sps, sbase)):
        errs = parse_reply(brep)
        if errs is None:
            viol.append((len(plain), "baseline lint of a program with managed snippets failed: %s" % brep, {"source": plain, "scoped": req, "reply": brep}, None))
            continue
        loc = locate(prog, errs)
        if any(nid < 0 for _, nid in loc):
            viol.append((len(plain), "a diagnostic of a program with managed snippets is located in no statement", {"source": plain, "scoped": req, "reply": brep}, None))
            continue
        dg = {}
        for r, nid in loc:
            dg.setdefault(nid, []).append(r)
        base[id(prog)] = (loc, dg, sorted(set(r for r, _ in loc)))
        fired = base[id(prog)][2]
        for j in range(12):
            ds = snippet_directives(rng, prog, fired, j)
            add_case("snippets-%d" % k, prog, ds, extra_req=None, use_py_sexp=True)
            snippet_n += 1
    flush()

    # ---------------- verdict
    viol.sort(key=lambda v: v[0])
    known_v.sort(key=lambda v: v[0])
    seen = {}
    for size, what, replay, facts in viol + known_v[:3]:
        cat = ("known: " if facts else "") + what.split("[")[0][:60]
        seen[cat] = seen.get(cat, 0) + 1
        if seen[cat] <= 2 or facts:
            ctx.violation(what, replay, facts)
    if not proved and not ctx.violations:
        ctx.violation("proof obligation of C12 no longer checks: " + (ctx.broken or "Props/C12.v"),
                      {"no_failing_input": True, "broken": ctx.broken,
                       "searched": "%d programs with directives: linter, model and oracle agree on all of them" % stat["n"]})
    ctx.samples = samples
    ctx.coverage.update({
        "evaluations": stat["n"], "distinct_nontrivial": len(distinct),
        "programs_random": len([1 for l, _ in usable if l.startswith("gen-")]),
        "programs_exhaustive_shapes": len([1 for l, _ in usable if l.startswith("shape-")]),
        "exhaustive_bound": "every statement-tree shape with <= %d statements (simple | if | if/else | if/else-if | switch 1-2 cases) "
                            "x every next-line slot, this-line slot and start/end pair, with and without a rule list" % max_shape,
        "exhaustive_single_directive_cases": exhaustive_n,
        "exhaustive_placeholder_cases": slot_n, "exhaustive_placeholder_bound": "shapes with <= %d statements x every placeholder of docs/parser.md x {next-line, trailing keyword} x {bare, one rule}" % max_slot_shape,
        "stacks_of_2_to_4_directives_on_one_statement": stack_n, "nested_rule_listed_pairs": pair_n, "managed_snippet_cases": snippet_n,
        "where_the_parser_attached_the_placeholder_comments": dict(sorted(landed.items())),
        "model_impl_agree": stat["agree"], "oracle_checked": stat["oracle_checked"], "oracle_agree": stat["oracle_agree"],
        "overlapping_range_pairs_sharing_rules": stat.get("overlap_cases", 0),
        "of_which_deviate_from_the_property_(known finding)": stat.get("known_overlap", 0),
        "cases_where_directive_removed_something": stat["nontrivial"],
        "of_which_other_diagnostics_remained": stat["leak_detectors"],
        "directive_forms": dict(sorted(forms.items())),
        "baseline_rule_histogram": dict(sorted(rule_hist.items(), key=lambda kv: -kv[1])),
        "corpus_cases": len(cc), "corpus_ok": corpus_ok,
        "violations_by_category": seen,
        "generator_stats": dict(sorted(bld.stats.items())),
    })
    return ctx.finish(
        level="proof",
        rule="theorems of coq/Props/C12.v over Model/Ignore.v (unbounded trees, any number of other directives); correspondence and "
             "direct oracle: random programs (1-3 subroutines, nesting <= 3) x 40 placements of 1-2 directives, plus the exhaustive "
             "single-directive enumeration over small shapes (distinct = distinct source text)")
