"""C12 - ignore comments suppress exactly what they cover.

proof  : coq/Props/C12.v over Model/Ignore.v (ignore_restores, ignore_exact for next-line /
         this-line directives at any node, any nesting, any other directives; range_exact;
         comment parsing of every rendering; refutations for overlapping ranges)
tie    : C  extracted model (build/modelrun_ignore: report_vcl) vs the real linter
            (build/implrun lint-ignore: l.Errors as (rule, line)) on generated programs with 0, 1 or 2
            directives in every kind of slot; exhaustive over all statement-tree shapes up to a
            bound x every single-directive placement.
oracle : on the implementation alone, for EVERY case: errors(with directives) = errors(without) minus exactly
         those located in the covered statement(s) and named by the directive(s).  One construct is a recorded
         known finding (two overlapping start..end pairs that share rules: overlap_facts); a deviation there
         prints KNOWN-FINDING, any other deviation is a VIOLATION.
"""
import os
import vcommon as V
from gen import ignoregen as G

IMPL = [os.path.join(V.BUILD, "implrun"), "lint-ignore"]


def parse_reply(rep):
    """'ok rule@line ...' -> [(rule, line)] | None"""
    if rep is None or not rep.startswith("ok"):
        return None
    out = []
    for it in rep.split()[1:]:
        r, _, ln = it.rpartition("@")
        out.append((r, int(ln)))
    return out


def locate(prog, errs):
    """[(rule, line)] -> sorted [(rule, node id)]; a diagnostic on a line owned by no node gets id -line"""
    lm = prog.line_map()
    out = []
    for r, ln in errs:
        n = lm.get(ln)
        out.append((r, n.id if n is not None else -ln))
    return sorted(out)


class Case:
    __slots__ = ("prog", "placements", "src", "covered", "facts", "label", "desc", "nbase")


def slots_of(prog):
    """every (node, where) a directive comment can be put"""
    lead = [n for n in prog.nodes() if n.kind != "block"]
    trail = [n for n in prog.nodes() if n.kind == "simple"]
    infix = [n for n in prog.nodes() if n.kind == "block"]
    return lead, trail, infix


def range_choices(prog):
    """(list owner, list, i, j): start before list[i], end before list[j] (or in the owner block's infix when j == len)"""
    out = []
    for owner, lst in prog.lists():
        n = len(lst)
        for i in range(n):
            for j in range(i + 1, n + 1):
                if j == n and (owner is None or owner.kind != "block"):
                    continue
                out.append((owner, lst, i, j))
    return out


def apply_placement(prog, pl):
    """pl = dict(kind, node, where, text) ; appended in order"""
    node = pl["node"]
    lst = getattr(node, pl["where"])
    pl["obj"] = G.Tagged(pl["text"])
    if pl.get("front"):
        lst.insert(0, pl["obj"])
    else:
        lst.append(pl["obj"])


def covered_by(prog, d):
    """ids of the nodes a directive (or start/end pair) covers, per the property"""
    if d["form"] == "next-line":
        return prog.subtree_ids(d["node"])
    if d["form"] == "this-line":
        return {d["node"].id}
    if d["form"] == "range":
        ids = set()
        for k in range(d["i"], d["j"]):
            ids |= prog.subtree_ids(d["lst"][k])
        return ids
    return set()     # dead placement


def mk_directive(rng, prog, fired_rules, form=None, marker=None, with_rules=None):
    lead, trail, infix = slots_of(prog)
    form = form or rng.choice(["next-line"] * 4 + ["this-line"] * 3 + ["range"] * 4 + ["dead"])
    marker = marker or rng.choice(G.MARKERS)
    if with_rules is None:
        with_rules = rng.random() < 0.5
    rules = []
    if with_rules:
        pool = [r for r in fired_rules if r != "-"] or ["function/arguments"]
        rules = rng.sample(pool, min(len(pool), rng.choice([1, 1, 2, 3])))
        if rng.random() < 0.15:
            rules.append("acl/syntax")            # a rule that never fires here
    d = {"form": form, "rules": rules, "marker": marker, "placements": []}
    if form == "next-line":
        d["node"] = rng.choice(lead)
        d["placements"].append({"node": d["node"], "where": "lead", "text": G.comment(marker, "next-line", rules, rng),
                                "front": rng.random() < 0.5})
    elif form == "this-line":
        d["node"] = rng.choice(trail)
        d["placements"].append({"node": d["node"], "where": "trail", "text": G.comment(marker, "this-line", rules, rng)})
    elif form == "range":
        owner, lst, i, j = rng.choice(range_choices(prog))
        d.update(owner=owner, lst=lst, i=i, j=j)
        d["placements"].append({"node": lst[i], "where": "lead", "text": G.comment(marker, "start", rules, rng),
                                "front": rng.random() < 0.5})
        m2 = marker if rng.random() < 0.7 else rng.choice(G.MARKERS)
        if j < len(lst):
            d["placements"].append({"node": lst[j], "where": "lead", "text": G.comment(m2, "end", rules, rng),
                                    "front": rng.random() < 0.5})
        else:
            d["placements"].append({"node": owner, "where": "infix", "text": G.comment(m2, "end", rules, rng)})
    else:   # dead: a directive keyword in a position where the linter does not look for it
        k = rng.choice(["this-in-lead", "next-in-trail", "start-in-trail", "next-in-infix"])
        if k == "this-in-lead":
            d["placements"].append({"node": rng.choice(lead), "where": "lead", "text": G.comment(marker, "this-line", rules, rng)})
        elif k == "next-in-trail":
            d["placements"].append({"node": rng.choice(trail), "where": "trail", "text": G.comment(marker, "next-line", rules, rng)})
        elif k == "start-in-trail":
            d["placements"].append({"node": rng.choice(trail), "where": "trail", "text": G.comment(marker, "start", rules, rng)})
        else:
            d["placements"].append({"node": rng.choice(infix), "where": "infix", "text": G.comment(marker, "next-line", rules, rng)})
        d["dead"] = k
    return d


def trailing_ok(node):
    """a line comment must be the last thing on the line"""
    for c in node.trail[:-1]:
        if not c.startswith("/*"):
            return False
    return True


def describe(d):
    s = "%s[%s]%s" % (d["form"], d["marker"], "(" + ",".join(d["rules"]) + ")" if d["rules"] else "")
    if "node" in d:
        s += "@%s#%d" % (d["node"].kind, d["node"].id)
    if d["form"] == "range":
        s += "@%s[%d:%d]" % (d["owner"].kind if d["owner"] else "program", d["i"], d["j"])
    if d.get("dead"):
        s += ":" + d["dead"]
    return s


def expected_by_oracle(prog, base_located, ds):
    """baseline diagnostics minus those covered and named by some directive"""
    cov = [(covered_by(prog, d), d["rules"]) for d in ds]
    out = []
    for r, nid in base_located:
        hit = False
        for ids, rules in cov:
            if nid in ids and (not rules or r in rules):
                hit = True
        if not hit:
            out.append((r, nid))
    return sorted(out)


KNOWN_OVERLAP = {"construct": "overlapping-ranges-sharing-rules"}


def overlap_facts(prog, ds):
    """The one construct for which the implementation is known (known_findings.txt) not to follow the
    property: two start..end pairs whose source extents overlap (one starts before the other has ended:
    nested or interleaved) AND whose rule lists are not disjoint (a bare pair names every rule).  The
    range set is one set: the end of the inner pair removes its rules from it, also for the outer pair.
    Call after prog.render().  Returns the facts for ctx.violation, or None."""
    rs = [d for d in ds if d["form"] == "range"]
    if len(rs) < 2:
        return None
    a, b = rs[0], rs[1]
    (sa, ea), (sb, eb) = [tuple(prog.cline[id(p["obj"])] for p in d["placements"]) for d in (a, b)]
    if ea < sb or eb < sa:
        return None                      # one pair is closed before the other opens
    if a["rules"] and b["rules"] and not (set(a["rules"]) & set(b["rules"])):
        return None                      # disjoint rule lists: the pairs do not interfere
    return dict(KNOWN_OVERLAP)


def corpus_cases():
    d = os.path.join(V.VERIF, "corpus", "C12")
    out = []
    if os.path.isdir(d):
        for fn in sorted(os.listdir(d)):
            if fn.endswith(".vcl"):
                src = open(os.path.join(d, fn)).read()
                first = src.split("\n", 1)[0]
                if first.startswith("# expect:"):
                    exp = sorted((it.rpartition("@")[0], int(it.rpartition("@")[2])) for it in first[len("# expect:"):].split())
                    out.append((fn, src, exp))
    return out


def run(ctx):
    rng = ctx.rng
    thorough = ctx.thorough()
    proved = ctx.prove()
    with V.Lock("build"):
        model = V.driver("ignore")
    ctx.trusted += [
        "Coq 8.16.1 kernel (coqc); axioms: none expected (Print Assumptions of Props/C12.v)",
        "extraction: ExtrOcamlBasic only; OCaml 4.13.1; ocaml/common.ml + ocaml/ignore_main.ml (S-expression glue)",
        "harness/cmd/implrun lintapi.go (lint-ignore: ParseVCLOrSnippet + linter.New(conf).Lint, l.Errors as rule@line)",
        "gen/ignoregen.py: rendering of the tree (one statement per line), placement of comments into leading / trailing / "
        "before-closing-brace positions, assignment of the baseline diagnostics to nodes by line; a wrong prediction of where "
        "the parser attaches a comment shows up as a model/implementation disagreement",
        "modelled not verified: Model/Ignore.v is a hand transcription of linter/ignore.go and of the setup/teardown call sites "
        "(lintStatement, lintBlockStatement, lintIfStatement, lintSwitchStatement, lintSubRoutineDeclaration, lintDeclareStatement), "
        "tied by the differential run; the individual lint rules are not modelled (their diagnostics are taken from the baseline run)",
        "strings.TrimSpace is modelled for ASCII white space only (generated rule lists are ASCII)",
    ]
    viol = []   # (size, what, replay, facts)
    known_v = []   # deviations inside the recorded known construct (smallest few kept)

    # ---------------- corpus (minimised inputs of repaired defects): recorded expectation
    cc = corpus_cases()
    reps = V.run_batch(IMPL, [s.encode().hex() for _, s, _ in cc], hang_s=10)
    corpus_ok = 0
    for (fn, src, exp), rep in zip(cc, reps):
        got = parse_reply(rep)
        if got is None or sorted(got) != exp:
            viol.append((0, "corpus/C12/%s: the linter reports %s, expected %s" % (fn, rep, exp),
                         {"file": fn, "source": src, "reply": rep, "expected": exp}, None))
        else:
            corpus_ok += 1

    # ---------------- programs
    bld = G.Builder(rng)
    progs = []
    n_prog = 2500 if thorough else 400
    for i in range(n_prog):
        progs.append(("gen-%d" % i, bld.program()))
    max_shape = 6 if thorough else 5
    shape_progs = []
    for n in range(1, max_shape + 1):
        for k, sh in enumerate(G.shapes(n)):
            shape_progs.append(("shape-%d-%d" % (n, k), G.shape_program(bld, sh, start=k)))

    # baselines
    allp = progs + shape_progs
    for _, p in allp:
        p.clear()
    base_src = [p.render() for _, p in allp]
    base_rep = V.run_batch(IMPL, [s.encode().hex() for s in base_src], hang_s=10)
    base = {}
    rule_hist = {}
    usable = []
    for (label, p), src, rep in zip(allp, base_src, base_rep):
        errs = parse_reply(rep)
        if errs is None:
            viol.append((len(src), "baseline lint of a generated program failed (%s): %s" % (label, rep),
                         {"source": src, "reply": rep}, None))
            continue
        loc = locate(p, errs)
        if any(nid < 0 for _, nid in loc):
            viol.append((len(src), "a diagnostic of the baseline is located on a line that belongs to no statement (%s)" % label,
                         {"source": src, "reply": rep}, None))
            continue
        for r, _ in loc:
            rule_hist[r] = rule_hist.get(r, 0) + 1
        dg = {}
        for r, nid in loc:
            dg.setdefault(nid, []).append(r)
        base[id(p)] = (loc, dg, sorted(set(r for r, _ in loc)))
        usable.append((label, p))

    # ---------------- cases (processed in chunks: generate, run both sides, compare, forget)
    cases = []
    stat = {"n": 0, "agree": 0, "oracle_agree": 0, "oracle_checked": 0, "nontrivial": 0, "leak_detectors": 0}
    forms = {}
    distinct = set()
    samples = []

    def flush():
        if not cases:
            return
        ireps = V.run_batch(IMPL, [c.src.encode().hex() for c, _ in cases], hang_s=10)
        mreps = V.run_batch([model], ["vcl " + c.covered[0] for c, _ in cases], hang_s=30)
        for (c, exp), ir, mr in zip(cases, ireps, mreps):
            sexp, linemap, pathmap = c.covered
            errs = parse_reply(ir)
            replay = {"label": c.label, "directives": c.desc, "source": c.src, "impl": ir, "model": mr}
            size = len(c.src)
            stat["n"] += 1
            if errs is None:
                viol.append((size, "linting a program with ignore comments failed: %s (%s)" % (ir, c.desc), replay, None))
                continue
            got = sorted((r, linemap.get(ln, -ln)) for r, ln in errs)
            if mr is None or not mr.startswith("ok"):
                viol.append((size, "model driver failed: %s" % mr, replay, None))
                continue
            mod = []
            for it in mr.split()[1:]:
                pth, _, rh = it.partition(":")
                mod.append((bytes.fromhex(rh).decode(), pathmap[pth]))
            mod.sort()
            for d in c.placements:
                key = d["form"] + ("+rules" if d["rules"] else "") + " " + d["marker"]
                forms[key] = forms.get(key, 0) + 1
            distinct.add(hash(c.src))
            if got != mod:
                viol.append((size, "linter and Model/Ignore.v disagree on the reported diagnostics [%s]: only linter %s, only model %s"
                             % (c.desc, sorted(set(got) - set(mod))[:6], sorted(set(mod) - set(got))[:6]), replay, None))
            else:
                stat["agree"] += 1
            if c.facts:
                stat["overlap_cases"] = stat.get("overlap_cases", 0) + 1
            if exp is not None:
                stat["oracle_checked"] += 1
                if got != exp:
                    extra = [x for x in got if x not in exp]
                    missing = [x for x in exp if x not in got]
                    what = ("ignore comment does not suppress exactly what it covers [%s]: " % c.desc
                            + ("still reported inside the covered statements %s; " % extra[:6] if extra else "")
                            + ("suppressed outside the covered statements / unnamed rules %s" % missing[:6] if missing else ""))
                    if c.facts:
                        stat["known_overlap"] = stat.get("known_overlap", 0) + 1
                    (known_v if c.facts else viol).append((size, what, dict(replay, expected=exp, got=got), c.facts))
                else:
                    stat["oracle_agree"] += 1
                    if len(exp) < c.nbase:
                        stat["nontrivial"] += 1
                        if exp:
                            stat["leak_detectors"] += 1
        if len(samples) < 3 and len(cases) > 1:
            samples.append({"directives": cases[len(cases) // 2][0].desc, "source": cases[len(cases) // 2][0].src[:600]})
        if len(viol) > 400:
            viol.sort(key=lambda v: v[0])
            del viol[200:]
        if len(known_v) > 20:
            known_v.sort(key=lambda v: v[0])
            del known_v[5:]
        del cases[:]

    def add_case(label, p, ds):
        p.clear()
        for d in ds:
            for pl in d["placements"]:
                apply_placement(p, pl)
        if not all(trailing_ok(n) for n in p.nodes() if n.kind == "simple"):
            return
        c = Case()
        c.prog, c.placements, c.label = None, [{"form": d["form"], "rules": d["rules"], "marker": d["marker"]} for d in ds], label
        c.src = p.render()
        c.desc = "; ".join(describe(d) for d in ds)
        loc, dg, fired = base[id(p)]
        c.nbase = len(loc)
        c.covered = (p.sexp(dg), {n.line: n.id for n in p.nodes() if n.kind != "block" and n.line is not None},
                     {k: v.id for k, v in p.model_paths().items()})
        c.facts = overlap_facts(p, ds)
        cases.append((c, expected_by_oracle(p, loc, ds)))
        if len(cases) >= 20000:
            flush()

    per_prog = 40
    for label, p in usable:
        if not label.startswith("gen-"):
            continue
        loc, dg, fired = base[id(p)]
        add_case(label, p, [])
        for k in range(per_prog):
            nd = 1 if rng.random() < 0.55 else 2
            add_case(label, p, [mk_directive(rng, p, fired) for _ in range(nd)])

    # exhaustive: every shape x every single-directive placement (marker rotated, with and without a rule list)
    exhaustive_n = 0
    rot = 0
    for label, p in usable:
        if not label.startswith("shape-"):
            continue
        loc, dg, fired = base[id(p)]
        named = [r for r in fired if r != "-"]
        lead, trail, infix = slots_of(p)
        variants = [[]] + ([[named[rot % len(named)]]] if named else [])
        for rules in variants:
            for n in lead:
                rot += 1
                mk = G.MARKERS[rot % 3]
                add_case(label, p, [{"form": "next-line", "rules": rules, "marker": mk, "node": n,
                                     "placements": [{"node": n, "where": "lead", "text": G.comment(mk, "next-line", rules)}]}])
                exhaustive_n += 1
            for n in trail:
                rot += 1
                mk = G.MARKERS[rot % 3]
                add_case(label, p, [{"form": "this-line", "rules": rules, "marker": mk, "node": n,
                                     "placements": [{"node": n, "where": "trail", "text": G.comment(mk, "this-line", rules)}]}])
                exhaustive_n += 1
            for owner, lst, i, j in range_choices(p):
                rot += 1
                mk = G.MARKERS[rot % 3]
                pls = [{"node": lst[i], "where": "lead", "text": G.comment(mk, "start", rules)}]
                if j < len(lst):
                    pls.append({"node": lst[j], "where": "lead", "text": G.comment(mk, "end", rules)})
                else:
                    pls.append({"node": owner, "where": "infix", "text": G.comment(mk, "end", rules)})
                add_case(label, p, [{"form": "range", "rules": rules, "marker": mk, "owner": owner, "lst": lst, "i": i, "j": j,
                                     "placements": pls}])
                exhaustive_n += 1
    flush()

    # ---------------- verdict
    viol.sort(key=lambda v: v[0])
    known_v.sort(key=lambda v: v[0])
    seen = {}
    for size, what, replay, facts in viol + known_v[:3]:
        cat = ("known: " if facts else "") + what.split("[")[0][:60]
        seen[cat] = seen.get(cat, 0) + 1
        if seen[cat] <= 2 or facts:
            ctx.violation(what, replay, facts)
    if not proved and not ctx.violations:
        ctx.violation("proof obligation of C12 no longer checks: " + (ctx.broken or "Props/C12.v"),
                      {"no_failing_input": True, "broken": ctx.broken,
                       "searched": "%d programs with directives: linter, model and oracle agree on all of them" % stat["n"]})
    ctx.samples = samples
    ctx.coverage.update({
        "evaluations": stat["n"], "distinct_nontrivial": len(distinct),
        "programs_random": len([1 for l, _ in usable if l.startswith("gen-")]),
        "programs_exhaustive_shapes": len([1 for l, _ in usable if l.startswith("shape-")]),
        "exhaustive_bound": "every statement-tree shape with <= %d statements (simple | if | if/else | if/else-if | switch 1-2 cases) "
                            "x every next-line slot, this-line slot and start/end pair, with and without a rule list" % max_shape,
        "exhaustive_single_directive_cases": exhaustive_n,
        "model_impl_agree": stat["agree"], "oracle_checked": stat["oracle_checked"], "oracle_agree": stat["oracle_agree"],
        "overlapping_range_pairs_sharing_rules": stat.get("overlap_cases", 0),
        "of_which_deviate_from_the_property_(known finding)": stat.get("known_overlap", 0),
        "cases_where_directive_removed_something": stat["nontrivial"],
        "of_which_other_diagnostics_remained": stat["leak_detectors"],
        "directive_forms": dict(sorted(forms.items())),
        "baseline_rule_histogram": dict(sorted(rule_hist.items(), key=lambda kv: -kv[1])),
        "corpus_cases": len(cc), "corpus_ok": corpus_ok,
        "violations_by_category": seen,
        "generator_stats": dict(sorted(bld.stats.items())),
    })
    return ctx.finish(
        level="proof",
        rule="theorems of coq/Props/C12.v over Model/Ignore.v (unbounded trees, any number of other directives); correspondence and "
             "direct oracle: random programs (1-3 subroutines, nesting <= 3) x 40 placements of 1-2 directives, plus the exhaustive "
             "single-directive enumeration over small shapes (distinct = distinct source text)")
