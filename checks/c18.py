"""C18 - concurrent requests and concurrent lint plugins are serialisable.

proof  : coq/Props/C18.v over Model/Sched.v: locked_serialisable (any number of handlers `Acquire; body; Release`,
         any bodies, any lock-respecting schedule = the one-at-a-time schedule in lock-acquisition order),
         append_locked_complete, append_unlocked_refuted.  PARTIAL: "no data race occurs" is about the Go memory
         model and is not provable in this model; it is covered by the shape facts and the race detector only.
ties   : T  Gen/SchedShape.v (harness/cmd/trans/schedshape.go): ServeHTTP takes i.lock before touching interpreter
             state and releases it by defer, no other Lock/Unlock, no go statement; (*Linter).Error locks a
             sync.Mutex first; nobody else assigns Linter.Errors
         C  build/implrun_race (go build -race -tags verif): 2-16 concurrent requests against
             httptest.NewServer(interpreter), GOMAXPROCS in {1,2,4,16}, start jitter; every response and the
             final cache / rate counter / penalty box must equal the sequential model (Model/SM.v, modelrun_sm)
             run in the recorded lock-acquisition order; for <= 4 requests all permutations are searched as well;
             2-4 fake plugin executables on one statement: every diagnostic must be reported.
             Any race-detector report is a violation.
oracle : on the implementation alone: acquisition numbers are a permutation of 1..n; the shared rate counter
         hands out n distinct values 1..n and ends at n; every plugin diagnostic is present exactly once.
"""
import glob
import itertools
import json
import os
import re
import threading
import vcommon as V
import sm_util as S
import c18_util as C

PROCS = [1, 2, 4, 16]


def conc_variants(rng):
    """request kinds selected by the V header: cacheable lookup, pass, error, restart-then-lookup, random"""
    vs = []
    ops = [[("incr", "shared", 1)], [], [], []]          # every request bumps the shared counter once
    def mk(acts):
        v = S.plain_variant(acts)
        v["ops"] = [list(o) for o in ops]
        return v
    vs.append(mk({}))                                                           # 0 cacheable
    vs.append(mk({"recv": "r-pass"}))                                           # 1 pass
    vs.append(mk({"recv": "errstmt"}))                                          # 2 error -> vcl_error -> deliver
    vs.append(mk({"deliver": ["r-restart", "none", "none", "none"]}))            # 3 one restart
    vs.append(mk({"fetch": ["restartstmt", "none", "none", "none"], "hit": ["none", "r-pass", "none", "none"]}))  # 4
    vs.append(mk({"miss": "r-other"}))                                          # 5 reported error
    if rng.random() < 0.5:
        vs[0]["ops"][0].append(("pbadd", "box", 30))
        vs[1]["ops"][0].append(("pbhas", "box"))
    return vs


def with_seq(vcl):
    assert "sub vcl_recv { " in vcl
    return vcl.replace("sub vcl_recv { ", 'sub vcl_recv { log "seq:" now.sec; ', 1)


def conc_case(rng, n):
    vs = conc_variants(rng)
    paths = ["/x", "/y", "/z"][: rng.choice([1, 2, 3])]
    reqs = [{"path": rng.choice(paths), "v": rng.choice([0, 0, 0, 1, 2, 3, 4, 5]), "maxage": rng.choice([None, 60])}
            for _ in range(n)]
    return vs, reqs


def slow_origin_case(rng, delay_ms, n_follow, with_pass=False):
    """ORIGIN LATENCY: request 0 fetches a cacheable URL from an origin that answers after delay_ms; the others
    arrive DURING that fetch - lookups of the same URL (one-at-a-time: exactly one origin fetch, the rest HIT),
    and requests for other URLs that bump the shared counter"""
    vs = conc_variants(rng)
    reqs = [{"path": "/slow", "v": 0, "maxage": 60, "delay_ms": delay_ms, "start_ms": 0}]
    for j in range(n_follow):
        at = int(delay_ms * (j + 1) / (n_follow + 1))
        if rng.random() < 0.6:
            reqs.append({"path": "/slow", "v": 0, "maxage": 60, "delay_ms": delay_ms, "start_ms": at})
        else:
            reqs.append({"path": rng.choice(["/x", "/y"]), "v": rng.choice([0, 1, 2, 3]), "maxage": 60, "start_ms": at})
    if with_pass:
        reqs.append({"path": "/slow", "v": 1, "maxage": 60, "delay_ms": delay_ms, "start_ms": delay_ms // 2})
    return vs, reqs


def plugin_timeout_ms():
    """the per-plugin timeout of customLint as the translator read it from the source"""
    txt = V._read(os.path.join(V.COQ, "Gen", "SchedShape.v")) or ""
    m = re.search(r"plugin_timeout_ms : N := (\d+)%N", txt)
    return int(m.group(1)) if m else 5000


def timeout_plugin_case(tag, T):
    """a plugin that outlives the per-plugin timeout between plugins that answer: exactly one failure diagnostic
    in its place, every other diagnostic present, annotation order kept"""
    names, expect = [], []
    for j, (dur, kind) in enumerate([(0, "ok"), (T + 1500, "ok"), (int(0.3 * T), "ok"), (0, "exit1"), (50, "ok")]):
        name = "c18t%sp%d" % (tag, j)
        msgs = ["%s-diag%d" % (name, t) for t in range(2)]
        C.write_plugin(name, msgs, sleep_ms=dur, kind=kind)
        names.append(name)
        expect += msgs if (kind == "ok" and dur <= T) else ["FAILED:" + name]
    vcl = "sub vcl_recv {\n" + "".join("  // @plugin: %s\n" % nm for nm in names) + '  set req.http.X-C18 = "1";\n}\n'
    return vcl, expect, {"vcl": vcl, "procs": 4}


def slow_plugin_case(tag, durations_ms):
    """NUMBER and DURATION of plugins: many plugins on one statement, each well within the per-plugin timeout,
    their SUM far beyond it; every diagnostic must be reported, nothing may be reported as failed"""
    names, expect = [], []
    for j, dur in enumerate(durations_ms):
        name = "c18s%sp%d" % (tag, j)
        msgs = ["%s-diag%d" % (name, t) for t in range(1 + j % 3)]
        C.write_plugin(name, msgs, sleep_ms=dur)
        names.append(name)
        expect += msgs
    vcl = "sub vcl_recv {\n" + "".join("  // @plugin: %s\n" % nm for nm in names) + '  set req.http.X-C18 = "1";\n}\n'
    return vcl, expect, {"vcl": vcl, "procs": 4}


class Background(threading.Thread):
    """a batch that mostly sleeps (slow origin, slow plugins): runs beside the fast batches"""
    def __init__(self, cmd, reqs, env):
        super().__init__()
        self.cmd, self.reqs, self.env, self.rep = cmd, reqs, env, None

    def run(self):
        self.rep = V.run_batch(self.cmd, self.reqs, hang_s=180, env=self.env)


def per_request(canon, order):
    """canonical text 'R .. | R .. | P ..' whose R lines are in `order` -> ({request index: R line}, P line)"""
    parts = canon.split(" | ")
    return {i: r for i, r in zip(order, parts[:-1])}, parts[-1]


def newest_race_report(racedir):
    fs = sorted(glob.glob(os.path.join(racedir, "r.*")), key=os.path.getmtime)
    if not fs:
        return ""
    try:
        return open(fs[-1]).read()[:3000]
    except OSError:
        return ""


def run(ctx):
    rng = ctx.rng
    thorough = ctx.thorough()
    proved = ctx.prove()
    with V.Lock("build"):
        model = V.driver("sm")
        race = C.build_race()
    racedir = os.path.join(V.BUILD, "race")
    os.makedirs(racedir, exist_ok=True)
    for f in glob.glob(os.path.join(racedir, "r.*")):
        os.remove(f)
    env = dict(os.environ, PATH=C.plugin_dir() + ":" + os.environ.get("PATH", ""),
               GORACE="halt_on_error=1 log_path=%s" % os.path.join(racedir, "r"))
    ctx.trusted += [
        "Coq 8.16.1 kernel; axioms: none (Print Assumptions of every theorem of Props/C18.v: Closed under the global context)",
        "Model/Sched.v: steps are atomic and sequentially consistent; the Go memory model is NOT modelled - the clause 'no data race occurs' is outside the proof (claim labelled partial); evidence for it: shape facts + Go race detector (go build -race) on every run",
        "translator harness/cmd/trans/schedshape.go (syntactic: ServeHTTP statement list, receiver-field selectors before the Lock call, Lock/Unlock/go occurrences; Linter struct fields of type sync.Mutex, first two statements of (*Linter).Error, assignments to <recv>.Errors in package linter)",
        "harness/cmd/implrun/conc.go: lock-acquisition order recorded by an extra context.Option that runs inside ProcessInit (under i.lock) and is published to the VCL as now.sec; no edit of ServeHTTP",
        "the sequential reference of the differential run is Model/SM.v (C06) through build/modelrun_sm; plugin reporting is modelled with one thread per reported diagnostic (goroutine program order only removes interleavings - argued, not formalised)",
        "fake plugins are /bin/sh scripts written into build/c18plugins",
    ]

    # ---------------- concurrent requests
    n_batches = 1500 if thorough else 160
    cases = []
    for b in range(n_batches):
        n = rng.choice([2, 3, 4, 4, 6, 8, 12, 16])
        vs, reqs = conc_case(rng, n)
        _, ireq, _ = S.model_request(vs, reqs)
        d = json.loads(ireq)
        d["vcl"] = with_seq(d["vcl"])
        d.update({"procs": PROCS[b % 4], "jitter_us": rng.choice([0, 50, 500, 3000]), "seed": rng.randrange(1 << 30)})
        cases.append((vs, reqs, d))
    # slow origins and slow plugins mostly sleep: they run beside the fast batches
    T = plugin_timeout_ms()
    slow_specs = [(1200, 3, False), (2500, 4, False), (3500, 5, False)]
    if thorough:
        slow_specs += [(300, 3, False), (800, 6, True), (2100, 4, True), (3000, 8, False), (4500, 5, False),
                       (S.BACKEND_TIMEOUT_MS + 1000, 3, False)]
    slow_cases = []
    for k, (delay, nf, wp) in enumerate(slow_specs):
        vs, reqs = slow_origin_case(rng, delay, nf, wp)
        _, ireq, _ = S.model_request(vs, reqs)
        d = json.loads(ireq)
        d["vcl"] = with_seq(d["vcl"])
        d.update({"procs": PROCS[k % 4], "jitter_us": 0, "seed": k})
        slow_cases.append((vs, reqs, d))
    nthreads = 3
    groups = [slow_cases[g::nthreads] for g in range(nthreads)]
    bg_conc = [Background([race, "conc"], [json.dumps(c[2]) for c in grp], env) for grp in groups if grp]
    slow_lint = [slow_plugin_case("a", [int(0.48 * T)] * 10), timeout_plugin_case("a", T)]
    if thorough:
        slow_lint += [slow_plugin_case("b", [int(0.6 * T)] * 6), slow_plugin_case("c", [int(0.7 * T)] * 8),
                      slow_plugin_case("d", [int(T * f) for f in (0, 0.1, 0.2, 0.3, 0.4, 0.5, 0.6, 0.7, 0.8, 0.05)])]
    bg_lint = Background([race, "conc-lint"], [json.dumps(c[2]) for c in slow_lint], env)
    # two simulators in one process share nothing but package-level state (translator: globals_written_after_init)
    _, ireq2, _ = S.model_request([S.plain_variant()], [{"path": "/g%d" % i} for i in range(12)])
    conc2_reqs = [json.dumps(dict(json.loads(ireq2), procs=pr)) for pr in PROCS] * (6 if thorough else 2)
    bg_conc2 = Background([race, "conc2"], conc2_reqs, env)
    # actual-response mode (falco simulate as a proxy): every client must get the answer to ITS request
    actual_cases = []
    for b in range(60 if thorough else 12):
        n = rng.choice([4, 8, 12, 16])
        vs = [S.plain_variant(), S.plain_variant({"recv": "r-pass"})]
        reqs = [{"path": "/q%d" % rng.randrange(n), "v": rng.choice([0, 0, 1]), "maxage": 60} for _ in range(n)]
        _, ireq, _ = S.model_request(vs, reqs)
        d = json.loads(ireq)
        d.update({"procs": PROCS[b % 4], "jitter_us": rng.choice([0, 100, 1000]), "seed": b, "actual": True})
        actual_cases.append((reqs, d))
    bg_actual = Background([race, "conc"], [json.dumps(c[1]) for c in actual_cases], env)
    for t in bg_conc + [bg_lint, bg_conc2, bg_actual]:
        t.start()
    irep = V.run_batch([race, "conc"], [json.dumps(c[2]) for c in cases], hang_s=120, env=env)
    for t, grp in zip(bg_conc, [g for g in groups if g]):
        t.join()
        cases += grp
        irep += t.rep
    checked = perm_searched = perm_matches = 0
    slow_checked = origin_fetches = 0
    orders = set()
    by_n, by_procs = {}, {}
    todo = []      # model requests
    for (vs, reqs, d), ir in zip(cases, irep):
        n = len(reqs)
        replay = {"implrun_race_conc_request": d, "variants": vs, "reqs": reqs}
        if ir is None or ir.startswith(("died", "hang", "crash", "skipped", "badreq")):
            rep = newest_race_report(racedir)
            what = "data race reported by the Go race detector while serving %d concurrent requests" % n if "DATA RACE" in rep \
                else "concurrent requests: harness %s" % (ir or "no reply")[:200]
            ctx.violation(what, dict(replay, reply=ir, race_report=rep))
            continue
        out = json.loads(ir)
        seq = out["seq"]
        if any(x.get("panic") for x in out["res"]):
            ctx.violation("concurrent request failed: %s" % [x.get("panic") for x in out["res"] if x.get("panic")][0], dict(replay, reply=ir[:3000]))
            continue
        # direct oracle 1: acquisition numbers are a permutation of 1..n
        if sorted(seq) != list(range(1, n + 1)):
            ctx.violation("lock acquisition numbers seen by %d concurrent requests are %s, not a permutation of 1..%d" % (n, seq, n),
                          dict(replay, seq=seq))
            continue
        # direct oracle 2: the shared rate counter hands out distinct values and ends at n
        vals = []
        for x in out["res"]:
            obs = [m[4:] for m in (x["logs"] or []) if m.startswith("obs:")]
            if obs:
                vals.append(int(obs[0]))
        total = (out["rc"].get("c06rc") or {}).get("shared")
        if sorted(vals) != list(range(1, n + 1)) or total != n:
            ctx.violation("shared rate counter under %d concurrent requests: values seen %s, final total %s (lost or duplicated update)" % (n, sorted(vals), total),
                          dict(replay, seq=seq))
            continue
        # direct oracle 3: origin fetches. Every vcl_fetch entry of a flow is one request to the origin, and a
        # cacheable URL that is only looked up is fetched exactly once however long the origin takes
        by_uri, lookups_only = {}, {}
        for rq, ir_, x in zip(reqs, d["reqs"], out["res"]):
            if rq.get("delay_ms", 0) > S.BACKEND_TIMEOUT_MS:
                continue
            by_uri[ir_["url"]] = by_uri.get(ir_["url"], 0) + (x.get("flows") or []).count("vcl_fetch")
            lookups_only[ir_["url"]] = lookups_only.get(ir_["url"], True) and rq.get("v", 0) == 0
        got_origin = out.get("origin_by_url") or {}
        bad_origin = [(u, k, got_origin.get(u, 0)) for u, k in by_uri.items() if got_origin.get(u, 0) != k]
        bad_origin += [(u, 1, got_origin.get(u, 0)) for u, lo in lookups_only.items() if lo and got_origin.get(u, 0) > 1]
        origin_fetches += sum(got_origin.values())
        if bad_origin:
            ctx.violation("%d concurrent requests: the origin was fetched %d times for %s; one-at-a-time processing fetches it %d time(s)" % (
                n, bad_origin[0][2], bad_origin[0][0], bad_origin[0][1]), dict(replay, seq=seq, origin_by_url=got_origin))
            continue
        if any(rq.get("delay_ms") for rq in reqs):
            slow_checked += 1
        order = sorted(range(n), key=lambda i: seq[i])
        todo.append((vs, reqs, d, out, order, replay))
        orders.add(tuple(order))
        by_n[n] = by_n.get(n, 0) + 1
        by_procs[d["procs"]] = by_procs.get(d["procs"], 0) + 1
    # model runs: recorded order for every batch, every permutation for n <= 4
    mreqs, index = [], []
    for k, (vs, reqs, d, out, order, replay) in enumerate(todo):
        perms = [tuple(order)]
        if len(reqs) <= 4:
            perms += [p for p in itertools.permutations(range(len(reqs))) if p != tuple(order)]
        for p in perms:
            mline, _, ids = S.model_request(vs, [reqs[i] for i in p])
            mreqs.append(mline)
            index.append((k, p, ids))
    mrep = V.run_batch([model], mreqs, hang_s=60)
    matches = {}
    for (k, p, ids), mr in zip(index, mrep):
        vs, reqs, d, out, order, replay = todo[k]
        pseudo = json.dumps({"res": [out["res"][i] for i in p], "cache": out["cache"], "rc": out["rc"], "pb": out["pb"]})
        # behind a real listener req.url (and so the default hash) is the path only, not the absolute URL
        ci = S.canon_impl(pseudo, {key.replace("http://localhost", "", 1): v for key, v in ids.items()})
        same = (ci == mr)
        if p == tuple(order):
            checked += 1
            if not same:
                ctx.violation("%d concurrent requests: responses / final state differ from the sequential model run in the recorded lock-acquisition order %s" % (len(reqs), list(p)),
                              dict(replay, order=list(p), impl=ci, model=mr))
        matches.setdefault(k, []).append((p, same))
    for k, ms in matches.items():
        if len(todo[k][1]) <= 4:
            perm_searched += 1
            good = [p for p, same in ms if same]
            perm_matches += len(good)
            if not good:
                ctx.violation("%d concurrent requests: no one-at-a-time order (all %d permutations tried) explains the responses and the final state" % (len(todo[k][1]), len(ms)),
                              dict(todo[k][5], impl=ms[0]))

    # ---------------- two simulators, actual responses
    bg_conc2.join()
    bg_actual.join()
    conc2_ok = actual_ok = 0
    for rq, rep in zip(conc2_reqs, bg_conc2.rep):
        if rep is None or not rep.startswith("{"):
            rr = newest_race_report(racedir)
            ctx.violation(("data race reported by the Go race detector between two simulators in one process" if "DATA RACE" in rr
                           else "two simulators in one process: harness %s" % (rep or "no reply")[:160]),
                          {"implrun_race_conc2_request": json.loads(rq), "reply": rep, "race_report": rr})
        else:
            bad = [x for x in json.loads(rep)["res"] if x.get("panic") or x.get("error") or not x.get("flows")]
            if bad:
                ctx.violation("two simulators in one process: a request failed: %s" % str(bad[0])[:200], {"implrun_race_conc2_request": json.loads(rq)})
            else:
                conc2_ok += 1
    for (reqs, d), rep in zip(actual_cases, bg_actual.rep):
        replay = {"implrun_race_conc_request": d}
        if rep is None or not rep.startswith("{"):
            rr = newest_race_report(racedir)
            ctx.violation(("data race reported by the Go race detector while serving %d concurrent requests in actual-response mode" % len(reqs)
                           if "DATA RACE" in rr else "actual-response mode: harness %s" % (rep or "no reply")[:160]),
                          dict(replay, reply=rep, race_report=rr))
            continue
        wrong = []
        for i, (ir_, a) in enumerate(zip(d["reqs"], json.loads(rep).get("actual") or [])):
            if a.get("err") or a.get("status") != 200 or a.get("body") != "origin " + ir_["url"]:
                wrong.append((i, ir_["url"], a))
        if wrong:
            i, url, a = wrong[0]
            ctx.violation("actual-response mode, %d concurrent requests: the client of request %d (%s) received status %s body %r (%s)" % (
                len(reqs), i, url, a.get("status"), (a.get("body") or "")[:60], a.get("err") or "answer to another request"),
                dict(replay, wrong=wrong[:5]))
        else:
            actual_ok += 1

    # ---------------- concurrent lint plugins
    n_lint = 600 if thorough else 100
    lint_cases = []
    for f in glob.glob(os.path.join(C.plugin_dir(), "falco-c18b*")):
        os.remove(f)
    for b in range(n_lint):
        k = rng.choice([2, 3, 4, 6])
        names, expect = [], []
        for j in range(k):
            name = "c18b%dp%d" % (b, j)
            kind = rng.choice(["ok"] * 7 + ["exit1", "badjson", "missing"])
            msgs = ["%s-diag%d" % (name, t) for t in range(rng.randint(1, 5))]
            C.write_plugin(name, msgs, sleep_ms=rng.choice([0, 0, 0, 2, 10, 40]), kind=kind)
            names.append(name)
            # what the linter must report for this plugin, in this place: its diagnostics, or ONE failure
            expect += msgs if kind == "ok" else ["FAILED:" + name]
        vcl = "sub vcl_recv {\n" + "".join("  // @plugin: %s\n" % nm for nm in names) + '  set req.http.X-C18 = "1";\n}\n'
        lint_cases.append((vcl, expect, {"vcl": vcl, "procs": PROCS[b % 4]}))
    cdir = os.path.join(V.VERIF, "corpus", "C18")
    if os.path.isdir(cdir):
        for fn in sorted(os.listdir(cdir)):
            if fn.endswith(".json"):
                cj = json.load(open(os.path.join(cdir, fn)))
                expect = []
                for name, msgs in cj["plugins"].items():
                    C.write_plugin(name, msgs)
                    expect += msgs
                for procs in PROCS:
                    lint_cases.insert(0, (cj["vcl"], expect, {"vcl": cj["vcl"], "procs": procs}))
    lrep = V.run_batch([race, "conc-lint"], [json.dumps(c[2]) for c in lint_cases], hang_s=120, env=env)
    bg_lint.join()
    lint_cases += slow_lint
    lrep += bg_lint.rep
    lint_ok = diag_total = 0
    for (vcl, expect, d), lr in zip(lint_cases, lrep):
        replay = {"implrun_race_conc_lint_request": d, "expected_messages": expect, "plugin_dir": C.plugin_dir()}
        if lr is None or not lr.startswith("{"):
            rep = newest_race_report(racedir)
            what = "data race reported by the Go race detector while lint plugins report concurrently" if "DATA RACE" in rep \
                else "concurrent lint plugins: harness %s" % (lr or "no reply")[:200]
            ctx.violation(what, dict(replay, reply=lr, race_report=rep))
            continue
        msgs = json.loads(lr)["messages"]
        # projection: a plugin diagnostic is itself, a failure diagnostic is FAILED (its text names the command
        # or its stderr, which is not compared); everything else the linter says about the program is dropped
        got = []
        for m in msgs:
            if "-diag" in m and "Custom" not in m:
                got.append(m)
            elif "Custom linter command" in m or "Custom Linter" in m:
                got.append("FAILED")
        want = [("FAILED" if e.startswith("FAILED:") else e) for e in expect]
        diag_total += len(expect)
        if sorted(got) != sorted(want):
            missing = sorted(set(want) - set(got))
            ctx.violation("lint plugins: %d plugins on one statement: reported %s, expected the diagnostics of the plugins that answer and one failure per plugin that does not (%d expected, %d reported; missing %s)" % (
                vcl.count("@plugin"), got[:6], len(want), len(got), missing[:4]), dict(replay, got=msgs))
        elif got != want:
            ctx.violation("lint plugins: the diagnostics of %d plugins are not reported in annotation order: %s instead of %s" % (
                vcl.count("@plugin"), got[:8], want[:8]), dict(replay, got=msgs))
        else:
            lint_ok += 1

    if not proved and not ctx.violations:
        ctx.violation("proof obligation of C18 no longer checks: " + (ctx.broken or "Props/C18.v"),
                      {"no_failing_input": True, "broken": ctx.broken,
                       "searched": "%d concurrent batches and %d plugin batches under the race detector: serialisable, complete, no race report" % (len(cases), len(lint_cases))})
    ctx.samples = [{"conc_request": cases[0][2], "seq": json.loads(irep[0]).get("seq") if irep[0] and irep[0].startswith("{") else irep[0]},
                   {"lint_request": lint_cases[0][2], "reply": (lrep[0] or "")[:300]}]
    ctx.coverage.update({
        "evaluations": len(cases) + len(lint_cases) + len(mreqs),
        "distinct_nontrivial": len(orders) + lint_ok,
        "concurrent_batches": len(cases), "slow_origin_batches": slow_checked,
        "slow_origin_delays_ms": [c[0] for c in slow_specs], "origin_fetches_counted": origin_fetches,
        "slow_plugin_batches": [(c[0].count("@plugin"), "sum of run times / per-plugin timeout read from the source (%d ms)" % T) for c in slow_lint], "batches_equal_to_model_in_recorded_order": checked,
        "distinct_acquisition_orders_observed": len(orders), "batches_by_request_count": by_n, "batches_by_gomaxprocs": by_procs,
        "batches_with_all_permutations_searched": perm_searched, "matching_permutations_total": perm_matches,
        "model_runs": len(mreqs), "two_simulator_batches_ok": conc2_ok, "actual_response_batches_ok": actual_ok,
        "plugin_batches": len(lint_cases), "plugin_batches_complete": lint_ok, "plugin_diagnostics": diag_total,
        "race_detector": "go build -race, GORACE=halt_on_error=1", "race_reports": len(glob.glob(os.path.join(racedir, "r.*"))),
    })
    return ctx.finish(
        level="proof",
        rule="theorems of coq/Props/C18.v (any number of handlers, any bodies, any lock-respecting schedule); PARTIAL for the "
             "clause 'no data race occurs' (Go memory model: race detector + shape facts only). Correspondence: seeded batches of "
             "2-16 concurrent requests x GOMAXPROCS {1,2,4,16} x start jitter against the sequential model in recorded "
             "acquisition order (+ all permutations for <= 4 requests); seeded batches of 2-4 fake plugins x 1-5 diagnostics. "
             "distinct = distinct acquisition orders + complete plugin batches")
