"""C10 - test-runner verdicts are faithful.

proof  : coq/Props/C10.v over Model/TestRun.v (runner: fresh interpreter per test subroutine, counters,
         exit status) and Model/TestRunCover.v (coverage instrumentation over a small statement language):
         verdict_iff, exit_iff_fail, exit_zero_iff, count_sum, order_independent, subset_independent,
         instrument_equiv (if() conditions quiet), instrument_regroup_refuted, and the bridge to C13
         (a call-free, match-free condition leaves every observable of the heap model unchanged).
tie    : C  extracted model (build/modelrun_testrun) vs the real runner, on generated suites (a main VCL
            whose subroutines are programs of the small language - if / else-if / else, switch with
            fallthrough and default, nested blocks, if() expressions inside set / log - and tests with
            every decidable assertion kind holding / failing, runtime errors, @skip, 1-3 @scope):
            * Go API tester.New(conf, opts).Run(main) in every order for <= 5 tests (and subsets),
              ~30 random orders / subsets above, each with and without coverage;
            * the real process build/falco test -json [--coverage] (suites, summary, exit status) and the
              text report's "N passed, M failed, K skipped, T total".
         The generator's own evaluator (gen/testrungen.simulate) is a third computation of the same
         verdicts ("known by construction").
oracle : on the implementation alone: the cases (verdict, logs) of each test are identical in every
         order / subset and with / without coverage; passed + failed + skipped = cases; exit != 0 iff a
         case failed; summary.skips = skipped cases.
known  : coverage pre-evaluates the condition of every if() expression: corpus/C10/regroup (a match in the
         condition overwrites re.group.1 read earlier in the statement) and corpus/C10/noisy (a function
         with a log statement in the condition runs twice).
"""
import itertools
import json
import os
import re
import shutil
import subprocess
import vcommon as V
import store_util as U
from gen import testrungen as T

LOGSUFFIX = re.compile(r" \([^()]*\.vcl \d+:\d+\)$")
KIND = {"none": "pass", "assert": "assert", "testing": "runtime", "other": "runtime"}


def parse_api(rep):
    """-> (cases, counter, exit) | "abort" (Tester.Run returned an error) | None"""
    if rep is not None and rep.startswith("runerr"):
        return "abort"
    if rep is None or not rep.startswith("ok"):
        return None
    xs = U.parse_sexps(rep[2:])
    cases = []
    counter = None
    for x in xs[:-1]:
        if x[0] == "case":
            logs = [LOGSUFFIX.sub("", bytes.fromhex(q[1]).decode("utf-8", "replace")) for q in x[6][1:]]
            grp = bytes.fromhex(x[1][1]).decode() or None
            cases.append((grp, bytes.fromhex(x[2][1]).decode(), x[3], x[4] == "1", KIND[x[5]], logs))
        elif x[0] == "counter":
            counter = tuple(int(v) for v in x[1:5])
    return cases, counter, int(xs[-1])


def parse_model(rep, suite, order):
    if rep.startswith("abort"):
        return "abort"
    xs = U.parse_sexps(rep)
    cases = []
    for x in xs[0][1:]:
        cases.append((None if x[1] == "_" else "G%s" % x[1], "T%s" % x[2], T.SCOPES[int(x[3])].upper(), x[4] == "1", x[5],
                      [T.Suite.log_text(int(m)) for m in x[6][1:]]))
    return cases, tuple(int(v) for v in xs[1][1:5]), int(xs[2])


def sim_expected(suite, order, only_first_file=False):
    r = T.simulate(suite, order, only_first_file)
    if r is None:
        return "abort"
    cases, counter, ex = r
    return ([(None if g is None else "G%d" % g, "T%d" % n, sc.upper(), sk, v, [T.Suite.log_text(m) for m in lg])
             for g, n, sc, sk, v, lg in cases], counter, ex)


def orders_for(rng, n, thorough):
    """every order when n <= 5 (plus subsets), ~30 random orders / subsets above"""
    idx = list(range(n))
    out = []
    if n <= 5:
        perms = list(itertools.permutations(idx))
        if not thorough and len(perms) > 24:
            rng.shuffle(perms)
            keep = [tuple(idx)] + perms[:40]          # quick tier: 41 of the 120 orders of 5 tests
            perms = keep
        out += [list(p) for p in perms]
        for k in range(1, n):
            for _ in range(2):
                out.append(rng.sample(idx, k))
    else:
        out.append(idx)
        for _ in range(30 if not thorough else 60):
            k = rng.choice([n, n, n - 1, rng.randint(1, n)])
            out.append(rng.sample(idx, k))
    return out


def by_test(cases):
    """the cases of each UNIT of the independence claim: an ungrouped test, or a whole describe group"""
    d = {}
    for c in cases:
        if c[1] in ("T9001", "T9002"):
            continue                    # the mock targets: present once per test file of the run
        d.setdefault(("group " + c[0]) if c[0] else ("test " + c[1]), []).append(c[1:])
    return d


def cli_run(falco, workdir, tree, as_json=True):
    """the real process on the file tree of gen/testrungen.Suite.tree"""
    if os.path.isdir(workdir):
        shutil.rmtree(workdir)
    for rel, text in tree["files"].items():
        p = os.path.join(workdir, rel)
        os.makedirs(os.path.dirname(p), exist_ok=True)
        open(p, "w").write(text)
    cmd = [falco, "test"] + (["-json"] if as_json else []) + (["--coverage"] if tree["cov"] else [])
    for d in tree["include_paths"]:
        cmd += ["-I", d]
    if tree["filter"]:
        cmd += ["--filter", tree["filter"]]
    for t in tree.get("tags") or []:
        cmd += ["-t", t]
    cmd += [tree["main"]]
    for limit in (180, 600):
        try:
            p = subprocess.run(cmd, cwd=workdir, stdout=subprocess.PIPE, stderr=subprocess.PIPE, text=True, timeout=limit)
            return p.returncode, p.stdout, p.stderr
        except subprocess.TimeoutExpired:
            continue                      # a busy machine: once more with a 10 minute limit before it is a finding
    return -9, "", "falco test did not finish within 10 minutes (second attempt)"


def flat_tree(mainv, testv, cov):
    return {"cov": bool(cov), "files": {"main.vcl": mainv, "main.test.vcl": testv}, "main": "main.vcl", "include_paths": [], "filter": "", "tags": []}


def tree_request(tree):
    return "tree " + json.dumps(tree).encode().hex()


def parse_cli_json(out):
    try:
        j = json.loads(out)
    except ValueError:
        return None
    cases = []
    for t in j.get("tests") or []:
        for c in t.get("suites") or []:
            err = c.get("error")
            logs = [LOGSUFFIX.sub("", l) for l in (c.get("logs") or [])]
            cases.append((c.get("group") or None, c["name"], c["scope"], bool(c["skip"]), "fail" if err else "pass", logs))
    s = j["summary"]
    return cases, (s["asserts"], s["passes"], s["fails"], s["skips"])


def coarse(cases):
    return [(g, n, sc, sk, "pass" if v == "pass" else "fail", lg) for g, n, sc, sk, v, lg in cases]


def helper_tie():
    """(registered names from Gen/TestRunHelpers.v, names the generator's tables write)"""
    import re
    try:
        txt = open(os.path.join(V.COQ, "Gen", "TestRunHelpers.v")).read()
    except OSError:
        return None, set()
    reg = re.findall(r'^  \("([a-z_.]+)", \(\[', txt, re.M)
    text = " ".join([str(a) + " " + str(b) for a, b in list(T.ASSERTS.values()) + list(T.STATEFUL.values())]
                    + [" ".join(x["mut"].values()) + " " + str(x.get("obs")) + " " + str(x.get("undo", "")) for x in T.RES]
                    + [str(T.AUX_TESTS), str(getattr(T, "TEST_DECLS", ""))])
    used = set(re.findall(r"\b((?:assert|testing)(?:\.[a-z_]+)?)\(", text))
    return (reg or None), used


def run(ctx):
    if ctx.replay:
        import random
        ctx.seed = json.load(open(ctx.replay)).get("seed", ctx.seed)
        ctx.rng = random.Random(ctx.seed)
    rng = ctx.rng
    thorough = ctx.thorough()
    proved = ctx.prove()
    with V.Lock("build"):
        model = V.driver("testrun")
    impl = [os.path.join(V.BUILD, "implrun"), "testrun"]
    falco = os.path.join(V.BUILD, "falco")
    work = os.path.join(V.BUILD, "c10work")
    os.makedirs(work, exist_ok=True)
    ctx.trusted += [
        "Coq 8.16.1 kernel; axioms: none (Print Assumptions of every theorem of Props/C10.v: Closed under the global context)",
        "extraction: ExtrOcamlBasic only; OCaml 4.13.1; ocaml/common.ml + ocaml/testrun_main.ml",
        "harness/cmd/implrun/testrun.go (writes the two files under build/c10work, calls tester.New(...).Run, classifies the error type)",
        "gen/testrungen.py renders ONE generated suite to VCL and to the model's S-expression, and holds the third evaluator",
        "modelled not verified: Model/TestRun.v transcribes tester.go run / counter.go / runTest; Model/TestRunCover.v transcribes "
        "interpreter/coverage.go over a small language whose expressions are parameters; the instance that is run "
        "(Model/TestRunInst.v) sees only request headers f<k> and log lines",
        "instrument_equiv assumes the instrumented if() conditions are quiet (state unchanged, no error); for the heap model of C13 "
        "this is C10_quiet_condition_in_store_model at the level of every observable (fresh garbage cells are not observable)",
    ]
    violations_before = len(ctx.violations)
    reg, used = helper_tie()
    ctx.obligation("every test-only function the generator writes is registered in tester/function/functions.go (Gen/TestRunHelpers.v)",
                   reg is not None and not (used - set(reg)),
                   "" if reg is not None and not (used - set(reg)) else "not registered: %s" % sorted(used - set(reg or ())))

    # ------------------------------------------------------------------ known finding: corpus
    n_corpus = corpus_known(ctx, falco, work)
    n_cache_facts = cache_is_per_interpreter(ctx)
    n_broken = 0

    # ------------------------------------------------------------------ suites
    n_suites = 500 if thorough else 30
    g = T.TestRunGen(rng)
    suites = [g.suite() for _ in range(n_suites)]
    # a few fixed shapes: all passing; one skipped + one runtime failure (exit status must not net them out)
    suites.append(fixed_suite(g, ["pass", "pass"], [False, False]))
    suites.append(fixed_suite(g, ["runtime", "pass"], [False, True]))
    suites.append(fixed_suite(g, ["pass", "assert", "pass"], [True, False, True]))
    suites.append(fixed_suite(g, ["pass", "pass", "pass"], [True, True, True]))
    suites.append(g.kinds_suite())
    # the dimension "tests that mutate per-test state through every testing.* helper, tests that observe it,
    # in every order": one exhaustive suite per resource + random mixtures (fixed share of the budget)
    n_plain = len(suites)
    # the STRUCTURE of what is under test is a dimension of its own: the same helper suites with the declarations
    # (tables, backends, subroutines) in main.vcl, in modules included from its directory (nested include for the
    # table), in an -I directory; the tests in one or in two *.test.vcl files; --filter
    for x in range(len(T.RES)):
        for lay in ("flat", "include") if not thorough else T.LAYOUTS:
            rs = g.resource_suite(x)
            rs.layout = lay
            rs.nfiles = 2 if lay != "flat" else 1
            suites.append(rs)
    n_res_suites = len(suites) - n_plain
    for _ in range(400 if thorough else 20):
        suites.append(g.stateful_suite())
    n_before_groups = len(suites)
    for _ in range(400 if thorough else 24):
        suites.append(g.grouped_suite())
    for k, su in enumerate(suites):
        if not (n_plain <= k < n_plain + n_res_suites):
            su.layout = rng.choice(["flat", "flat", "include", "include", "ipath"])
            su.nfiles = rng.choice([1, 1, 2])
    group_scope_check(ctx, impl)
    n_broken = broken_file_check(ctx, impl, falco, work, g)

    agree = 0
    nontrivial = set()
    verdicts = {"pass": 0, "assert": 0, "runtime": 0, "skip": 0}
    n_abort = 0
    n_cases = 0
    n_api = n_api_helper = n_api_grouped = n_filter = 0
    watchdog = {"retried": 0, "recovered": 0, "reproduced": 0}
    layouts, nfiles_runs = {}, {}
    import hashlib
    CH = 40                                   # suites per chunk: only counters survive a chunk
    for c0 in range(0, len(suites), CH):
        ref = {}        # (suite, unit) -> cases of that unit in the first run (order / coverage independence)
        reqs, mreqs, meta = [], [], []
        for si in range(c0, min(c0 + CH, len(suites))):
            s = suites[si]
            its = s.items()
            for oi in orders_for(rng, len(its), thorough):
                order = [its[k] for k in oi]
                for cov in (0, 1):
                    reqs.append(tree_request(s.tree(order, cov)))
                    mreqs.append(s.model_request(cov, order))
                    meta.append((si, order, cov, False))
            if s.nfiles > 1:
                # --filter selects one of the test files of the run
                reqs.append(tree_request(s.tree(its, 0, only_first_file=True)))
                mreqs.append(s.model_request(0, its, only_first_file=True))
                meta.append((si, its, 0, True))
                n_filter += 1
        ireps, st = U.robust_batch(impl, reqs, hang_s=120)
        for k in st:
            watchdog[k] += st[k]
        mreps, st = U.robust_batch([model], mreqs, hang_s=180)
        for k in st:
            watchdog[k] += st[k]
        n_api += len(reqs)
        n_api_helper += sum(1 for m in meta if n_plain <= m[0] < n_before_groups)
        n_api_grouped += sum(1 for m in meta if m[0] >= n_before_groups)
        for (si, order, cov, filt), ir, mr in zip(meta, ireps, mreps):
            s = suites[si]
            its = s.items()
            tr = s.tree(order, cov, only_first_file=filt)
            replay = {"files": tr["files"], "include_paths": tr["include_paths"], "filter": tr["filter"], "coverage": bool(cov),
                      "layout": s.layout, "test_files": s.nfiles, "order": order,
                      "main.vcl": tr["files"]["main.vcl"], "main.test.vcl": "\n".join(v for k, v in sorted(tr["files"].items()) if k.endswith(".test.vcl"))}
            layouts[s.layout] = layouts.get(s.layout, 0) + 1
            nfiles_runs[s.nfiles] = nfiles_runs.get(s.nfiles, 0) + 1
            api = parse_api(ir)
            if api is None:
                ctx.violation("test runner did not complete on a generated suite (reproduced when run alone, twice, with 4x the time limit): %s" % (ir or "no reply")[:200], replay)
                continue
            if mr is None or not mr.startswith(("(cases", "abort")):
                ctx.violation("model driver failed: %s" % (mr or "")[:200], dict(replay, model_request=mreqs[0][:100]))
                continue
            mod = parse_model(mr, s, order)
            sim = sim_expected(s, order, filt)
            if mod != sim:
                ctx.violation("Coq model and the generator's evaluator disagree (model %s / generator %s)" % (str(mod)[:300], str(sim)[:300]), replay)
                continue
            if api == "abort" or mod == "abort":
                if api != mod:
                    ctx.violation("a raising hook: test runner says %s, model says %s" % (str(api)[:200], str(mod)[:200]), replay)
                else:
                    agree += 1
                    n_abort += 1
                continue
            cases, counter, ex = api
            n_cases += len(cases)
            # ---- direct oracle on the implementation
            npass = sum(1 for c in cases if not c[3] and c[4] == "pass")
            nfail = sum(1 for c in cases if not c[3] and c[4] != "pass")
            nskip = sum(1 for c in cases if c[3])
            parts = s.split(order)
            parts = parts[:1] if filt else parts
            want_cases = 2 * len(parts)
            for kind, i in (x for part in parts for x in part):
                for ti in ([i] if kind == "t" else s.groups[i]["tests"]):
                    want_cases += len(s.tests[ti]["scopes"])
            if npass + nfail + nskip != len(cases) or len(cases) != want_cases:
                ctx.violation("passed + failed + skipped = %d + %d + %d but %d (test, scope) pairs were to be run" % (npass, nfail, nskip, want_cases), replay)
            if (ex != 0) != (nfail > 0):
                ctx.violation("exit status %d with %d failed cases" % (ex, nfail), replay)
            if counter[3] != nskip:
                ctx.violation("summary.skips = %d but %d cases are skipped" % (counter[3], nskip), replay)
            for name, cs in by_test(cases).items():
                key = (si, name)
                if key not in ref:
                    ref[key] = (cs, replay)
                elif ref[key][0] != cs:
                    ctx.violation("the cases of %s depend on order / subset / coverage: %s vs %s" % (name, str(ref[key][0])[:300], str(cs)[:300]),
                                  dict(replay, other=ref[key][1]))
            # ---- against the model
            if (cases, counter, ex) != mod:
                what = "cases" if cases != mod[0] else ("counters %s vs model %s" % (counter, mod[1]) if counter != mod[1] else "exit status")
                d = next((("%s vs model %s" % (a, b)) for a, b in zip(cases, mod[0]) if a != b), "")
                ctx.violation("test runner and model disagree on %s %s" % (what, d[:400]), replay)
            else:
                agree += 1
                nontrivial.add(hashlib.sha1((replay["main.vcl"] + replay["main.test.vcl"] + str(cov)).encode()).digest()[:8])
                if order == its and cov == 0 and not filt:
                    for c in cases:
                        verdicts["skip" if c[3] else c[4]] += 1

        if len(ctx.violations) - violations_before >= 40:
            break
    # ------------------------------------------------------------------ the real process
    n_cli = 0
    cli_suites = suites if thorough else suites[:14] + suites[-5:]
    for si, s in enumerate(cli_suites):
        order = s.items()
        if si % 2:
            rng.shuffle(order)
        mainv, testv = s.main_vcl(), s.test_vcl(order)
        filt = s.nfiles > 1 and si % 4 == 1
        sim = sim_expected(s, order, filt)
        for cov in (0, 1):
            tr = s.tree(order, cov, only_first_file=filt)
            rc, out, err = cli_run(falco, os.path.join(work, "cli"), tr)
            n_cli += 1
            replay = {"files": tr["files"], "main.vcl": tr["files"]["main.vcl"], "main.test.vcl": testv, "coverage": bool(cov), "layout": s.layout,
                      "cmd": "falco test -json%s%s%s main.vcl" % (" --coverage" if cov else "", "".join(" -I " + d for d in tr["include_paths"]),
                                                                 " --filter " + tr["filter"] if tr["filter"] else "")}
            pj = parse_cli_json(out)
            if sim == "abort":
                if pj is not None or rc == 0:
                    ctx.violation("a hook raises: falco test should fail without a report, got exit %d" % rc, dict(replay, stdout=out[:1000]))
                continue
            if pj is None:
                ctx.violation("falco test -json printed no JSON (exit %d): %s" % (rc, (out + err)[:300]), replay)
                continue
            cases, counter = pj
            if cases != coarse(sim[0]) or counter != sim[1] or rc != sim[2]:
                ctx.violation("falco test -json differs from the expected report: exit %d (expected %d), summary %s (expected %s), suites %s" % (
                    rc, sim[2], counter, sim[1], "equal" if cases == coarse(sim[0]) else "differ"), dict(replay, stdout=out[:3000]))
        if si % 3 == 0 and sim != "abort":
            rc, out, err = cli_run(falco, os.path.join(work, "cli"), s.tree(order, 0, only_first_file=filt), as_json=False)
            n_cli += 1
            m = re.search(r"(\d+) passed, (\d+) failed, (\d+) skipped, (\d+) total, (\d+) assertions", re.sub(r"\x1b\[[0-9;]*m", "", out + err))
            exp = sim[0]
            want = (sum(1 for c in exp if not c[3] and c[4] == "pass"), sum(1 for c in exp if not c[3] and c[4] != "pass"),
                    sum(1 for c in exp if c[3]), len(exp), sim[1][0])
            got = tuple(int(x) for x in m.groups()) if m else None
            if got != want or rc != sim[2]:
                ctx.violation("text report says %s (exit %d), expected %s (exit %d)" % (got, rc, want, sim[2]),
                              {"main.vcl": mainv, "main.test.vcl": testv, "stdout": (out + err)[-1500:]})
    shutil.rmtree(os.path.join(work, "cli"), ignore_errors=True)

    if not proved and len(ctx.violations) == violations_before:
        ctx.violation("proof obligation of C10 no longer checks: " + (ctx.broken or "Props/C10.v"),
                      {"no_failing_input": True, "broken": ctx.broken,
                       "searched": "%d runs of the test runner agree with the model; no order / coverage dependence" % n_api})
    s0 = suites[0]
    ctx.samples = [{"main.vcl": s0.main_vcl()[:1200], "main.test.vcl": s0.test_vcl(s0.items())[:1200]}]
    ctx.coverage["helpers_registered_in_source"] = len(reg or ())
    ctx.coverage["helpers_written_by_generator"] = sorted(used)
    ctx.coverage["helpers_never_written_by_generator"] = sorted(set(reg or ()) - used)
    ctx.coverage.update({
        "evaluations": n_api + n_cli,
        "distinct_nontrivial": len(nontrivial),
        "suites": len(suites), "api_runs": n_api, "api_runs_agreeing_with_model": agree,
        "watchdog": dict(watchdog, policy="a hang / died reply is re-run alone (twice, 4x the limit) and only reported when it reproduces; "
                                          "a process run that times out is run again with a 10 minute limit"), "cases_checked": n_cases,
        "process_runs": n_cli, "corpus_known_cases": n_corpus,
        "orders_per_suite": {"<=5 tests": "every order (quick: 41 of 120 for 5 tests) + subsets", ">5 tests": "31 random orders / subsets"},
        "verdicts_in_first_order": verdicts,
        "cache_shape_facts_checked": n_cache_facts, "runs_failing_before_any_test (unparsable file)": n_broken,
        "dimension_counts": {"suites_with_describe_groups_and_hooks": len(suites) - n_before_groups,
                             "api_runs_on_grouped_suites": n_api_grouped,
                             "runs_aborted_by_a_raising_hook (runner and model agree)": n_abort,
                             "group_stats": {k: v for k, v in sorted(g.stats.items()) if k.startswith("group")},
                             "suites_without_helpers": n_plain, "resource_suites (one per helper and layout, all mutator pairs)": n_res_suites,
                             "api_runs_by_layout_of_the_main_vcl": layouts, "api_runs_by_number_of_test_files": nfiles_runs,
                             "runs_with_--filter": n_filter,
                             "stateful_suites": n_before_groups - n_plain - n_res_suites,
                             "api_runs_on_helper_suites": n_api_helper,
                             "helper_steps": {k: v for k, v in sorted(g.stats.items()) if k.startswith(("helper:", "observe", "resource-suite:"))}},
        "generator_stats": dict(sorted(g.stats.items())),
    })
    return ctx.finish(
        level="proof",
        rule="theorems of coq/Props/C10.v (unbounded: any number of tests, scopes, steps; any program of the small language); "
             "correspondence: seeded suites x orders/subsets x {coverage off, on} through the Go API, a sample through the real "
             "process (JSON and text); distinct = distinct (main VCL, test file, coverage) on which runner and model agree")


def group_scope_check(ctx, impl):
    """C10_group_order_dependent_refuted on the real runner: inside ONE describe group the verdict of
    `assert.is_notset(req.http.f0)` depends on whether `set req.http.f0` ran before it; ungrouped it does not"""
    s = T.Suite()
    s.subs.append((0, [("log", 1, [])]))
    s.tests.append({"name": 0, "scopes": ["recv"], "skip": False, "steps": [("set", 0)], "expect": "pass"})
    s.tests.append({"name": 1, "scopes": ["recv"], "skip": False, "steps": [("af", 0, False)], "expect": "pass"})
    res = {}
    for label, groups, order in (("grouped a,b", [[0, 1]], None), ("grouped b,a", [[1, 0]], None),
                                 ("ungrouped a,b", [], [("t", 0), ("t", 1)]), ("ungrouped b,a", [], [("t", 1), ("t", 0)])):
        s.groups = [{"name": 7, "before": {}, "after": {}, "tests": ts} for ts in groups]
        o = order or s.items()
        rep = U.robust_batch(impl, ["0 %s %s" % (s.main_vcl().encode().hex(), s.test_vcl(o).encode().hex())], hang_s=120)[0][0]
        api = parse_api(rep)
        res[label] = None if api in (None, "abort") else next((c[4] for c in api[0] if c[1] == "T1"), None)
    want = {"grouped a,b": "assert", "grouped b,a": "pass", "ungrouped a,b": "pass", "ungrouped b,a": "pass"}
    if res != want:
        ctx.violation("scope of the independence claim: verdict of the observing test is %s, the model says %s" % (res, want),
                      {"main.vcl": s.main_vcl(), "note": "tests inside one describe group share the interpreter; ungrouped tests do not"})


def cache_is_per_interpreter(ctx):
    """Cache state across tests.  The simulator's object cache is a field of the Interpreter
    (`cache: cache.New()` in interpreter.New), package interpreter/cache has no package-level variable, the
    test runner builds a new Interpreter for every ungrouped test subroutine (setupInterpreter ->
    interpreter.New) and the cache is only read / written on the request path (ProcessRequest), which test
    subroutines never run.  Checked on the sources of the working tree on every run (shape facts)."""
    def src(rel):
        with open(os.path.join(V.REPO, rel)) as f:
            return f.read()
    facts = []
    new = re.search(r"func New\(options \.\.\.context\.Option\) \*Interpreter \{(.*?)\n\}", src("interpreter/interpreter.go"), re.S)
    facts.append(("interpreter.New gives every Interpreter its own cache.New()", bool(new and re.search(r"cache:\s+cache\.New\(\)", new.group(1)))))
    cache_src = src("interpreter/cache/cache.go")
    # (a read-only table such as `var unCacheableStatusCodes = []int{...}` is not state)
    stateful = [l for l in re.findall(r"^var\s[^\n]*", cache_src, re.M) if re.search(r"map\[|sync\.|\*|Cache\b|\bchan\b", l)]
    facts.append(("package interpreter/cache declares no package-level map / pointer / sync / Cache variable", not stateful))
    facts.append(("cache.New returns a fresh struct", bool(re.search(r"func New\(\) \*Cache \{\s*return &Cache\{\}", cache_src))))
    tester_src = src("tester/tester.go")
    m = re.search(r"func \(t \*Tester\) setupInterpreter\(.*?\n\}", tester_src, re.S)
    facts.append(("setupInterpreter builds a new Interpreter", bool(m and "interpreter.New(" in m.group(0))))
    users = []
    for root, _, files in os.walk(os.path.join(V.REPO, "interpreter")):
        for fn in files:
            if fn.endswith(".go") and not fn.endswith("_test.go") and not fn.startswith("verif_"):
                p = os.path.join(root, fn)
                if re.search(r"\bi\.cache\.(Get|Set)\(", open(p).read()):
                    users.append(os.path.relpath(p, V.REPO))
    facts.append(("the cache is read / written only in interpreter/interpreter.go (request path)", users == ["interpreter/interpreter.go"]))
    facts.append(("the test runner and the testing.* functions never touch the cache",
                  not re.search(r"\.cache\b|VerifCache", tester_src) and
                  not any(re.search(r"cache\.", open(os.path.join(V.REPO, "tester/function", fn)).read())
                          for fn in os.listdir(os.path.join(V.REPO, "tester/function")) if fn.endswith(".go") and not fn.endswith("_test.go") and fn != "coverage.go")))
    for name, ok in facts:
        ctx.obligation("shape fact (cache state across tests): " + name, ok)
    bad = [n for n, ok in facts if not ok]
    if bad:
        ctx.violation("the object cache may no longer be fresh per test: " + "; ".join(bad),
                      {"no_failing_input": True, "broken": "shape facts on interpreter.New / interpreter/cache / tester.go", "facts": bad})
    return len(facts)


def broken_file_check(ctx, impl, falco, work, g):
    """runner.Test failing before any test runs: a test file that does not parse (or a main VCL that does not)
    makes `falco test` fail as a whole - exit 1, no report - whatever the other files contain"""
    s = fixed_suite(g, ["pass", "pass"], [False, False])
    s.nfiles = 2
    n = 0
    for which in ("b.test.vcl", "main.vcl"):
        tr = s.tree(s.items(), 0)
        tr["files"][which] = tr["files"][which] + "\nsub broken {\n  set req.http.x = ;\n}\n"
        rep = U.robust_batch(impl, [tree_request(tr)], hang_s=120)[0][0]
        rc, out, err = cli_run(falco, os.path.join(work, "cli"), tr)
        n += 2
        if parse_api(rep) != "abort" or rc == 0 or parse_cli_json(out) is not None:
            ctx.violation("%s does not parse: the run must fail as a whole (API: %s, process exit %d)" % (which, (rep or "")[:80], rc),
                          {"files": tr["files"]})
    return n


def fixed_suite(g, expects, skips):
    s = T.Suite()
    g.nlog = 0
    g.nsubs = 1
    s.subs.append((0, g.block(0, 3)))
    for t, (e, sk) in enumerate(zip(expects, skips)):
        s.tests.append({"name": t, "scopes": ["recv"], "skip": sk, "steps": g.steps(e, s.subs), "expect": e})
    return s


def corpus_known(ctx, falco, work):
    """corpus/C10/<name>/{main.vcl,main.test.vcl,kind}: suites on which --coverage changes the report"""
    d = os.path.join(V.VERIF, "corpus", "C10")
    n = 0
    if not os.path.isdir(d):
        return 0
    for name in sorted(os.listdir(d)):
        p = os.path.join(d, name)
        if not os.path.isfile(os.path.join(p, "main.vcl")):
            continue
        n += 1
        mainv = open(os.path.join(p, "main.vcl")).read()
        testv = open(os.path.join(p, "main.test.vcl")).read()
        if os.path.isfile(os.path.join(p, "expect")):
            # a repaired defect: the report must be the recorded one
            exp = json.load(open(os.path.join(p, "expect")))
            tr = flat_tree(mainv, testv, 0)
            tr["tags"] = exp.get("tags", [])
            rc, out, err = cli_run(falco, os.path.join(work, "cli"), tr)
            pj = parse_cli_json(out)
            if pj is None or rc != exp["exit"] or list(pj[1]) != exp["summary"]:
                ctx.violation("corpus/C10/%s: exit %d summary %s, expected exit %d summary %s (a repaired defect is back)" % (
                    name, rc, pj and pj[1], exp["exit"], exp["summary"]), {"main.vcl": mainv, "main.test.vcl": testv, "stdout": out[:2000]})
            continue
        kind = open(os.path.join(p, "kind")).read().strip()
        res = []
        for cov in (0, 1):
            rc, out, err = cli_run(falco, os.path.join(work, "cli"), flat_tree(mainv, testv, cov))
            pj = parse_cli_json(out)
            res.append((rc, pj))
        if res[0] != res[1]:
            ctx.violation("coverage changes the report of corpus/C10/%s: exit %d -> %d, %s -> %s" % (
                name, res[0][0], res[1][0], str(res[0][1])[:300], str(res[1][1])[:300]),
                {"main.vcl": mainv, "main.test.vcl": testv}, {"kind": kind})
    return n
