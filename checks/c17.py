"""C17 - HTTP header variables obey store laws.

proof  : coq/Props/C17.v over Model/HdrField.v (field.go) + Model/Hdr.v (http.go, header.go, Variable entry
         points): refinement to a function store keyed by canonical names and to item lists, get_set,
         get_unset, newline_truncation, case_insensitive, set_other_frame, field_get_set, field_unset,
         field_frame for all (well-formed) histories; three *_refuted theorems for the recorded findings.
tie    : T  Gen/HdrTables.v (protected header names, the regular expression text and the quoting class of
            field.go) regenerated from the repository; C17_pattern_pinned breaks when the text changes.
         C  extracted model (build/modelrun_hdr) vs the real Variable.Get/Set/Add/Unset (implrun hdr) in every
            scope where req / bereq / beresp / obj / resp are writable, reply by reply; and the three functions
            of field.go against the model's scanner on arbitrary subjects (implrun hdrfield).
         C  several objects of one request (implrun hdrmulti): a real interpreter builds req / bereq (createBackendRequest) /
            beresp / obj / resp; operations interleaved over the objects of a scope, scopes walked along the state machine,
            response objects rebuilt by Clone; against one store per object (Model/HdrMulti.v, C17_set_other_object_frame).
oracle : the store laws evaluated directly on the implementation's replies (no model involved), including
         "an operation on one object changes no read of any other object".
"""
import itertools
import os
import vcommon as V
from gen import hdr_gen as G

# (scope, object, model kind) - every pair in which the object is writable on the repaired tree
PAIRS = [("RECV", "req"), ("HASH", "req"), ("HIT", "req"), ("HIT", "obj"), ("MISS", "req"), ("MISS", "bereq"),
         ("PASS", "req"), ("PASS", "bereq"), ("FETCH", "req"), ("FETCH", "bereq"), ("FETCH", "beresp"),
         ("ERROR", "req"), ("ERROR", "obj"), ("DELIVER", "req"), ("DELIVER", "resp"), ("LOG", "req"), ("LOG", "resp")]
KIND = {"req": "req", "bereq": "req", "beresp": "resp", "obj": "resp", "resp": "resp"}
MAIN = [("RECV", "req"), ("DELIVER", "resp")]


def corpus():
    d = os.path.join(V.VERIF, "corpus", "C17")
    out = []
    if os.path.isdir(d):
        for fn in sorted(os.listdir(d)):
            if not fn.endswith(".hist"):
                continue
            only = None
            for line in open(os.path.join(d, fn)):
                line = line.strip()
                if not line or line.startswith("#"):
                    continue
                if line.startswith("@"):
                    only = tuple(line[1:].split())
                    continue
                out.append((line, only, "corpus/" + fn))
    return out


def parse_wire(w):
    ops = []
    for o in w.split(";"):
        f = o.split()
        if f[0] in ("g", "u", "hg", "B"):
            ops.append((f[0], f[1]))
        else:
            ops.append((f[0], f[1], None if f[2] == "_" else bytes.fromhex(f[2][1:])))
    return ops


def run(ctx):
    rng = ctx.rng
    thorough = ctx.thorough()
    proved = ctx.prove()
    with V.Lock("build"):
        model = V.driver("hdr")
    impl = [os.path.join(V.BUILD, "implrun"), "hdr"]
    implf = [os.path.join(V.BUILD, "implrun"), "hdrfield"]
    ctx.trusted += [
        "Coq 8.16.1 kernel (coqc; vm_compute only for closed witnesses and the pinned texts)",
        "axioms: none (Print Assumptions of every theorem of Props/C17.v: Closed under the global context)",
        "extraction: ExtrOcamlBasic only; OCaml 4.13.1; ocaml/common.ml + ocaml/hdr_main.ml (line protocol glue)",
        "translator harness/cmd/trans/hdr_tables.go (protectedHeaders keys, field.go pattern constant, setField quoting class -> Gen/HdrTables.v)",
        "harness/cmd/implrun/hdr.go (builds a context with req/bereq/beresp/obj/resp, calls Variable.Get/Set/Add/Unset, prints N / S<hex> / ok / err)",
        "harness hdrmulti: interpreter.TestProcessInit + VerifStoreContext (hook interpreter/verif_store.go) to obtain the objects the simulator builds",
        "modelled not verified: Model/HdrField.v is a hand transcription of the regular expression of field.go as a scanner "
        "(ASCII case folding; Go's leftmost-first priorities), Model/Hdr.v of net/http Header + textproto canonical names + header.go; "
        "both tied by the differential runs below",
        "Model/HdrCookie.v transcribes net/http readCookies / AddCookie rendering and removeCookieByName / setCookie (the limit on the number "
        "of cookies is not modelled); no theorem about cookies beyond refinement and frame - the cookie laws are checked by the oracle",
        "not modelled: values of other types than STRING, compound operators",
    ]
    reads = G.all_reads()
    nreads = len(reads)

    # ------------------------------------------------------------ which pairs are writable
    probe = V.run_batch(impl, ["%s %s g X" % p for p in PAIRS])
    writable = [p for p, r in zip(PAIRS, probe) if r is not None and not r.startswith(("unwritable", "crash", "died", "hang", "badreq"))]
    for p, r in zip(PAIRS, probe):
        if p not in writable:
            ctx.violation("%s.http.* is not writable in scope %s any more (probe set/unset: %s)" % (p[1], p[0], r),
                          {"scope": p[0], "object": p[1], "reply": r})
    if not writable:
        writable = list(MAIN)

    # ------------------------------------------------------------ histories
    hist = []      # (ops, label, pairs or None=all writable, oracle: None|'strict'|'tricky')
    for w, only, label in corpus():
        hist.append((G.instrument(parse_wire(w), reads), label, [only] if only else None, None))
    muts = G.small_mutators()
    n_small = len(muts)
    for o in muts:                                   # exhaustive: every history of length 1
        hist.append(([o] + reads, "exh1", MAIN, "strict"))
    for a, b in itertools.product(muts, repeat=2):   # exhaustive: every history of length 2
        hist.append(([a, b] + reads, "exh2", MAIN, None))
    n_exh = n_small + n_small * n_small
    exh3 = 0
    if thorough:                                     # exhaustive length 3 over a reduced alphabet
        red = G.small_mutators(names=[("Foo", "fOO"), ("X-Bar", "X-Bar")], keys=["a", "bc"], values=[b"x", b"p q,r", None])
        red = sorted(set(red), key=repr)
        for t in itertools.product(red, repeat=3):
            hist.append((list(t) + reads, "exh3r", [MAIN[1]], None))
            exh3 += 1
    n_s34 = 60000 if thorough else 2500
    for i in range(n_s34):                           # sampled length 3 and 4 over the small alphabet
        k = 3 if i % 2 == 0 else 4
        hist.append((G.instrument([rng.choice(muts) for _ in range(k)], reads), "small%d" % k, MAIN, "strict" if i % 4 < 2 else None))
    n_rand = 40000 if thorough else 2200
    for i in range(n_rand):                          # arbitrary values (focus: embedded keys, quotes, backslashes, LF)
        hist.append((G.instrument(G.random_history(rng), reads), "random", MAIN, None))
    n_orc = 40000 if thorough else 2200
    for i in range(n_orc):                           # the direct oracle's domain
        tricky = i % 3 == 0
        hist.append((G.instrument(G.oracle_history(rng, tricky=tricky), reads), "oracle-tricky" if tricky else "oracle",
                     MAIN, "tricky" if tricky else "strict"))
    per_pair = 3000 if thorough else 260
    others = [p for p in writable if p not in MAIN]
    pool = [h for h in hist if h[1] in ("random", "oracle", "oracle-tricky", "small3", "small4")]
    extra = []
    for p in others:
        for j in range(per_pair):
            h = pool[rng.randrange(len(pool))]
            extra.append((h[0], h[1], [p], h[3]))
    hist += extra

    # ------------------------------------------------------------ run both sides, pair by pair
    by_pair = {}
    for idx, (ops, label, pairs, orc) in enumerate(hist):
        for p in (pairs or writable):
            if p in writable or pairs:
                by_pair.setdefault(p, []).append(idx)
    evaluations = 0
    agree = 0
    labels = {}
    oracle_checked = 0
    oracle_viol = 0
    distinct = set()
    outcomes = {"N": 0, "S": 0, "ok": 0, "err": 0}
    for p, idxs in by_pair.items():
        wires = [G.wire(hist[i][0]) for i in idxs]
        ir = V.run_batch(impl, ["%s %s %s" % (p[0], p[1], w) for w in wires], hang_s=10)
        mr = V.run_batch([model], ["hdr %s %s" % (KIND[p[1]], w) for w in wires], hang_s=30)
        for i, w, a, b in zip(idxs, wires, ir, mr):
            ops, label, _, orc = hist[i]
            evaluations += 1
            labels[label] = labels.get(label, 0) + 1
            distinct.add(w)
            rep = {"scope": p[0], "object": p[1], "history": w[:3000], "label": label}
            if a is None or a.startswith(("crash", "died", "hang", "skipped")):
                ctx.violation("header operations %s in %s on %s.http (%s)" % ((a or "no reply")[:100], p[0], p[1], label),
                              dict(rep, impl=a))
                continue
            if b is None or "unmodelled" in b or b.startswith(("badreq", "died", "hang")):
                if b is not None and "unmodelled" in b:
                    continue
                ctx.violation("model driver failed on a history: %s" % (b or "no reply")[:100], dict(rep, model=b))
                continue
            A = a.split()
            for x in A:
                outcomes[x[0] if x[0] in "NS" else x] = outcomes.get(x[0] if x[0] in "NS" else x, 0) + 1
            if a != b:
                B = b.split()
                j = next((k for k, (x, y) in enumerate(zip(A, B)) if x != y), min(len(A), len(B)))
                upto = ";".join(w.split(";")[: j + 1])
                # minimise: drop the reads before the differing reply that are not needed
                ctx.violation(
                    "Variable.Get/Set/Add/Unset and Model/Hdr.v disagree in %s on %s.http at reply %d: implementation %s, model %s"
                    % (p[0], p[1], j, A[j] if j < len(A) else "-", B[j] if j < len(B) else "-"),
                    dict(rep, prefix=upto[-1500:], impl=a[:2000], model=b[:2000]))
            else:
                agree += 1
            if orc:
                oracle_checked += 1
                # the reads interleaved by instrument(): recover the un-instrumented ops
                plain = []
                k = 0
                while k < len(ops):
                    plain.append(ops[k])
                    k += 1 + (nreads if ops[k][0] not in ("g", "hg") else 0)
                if label == "exh1":
                    plain = [ops[0]]
                for msg, kind in G.oracle(plain, reads, A)[:3]:
                    oracle_viol += 1
                    ctx.violation("store law broken on the implementation (%s, %s.http): %s" % (p[0], p[1], msg),
                                  dict(rep, law=msg, impl=a[:2000]),
                                  {"kind": kind} if kind else None)

    # ------------------------------------------------------------ several objects of one request
    # built by the real interpreter (TestProcessInit: bereq from req through createBackendRequest, beresp fresh,
    # resp / obj cloned), operations interleaved over the objects of a scope, scopes walked along the state machine,
    # response objects rebuilt by Response.Clone on the way; every mutating step followed by the reads of every
    # object of the scope.  Model: one store per object (Model/HdrMulti.v).
    implm = [os.path.join(V.BUILD, "implrun"), "hdrmulti"]
    multi = []      # (pre, ops, label)
    pre_variants = [[], [("s", "req.Foo", b"")], [("s", "req.fOO", b"x")]]
    for sc in G.MULTI_SCOPES:
        small = G.multi_small_ops(sc)
        rd = G.multi_reads(sc, names=[("Foo", "fOO")])
        for pre in pre_variants:
            for o in small:
                multi.append((pre, [("@", sc)] + rd + [o] + rd, "mexh1"))
            for a, b in itertools.product(small, repeat=2):
                if a[1].split(".")[0] == b[1].split(".")[0] and pre:
                    continue        # same object twice: covered by the single-object histories
                multi.append((pre, [("@", sc)] + rd + [a] + rd + [b] + rd, "mexh2"))
    n_mexh = len(multi)
    mexh3 = 0
    if thorough:
        for sc in ("MISS", "DELIVER", "HIT"):
            small = [o for o in G.multi_small_ops(sc) if o[0] != "a" and not (o[0] == "s" and ":" in o[1] and o[2] is None)]
            rd = G.multi_reads(sc, names=[("Foo", "fOO")])
            for t in itertools.product(small, repeat=3):
                if len(set(x[1].split(".")[0] for x in t)) < 2:
                    continue
                multi.append(([], [("@", sc)] + rd + [t[0]] + rd + [t[1]] + rd + [t[2]] + rd, "mexh3"))
                mexh3 += 1
    for i in range(40000 if thorough else 1800):
        pre, ops = G.multi_history(rng)
        multi.append((pre, ops, "mrandom"))
    mw = ["%s | %s" % (G.mwire(pre), G.mwire(ops)) for pre, ops, _ in multi]
    mi = V.run_batch(implm, mw, hang_s=10)
    mm = V.run_batch([model], ["hdrmulti " + w for w in mw], hang_s=30)
    magree = 0
    moracle = 0
    for (pre, ops, label), w, a, b in zip(multi, mw, mi, mm):
        evaluations += 1
        labels[label] = labels.get(label, 0) + 1
        distinct.add(w)
        rep = {"history": w[:4000], "label": label, "objects": "req, bereq (createBackendRequest), beresp, obj, resp (TestProcessInit)"}
        if a is None or a.startswith(("crash", "died", "hang", "skipped", "initerr", "badreq")):
            ctx.violation("header operations on several objects: %s (%s)" % ((a or "no reply")[:100], label), dict(rep, impl=a))
            continue
        if b is None or b.startswith(("badreq", "died", "hang")) or "unmodelled" in b:
            if b is not None and "unmodelled" in b:
                continue
            ctx.violation("model driver failed on a multi-object history: %s" % (b or "no reply")[:100], dict(rep, model=b))
            continue
        A = a.split()
        if a != b:
            B = b.split()
            j = next((k for k, (x, y) in enumerate(zip(A, B)) if x != y), min(len(A), len(B)))
            seq = [G.mwire([o]) for o in pre] + ["|"] + [G.mwire([o]) for o in ops]
            ctx.violation("several objects of one request: implementation and Model/HdrMulti.v disagree at reply %d (%s): implementation %s, model %s"
                          % (j, seq[j] if j < len(seq) else "-", A[j] if j < len(A) else "-", B[j] if j < len(B) else "-"),
                          dict(rep, prefix=";".join(seq[: j + 1])[-1500:], impl=a[:2000], model=b[:2000]))
        else:
            magree += 1
        moracle += 1
        for msg in G.oracle_multi(pre, ops, A)[:2]:
            ctx.violation("store law broken on the implementation (objects of one request): " + msg, dict(rep, law=msg, impl=a[:2000]))

    # ------------------------------------------------------------ special names, several lines, scale
    # header names with special handling or unusual spelling (Cookie on request objects goes through net/http
    # cookies, Set-Cookie, Vary, Cache-Control, Surrogate-*, Host, protected names, digits / underscore / dot, a
    # 114-byte name), 2-4 lines per header (add) with sub-field reads / writes / unsets on keys of any line, reads
    # through every access path (name, name:key, header.get) before and after every write; and objects that hold
    # 1 ... 1000 headers, 8 / 64 KiB values, 50 sub-fields with prefix-related keys.
    spec = []      # (scope, obj, ops, label)
    spairs = [("RECV", "req"), ("MISS", "bereq"), ("FETCH", "beresp"), ("ERROR", "obj"), ("DELIVER", "resp"), ("LOG", "resp")]
    for i in range(30000 if thorough else 2600):
        pair, ops = G.special_history(rng)
        sc, ob = spairs[i % len(spairs)] if i % 3 else spairs[0]
        spec.append((sc, ob, ops, "special:" + pair[0][:20]))
    sizes = [1, 10, 95, 96, 97, 200]
    for i in range(1500 if thorough else 170):
        sc, ob = spairs[i % len(spairs)]
        spec.append((sc, ob, G.scale_history(rng, sizes[i % len(sizes)]), "scale:%d" % sizes[i % len(sizes)]))
    for i in range(60 if thorough else 6):
        sc, ob = spairs[i % len(spairs)]
        spec.append((sc, ob, G.scale_history(rng, 1000), "scale:1000"))
    sw = [G.xwire(ops) for _, _, ops, _ in spec]
    si = V.run_batch(impl, ["%s %s %s" % (sc, ob, w) for (sc, ob, _, _), w in zip(spec, sw)], hang_s=20)
    sm = V.run_batch([model], ["hdr %s %s" % (KIND[ob], w) for (sc, ob, _, _), w in zip(spec, sw)], hang_s=60)
    sagree = 0
    for (sc, ob, ops, label), w, a, b in zip(spec, sw, si, sm):
        evaluations += 1
        labels[label.split(":")[0]] = labels.get(label.split(":")[0], 0) + 1
        distinct.add(w)
        rep = {"scope": sc, "object": ob, "history": w[:4000], "label": label}
        if a is None or a.startswith(("crash", "died", "hang", "skipped", "badreq", "unwritable")):
            ctx.violation("header operations %s in %s on %s.http (%s)" % ((a or "no reply")[:100], sc, ob, label), dict(rep, impl=a))
            continue
        if b is None or b.startswith(("badreq", "died", "hang")):
            ctx.violation("model driver failed on a history (%s): %s" % (label, (b or "no reply")[:100]), dict(rep, model=b))
            continue
        A = a.split()
        if a != b:
            B = b.split()
            j = next((k for k, (x, y) in enumerate(zip(A, B)) if x != y), min(len(A), len(B)))
            ctx.violation("Variable.Get/Set/Add/Unset (and header.get) and Model/Hdr.v disagree in %s on %s.http at reply %d (%s): implementation %s, model %s"
                          % (sc, ob, j, G.xwire([ops[j]])[:80] if j < len(ops) else "-", (A[j] if j < len(A) else "-")[:80], (B[j] if j < len(B) else "-")[:80]),
                          dict(rep, prefix=G.xwire(ops[: j + 1])[-1500:], impl=a[:2000], model=b[:2000]))
        else:
            sagree += 1
        for msg in G.oracle_special(ops, A, request_object=(KIND[ob] == "req"))[:2]:
            ctx.violation("store law broken on the implementation (%s, %s.http, %s): %s" % (sc, ob, label, msg), dict(rep, law=msg, impl=a[:2000]))

    # ------------------------------------------------------------ field.go functions vs the scanner
    freqs = []
    for n in range(0, 7 if thorough else 6):         # exhaustive: every subject of length <= n over 6 bytes
        for t in itertools.product(b'a ,="\\', repeat=n):
            s = bytes(t)
            freqs.append("get =%s =61" % s.hex())
            freqs.append("unset =%s =61" % s.hex())
    n_exh_field = len(freqs)
    alpha = b'abk ,="\\\t1;-'
    for i in range(200000 if thorough else 25000):
        r = rng.random()
        if r < 0.5:
            s = bytes(rng.choice(alpha) for _ in range(rng.randint(0, 16)))
        elif r < 0.8:
            s = G.dict_value(rng, G.KEYS, messy=True)
        else:
            s = G.tricky_value(rng, G.KEYS) + rng.choice([b"", b",a=1", b", bc", b' ,k-1="x"'])
        k = rng.choice([b"a", b"bc", b"k-1", b"A", b"b", b"K-1", b"zz"])
        kind = rng.choice(["get", "unset", "set"])
        if kind == "set":
            v = rng.choice([None, G.plain_value(rng), G.tricky_value(rng, G.KEYS)])
            freqs.append("set =%s =%s %s" % (s.hex(), k.hex(), G.enc_val(v)))
        else:
            freqs.append("%s =%s =%s" % (kind, s.hex(), k.hex()))
    fi = V.run_batch(implf, freqs, hang_s=10)
    fm = V.run_batch([model], ["field " + r for r in freqs], hang_s=30)
    fagree = 0
    for q, a, b in zip(freqs, fi, fm):
        evaluations += 1
        if a != b:
            f = q.split()
            ctx.violation("field.go %s and the scanner of Model/HdrField.v disagree: implementation %s, model %s" % (f[0], a, b),
                          {"function": f[0], "subject_hex": f[1][1:], "key_hex": f[2][1:], "value": f[3] if len(f) > 3 else None,
                           "impl": a, "model": b})
        else:
            fagree += 1
    distinct |= set(freqs)

    if not proved and not ctx.violations:
        ctx.violation("proof obligation of C17 no longer checks: " + (ctx.broken or "Props/C17.v"),
                      {"no_failing_input": True, "broken": ctx.broken,
                       "searched": "%d histories in %d scope/object pairs and %d field.go calls: implementation agrees with the model "
                                   "and satisfies the store laws on them" % (len(hist), len(by_pair), len(freqs))})
    ctx.samples = [{"history": G.wire(hist[i][0])[:300], "label": hist[i][1]} for i in (0, len(hist) // 3, len(hist) // 2, len(hist) - 1)]
    ctx.samples += [{"field_call": q[:200]} for q in freqs[-2:]]
    ctx.coverage.update({
        "evaluations": evaluations,
        "distinct_nontrivial": len(distinct),
        "histories": len(hist), "history_runs": evaluations - len(freqs), "history_runs_agree": agree,
        "scope_object_pairs": ["%s/%s" % p for p in writable],
        "by_label": labels,
        "exhaustive_short": {"alphabet": "3 names x 2 spellings, 3 keys, 4 values (token, 'p q,r', empty, not set); set/add/unset on whole headers and sub-fields",
                             "mutating_ops": n_small, "histories_len_le_2": n_exh, "complete": True,
                             "len3_reduced_alphabet": exh3, "len3_4_sampled": n_s34},
        "oracle_histories": oracle_checked, "oracle_violations": oracle_viol,
        "special_names_lines_scale": {"histories": len(spec), "agree": sagree,
                                      "names": [p[0][:24] for p in G.SPECIAL_NAMES], "ballast_sizes": [1, 10, 95, 96, 97, 200, 1000],
                                      "read_paths": ["obj.http.Name", "obj.http.Name:key", "header.get(obj, Name)", "header.get(obj, Name:key)"]},
        "multi_object": {"histories": len(multi), "agree": magree, "oracle_checked": moracle,
                         "exhaustive_len_le_2": n_mexh, "exhaustive_len_3_two_objects": mexh3,
                         "alphabet": "per scope with two or three writable objects: 2 spellings of one name, values x / empty / not set, key a, "
                                     "set/add/unset whole and sub-field on every object, with and without a header set on req before bereq is built",
                         "scopes": G.MULTI_SCOPES},
        "reply_kinds": outcomes,
        "field_calls": len(freqs), "field_calls_exhaustive": n_exh_field, "field_calls_agree": fagree,
        "value_focus": "embedded ,key= inside quotes, trailing backslash, quote-wrapped tokens, LF, blanks around separators, non-ASCII",
    })
    return ctx.finish(
        level="proof",
        rule="theorems of coq/Props/C17.v (all histories / all well-formed histories); correspondence: corpus + every history of "
             "length <= 2 over the small alphabet (complete) + sampled length 3-4 + random histories with adversarial values, "
             "each followed by the full read set, in every writable scope/object pair; field.go functions on every subject of "
             "length <= 5 over {a,blank,comma,=,quote,backslash} + random (distinct = distinct request text)")
