"""C13 - evaluation changes only what it names.

proof  : coq/Props/C13.v over Model/Store.v (heap model: names -> cells): eval_frame, set_frame,
         call_frame, args_by_value, exec_wf; and, for the model of the tree BEFORE the two repairs
         (unary minus in place, parameters aliasing the caller's cell), the refutations.
tie    : C  extracted model (build/modelrun_store) vs the real interpreter (build/implrun snapshot):
            the store before EVERY executed statement (all locals of the executing frame through the
            add-only verif accessor, every pooled ctx variable / header / re.group.N) and the logs.
         the same snapshots are read a second way, from inside the language: a variant of each
         program logs every visible name after every statement; each log line must be the rendering
         of what the accessor reported.
oracle : on the implementation alone (no model): across `set T op= E` (E without user calls) every
         pooled name other than T and re.group.* is unchanged; across any statement the locals it
         does not assign are unchanged; across `call` / a user function call the caller's locals and
         (when the caller's own expressions match nothing) re.group.N are unchanged.
"""
import os
import re
import vcommon as V
import store_util as U
from gen import storegen as G


# ------------------------------------------------------------------------------- running both sides
def parse_impl(rep):
    """-> dict(status, entries=[dict(line, depth, frame, locals, pool)], logs=[bytes]) or None"""
    if rep is None or not rep.startswith("ok "):
        return None
    xs = U.parse_sexps(rep[3:])
    out = {"entries": [], "logs": [], "status": None, "msg": None, "probe": None}
    for x in xs:
        if x[0] in ("e", "end"):
            bar = x.index("|")
            if x[0] == "e":
                ent = {"line": int(x[1]), "depth": int(x[2]), "frame": int(x[3])}
                loc = x[4:bar]
            else:
                out["status"] = x[1]
                ent = {"line": None, "depth": 0, "frame": int(x[2])}
                loc = x[3:bar]
            ent["locals"] = {l[0]: l[1] for l in loc}
            ent["pool"] = x[bar + 1:]
            out["entries"].append(ent)
        elif x[0] == "logs":
            out["logs"] = [bytes.fromhex(q[1]) for q in x[1:]]
        elif x[0] == "probe":
            out["probe"] = U.show(x)
        elif x[0] == "msg":
            out["msg"] = bytes.fromhex(x[1][1]).decode("utf-8", "replace")
    return out


NOTSET = ["S", ("q", ""), "1", "0"]


def parse_model(rep, prog):
    """-> dict(status, entries=[dict(depth, locals, pool)], logs)"""
    if rep is None:
        return None
    st, _, rest = rep.partition(" ")
    out = {"status": st, "entries": [], "logs": []}
    if st not in ("norm", "bare", "val") and not st.startswith("state"):
        return out
    xs = U.parse_sexps(rest)
    nh = len(G.HDRS)
    for x in xs:
        if x[0] == "snaps":
            for s in x[1:]:
                locs = {}
                for k, v in s[2][1:]:
                    locs.setdefault("var.v" + k, v)       # first binding wins (re-declaration)
                pool = list(s[3][1:])
                hd = {(h[0][0], h[0][1]): h[1] for h in reversed(s[5][1:])}
                for o in range(len(prog.objs)):
                    for h in range(nh):
                        q = hd.get((str(o), str(h)))
                        pool.append(NOTSET if q is None else ["S", q, "0", "0"])
                gr = s[4][1:]
                for j in range(G.NGROUPS):
                    pool.append(gr[j] if j < len(gr) else NOTSET)
                pool += list(s[6][1:])                      # sub-fields k1, k2 of the first two headers of each object
                out["entries"].append({"depth": int(s[1]), "locals": locs, "pool": pool})
        elif x[0] == "logs":
            out["logs"] = [bytes.fromhex(q[1]) for q in x[1:]]
    return out


def impl_requests(progs, snapshot_logs=False):
    reqs, maps = [], []
    for p in progs:
        text, linemap = p.vcl(snapshot_logs=snapshot_logs)
        reqs.append("%s %s %s%s" % (p.scope, ",".join(p.pool()), text.encode().hex(), " logcheck" if snapshot_logs else ""))
        maps.append((text, linemap))
    return reqs, maps


def compare(prog, it, mt):
    """first disagreement between the implementation trace and the model trace, or None"""
    def impl_outcome(st):
        if st == "ok":
            return "norm"
        if st.startswith("state-"):
            n = st[6:].lower()
            if n in ("restart", "error"):
                return "state100" if n == "restart" else "state101"
            return "state%d" % G.STATES.index(n) if n in G.STATES else "bare"
        return st
    if mt["status"] in ("crash", "fuel"):
        return "model says %s, implementation %s" % (mt["status"], it["status"])
    if it["status"] == "err":
        return None if mt["status"] == "err" else "implementation raises (%s), model says %s" % (it["msg"], mt["status"])
    if mt["status"] == "err":
        return "model raises, implementation says %s" % it["status"]
    if impl_outcome(it["status"]) != mt["status"]:
        return "completion differs: implementation %s, model %s" % (it["status"], mt["status"])
    ie, me = it["entries"], mt["entries"]
    for k in range(min(len(ie), len(me))):
        a, b = ie[k], me[k]
        where = "snapshot %d (before line %s, depth %d)" % (k, a["line"], a["depth"])
        if a["depth"] != b["depth"]:
            return "%s: depth %d vs model %d" % (where, a["depth"], b["depth"])
        if set(a["locals"]) != set(b["locals"]):
            return "%s: locals %s vs model %s" % (where, sorted(a["locals"]), sorted(b["locals"]))
        for n in sorted(a["locals"]):
            if U.show(a["locals"][n]) != U.show(b["locals"][n]):
                return "%s: %s = %s, model %s" % (where, n, U.show(a["locals"][n]), U.show(b["locals"][n]))
        for n, x, y in zip(prog.pool(), a["pool"], b["pool"]):
            if n == "@obj.body":
                # a reader over the text: only the text is there to compare (no not-set / literal marks)
                x, y = (x[:2] if isinstance(x, (list, tuple)) else x), (y[:2] if isinstance(y, (list, tuple)) else y)
            if U.show(x) != U.show(y):
                return "%s: %s = %s, model %s" % (where, n, U.show(x), U.show(y))
    if len(ie) != len(me):
        return "number of executed statements differs: %d vs model %d" % (len(ie) - 1, len(me) - 1)
    if it["logs"] != mt["logs"]:
        return "logs differ: %r vs model %r" % (it["logs"][:6], mt["logs"][:6])
    return None


# ------------------------------------------------------------------------------- direct oracle
def stmt_exprs(s):
    """the expressions a statement evaluates in its own frame before/while it acts"""
    k = s[0]
    if k == "decl":
        return [s[3]] if s[3] is not None else []
    if k == "set":
        return [s[3]]
    if k == "log":
        return [s[1]]
    if k == "call":
        return list(s[2])
    if k == "ret":
        return [s[1]] if s[1] is not None else []
    if k == "if":
        return [s[1]]
    if k == "rawstmt":
        return [("raw", "", s[2])]
    if k == "add":
        return [s[2]]
    if k == "synth":
        return [s[1]]
    if k == "error":
        return [e for e in s[1:3] if e is not None]
    if k == "switch":
        # the control expression, and a case written `case ~ "re"` is a match of this frame
        return [s[1]] + [("match", False, ("lit", None, ""), t[1]) for t, _, _ in s[3] if t is not None and t[0] == "re"]
    return []


_EFFECTS = None
# ctx fields a built-in may write (Gen/StoreEffects.v) -> the pool name that shows them
EFFECT_CELL = {"FastlyError": "@fastly.error", "RequestWorkspaceBytes": "@workspace"}
STMT_KIND = {"set": "Set", "add": "Add", "unset": "Unset", "decl": "Declare", "log": "Log", "if": "If", "call": "Call",
             "ret": "Return", "switch": "Switch", "error": "Error", "unsetwild": "Unset", "synth": "Synthetic"}
OBJ_FIELD = {"req": "Request.Header", "bereq": "BackendRequest.Header", "beresp": "BackendResponse.Header",
             "resp": "Response.Header", "obj": "Object.Header"}


def builtin_effects():
    """name -> set of ctx paths, from the table the translator reads off interpreter/function/builtin"""
    global _EFFECTS
    if _EFFECTS is None:
        txt = open(os.path.join(V.COQ, "Gen", "StoreEffects.v")).read()
        body = txt[txt.index("Definition builtin_effects"):txt.index("Definition builtin_ctx_free")]
        _EFFECTS = {m.group(1): set(re.findall(r'"([^"]*)"', m.group(2)))
                    for m in re.finditer(r'\("([^"]+)", \[([^\]]*)\]\)', body)}
        if len(_EFFECTS) < 100:
            raise V.BuildError("Gen/StoreEffects.v: built-in effect table not readable")
    return _EFFECTS


_TABLES = {}


def effect_table(name):
    """statement_effects / operator_effects of Gen/StoreEffects.v as a dict"""
    if name not in _TABLES:
        txt = open(os.path.join(V.COQ, "Gen", "StoreEffects.v")).read()
        body = txt[txt.index("Definition " + name):]
        body = body[:body.index("].") + 2]
        _TABLES[name] = {m.group(1): set(re.findall(r'"([^"]*)"', m.group(2)))
                         for m in re.finditer(r'\("([^"]+)", \[([^\]]*)\]\)', body)}
    return _TABLES[name]


def model_implicit():
    if "model" not in _TABLES:
        txt = open(os.path.join(V.COQ, "Model", "StoreBuiltinNames.v")).read()
        out = {}
        for k in ("error", "match", "set"):
            m = re.search(r"Definition %s_implicit : list string := \[([^\]]*)\]" % k, txt)
            out[k] = re.findall(r'"([^"]+)"', m.group(1))
        _TABLES["model"] = out
    return _TABLES["model"]


def stmt_kind(s, text):
    if s[0] == "rawstmt":
        w = text.split(None, 1)[0] if text.split() else ""
        return {"set": "Set", "add": "Add", "unset": "Unset", "error": "Error", "synthetic": "Synthetic", "log": "Log", "call": "Call",
                "if": "If", "switch": "Switch"}.get(w, "FunctionCall")
    return STMT_KIND.get(s[0])


def names_tie():
    """the built-in names the generator renders are the ones Proofs/StoreEffectsTie.v reasons about"""
    txt = open(os.path.join(V.COQ, "Model", "StoreBuiltinNames.v")).read()
    m = re.search(r"std_builtin_names : list string := \[([^\]]*)\]", txt)
    coq = re.findall(r'"([^"]+)"', m.group(1)) if m else None
    mine = [G.BUILTINS[k][0] for k in sorted(G.BUILTINS)]
    return coq == mine, "generator %s / Model/StoreBuiltinNames.v %s" % (mine, coq)


def line_effects(text):
    """ctx paths the built-ins named on this source line may write"""
    fx = builtin_effects()
    out = set()
    for m in re.finditer(r"([a-z][a-z0-9_.]*)\(", text):
        out |= fx.get(m.group(1), set())
    return out


def unobserved_effects(text, target):
    """effects of the line's built-ins that no pool name shows: such a statement must not be generated.
    Header maps are shown header by header (a header other than the target that changes is reported as
    such); the cells of EFFECT_CELL are shown through the harness."""
    return [p for p in line_effects(text)
            if p not in EFFECT_CELL and (p[:-2] if p.endswith(".*") else p) not in OBJ_FIELD.values()]


def oracle(prog, it, linemap):
    """violations of the frame property visible in the implementation's own trace"""
    bad = []
    ents = it["entries"]
    pool = prog.pool()
    for i, a in enumerate(ents[:-1] if ents and ents[-1]["line"] is None else ents):
        info = linemap.get(a["line"])
        if info is None or info[0] == "snaplog":
            continue
        # the state right after this statement, seen from the same frame
        b = None
        for j in range(i + 1, len(ents)):
            if ents[j]["frame"] == a["frame"]:
                b = ents[j]
                break
            if ents[j]["depth"] < a["depth"]:
                break
        if info[0] == "elif":
            s = ("if", info[1], [], [], None)
        else:
            s = info[1]
        if b is None:
            continue
        exprs = stmt_exprs(s)
        calls = s[0] == "call" or any(G.expr_has(e, ("call",)) for e in exprs)
        matches = any(G.expr_has(e, ("match",)) for e in exprs)
        target = prog.name_text(s[1]) if s[0] in ("set", "unset", "add") else ("var.v%d" % s[1] if s[0] == "decl" else None)
        if s[0] == "synth":
            target = "@obj.body"
        implicit = ("@obj.status", "@obj.response", "obj.response") if s[0] == "error" else ()
        if s[0] == "rawstmt":
            target = s[2].get("target")
        derived = derived_of(target, pool)
        if s[0] == "unsetwild":
            # exactly the headers of that object under the prefix (case-insensitively), with their sub-fields
            pre = "%s.http." % prog.objs[s[1]]
            derived = [n for n in pool if n.startswith(pre) and n[len(pre):].split(":")[0].lower().startswith(s[2].decode().lower())]
        what = "line %d `%s`" % (a["line"], prog_line(prog, a["line"]))
        # built-ins named on the line: their documented implicit cells (from the Go source) may change too
        fx = line_effects(prog_line(prog, a["line"]))
        implicit = tuple(implicit) + tuple(EFFECT_CELL[x] for x in fx if x in EFFECT_CELL)
        # ... and what the statement kind itself writes according to statement.go / operator.go
        kind = stmt_kind(s, prog_line(prog, a["line"]))
        # (the MODEL's lists, Model/StoreBuiltinNames.v, which C13_error_implicit / C13_set_implicit /
        # C13_match_implicit / C13_silent_statement_kinds tie to the source: a source that starts to write
        # more fails those theorems AND shows here as a changed cell)
        ml = model_implicit()
        sfx = set(ml["error"] if kind == "Error" else ml["set"] if kind in ("Set", "Add") else ())
        if matches or " ~ " in prog_line(prog, a["line"]) or " !~ " in prog_line(prog, a["line"]):
            sfx |= set(ml["match"])
        implicit += tuple(EFFECT_CELL[x] for x in sfx if x in EFFECT_CELL)
        if kind == "Error":
            implicit += ("@obj.status", "@obj.response", "obj.response")
        for path in unobserved_effects(prog_line(prog, a["line"]), target):
            bad.append(("%s uses a built-in that may write ctx.%s, which the snapshot does not show" % (what, path), a["line"]))
        # locals of the frame: only the assigned one may change, none may vanish
        for n, v in a["locals"].items():
            if n == target:
                continue
            if n not in b["locals"]:
                bad.append(("%s: local %s vanished" % (what, n), a["line"]))
            elif U.show(b["locals"][n]) != U.show(v):
                bad.append(("%s changed %s: %s -> %s" % (what, n, U.show(v), U.show(b["locals"][n])), a["line"]))
        for n, x, y in zip(pool, a["pool"], b["pool"]):
            if n == target or n in derived or n in implicit or U.show(x) == U.show(y):
                continue
            if n.startswith("re.group."):
                if matches:
                    continue            # this frame's own match
                bad.append(("%s changed %s: %s -> %s" % (what, n, U.show(x), U.show(y)), a["line"]))
            elif not calls:
                bad.append(("%s changed %s: %s -> %s" % (what, n, U.show(x), U.show(y)), a["line"]))
    return bad


def derived_of(target, pool):
    """names whose value is computed from the target's: a header and its sub-fields, req.url and its parts"""
    if target is None:
        return []
    out = []
    for n in pool:
        if n == target:
            continue
        if n.split(":")[0] == target.split(":")[0] and ".http." in n:
            out.append(n)           # the header itself and all of its sub-fields (sub-field laws are C17's)
        if target == "req.url" and n.startswith("req.url."):
            out.append(n)
    return out


def probe_diff(a, b):
    xa, xb = a.split(" ("), (b or "").split(" (")
    return "; ".join("%s -> %s" % (p, q) for p, q in zip(xa, xb) if p != q)[:400] or "(length differs)"


def prog_line(prog, line):
    return prog._text.splitlines()[line - 1].strip() if getattr(prog, "_text", None) else "?"


def parse_logrun(rep):
    """reply of the `logcheck` mode -> dict(status, entries=[(kind, line, depth, raw)], logs)"""
    if rep is None or not rep.startswith("ok "):
        return None
    out = {"entries": [], "logs": [], "status": None}
    for x in U.parse_sexps(rep[3:]):
        if x[0] == "l":
            out["entries"].append(("l", int(x[1]), int(x[2]), x[3]))
        elif x[0] == "s":
            out["entries"].append(("s", int(x[1]), int(x[2]), None))
        elif x[0] == "end":
            out["status"] = x[1]
        elif x[0] == "logs":
            out["logs"] = [bytes.fromhex(q[1]) for q in x[1:]]
    return out


def check_logs(prog, it, linemap):
    """log-variant run: every snapshot `log X;` line must print the rendering of the raw value the
    accessor reported for X at that moment.  A log statement prints when its evaluation is over,
    i.e. after the statements of any function it calls."""
    bad = []
    logs = it["logs"]
    k = 0
    pending = []

    def finish(ent):
        nonlocal k
        if k >= len(logs):
            return
        line = logs[k]
        k += 1
        kind, ln, _, raw = ent
        info = linemap.get(ln)
        if kind != "l" or info is None or info[0] != "snaplog":
            return
        if raw == ["nil"]:
            bad.append("line %d: log %s printed %r but the accessor has no such name" % (ln, info[1], line))
            return
        want = U.render(raw)
        if want is not None and want != line:
            bad.append("line %d: log %s printed %r, accessor value %s renders to %r" % (ln, info[1], line, U.show(raw), want))

    for ent in it["entries"]:
        while pending and pending[-1][2] >= ent[2]:
            finish(pending.pop())
        if prog_line(prog, ent[1]).startswith("log "):
            pending.append(ent)
    if it["status"] != "err":
        while pending:
            finish(pending.pop())
    return bad


def corpus_programs():
    d = os.path.join(V.VERIF, "corpus", "C13")
    out = []
    if os.path.isdir(d):
        for fn in sorted(os.listdir(d)):
            if fn.endswith(".vcl"):
                head = open(os.path.join(d, fn)).readline()
                out.append((fn, open(os.path.join(d, fn)).read(), head))
    return out


def run(ctx):
    if ctx.replay:
        # a replay file names the seed of the run that found it: the run is deterministic in the seed
        import json, random
        ctx.seed = json.load(open(ctx.replay)).get("seed", ctx.seed)
        ctx.rng = random.Random(ctx.seed)
    rng = ctx.rng
    thorough = ctx.thorough()
    proved = ctx.prove()
    with V.Lock("build"):
        model = V.driver("store")
    impl = [os.path.join(V.BUILD, "implrun"), "snapshot"]
    ctx.trusted += [
        "Coq 8.16.1 kernel (coqc; vm_compute only inside the witnesses of the *_needs_* / Example statements)",
        "axioms: none (Print Assumptions of every theorem of Props/C13.v: Closed under the global context)",
        "extraction: ExtrOcamlBasic only; OCaml 4.13.1; ocaml/common.ml + ocaml/store_main.ml (S-expression glue)",
        "harness/cmd/implrun/store.go (Debugger.Run callback + add-only accessors interpreter/verif_store.go) and its "
        "reading of pooled names with ProcessExpression on an identifier",
        "gen/storegen.py renders ONE generated AST to VCL text and to the model's S-expression (a rendering bug shows as a disagreement)",
        "modelled not verified: Model/Store.v is a hand transcription of expression.go / statement.go / subroutine.go / "
        "variable/local.go / variable/header.go (whole headers), tied by the differential run; value-level operators are a "
        "parameter of the theorems and Model/StoreOps.v (small exact fragment) when running",
        "PCRE is an oracle in the theorems; when running, two pattern shapes with a direct definition",
    ]
    # ------------------------------------------------------------------ programs
    n_core = 12000 if thorough else 320
    n_wild = 8000 if thorough else 190
    # volume knobs for a targeted re-run of the generators (never set by a registered command)
    n_core = int(os.environ.get("C13_N_CORE", n_core))
    n_wild = int(os.environ.get("C13_N_WILD", n_wild))
    # a fixed share of the budget goes to the sharp dimensions (gen/storegen.py focus=True): expression
    # SHAPES (model-compared) and locals / parameters / results of EVERY type (oracle)
    g = G.StoreGen(rng)
    gf = G.StoreGen(rng, focus=True)
    wg = G.WildGen(rng)
    wgf = G.WildGen(rng, focus=True)

    violations_before = len(ctx.violations)
    ctx.obligation("ctx variables of the programs drawn from Gen/StoreWritable.v (Set / Get methods of interpreter/variable)",
                   G.WRITABLE is not None, "" if G.WRITABLE is not None else "table missing or not generated: hand-written fallback list in use")
    ok, note = names_tie()
    ctx.obligation("built-in names of the generator = std_builtin_names of the model (effect-free by Gen/StoreEffects.v)", ok, note)
    # ------------------------------------------------------------------ corpus first (fixed VCL programs with their own expectations)
    n_corpus = run_corpus(ctx, impl)

    # the programs are generated, run and judged in CHUNKS; only counters survive a chunk (a thorough run
    # used to hold every parsed trace: > 13 GB)
    acc = {"n_err": 0, "n_ok": 0, "n_pairs": 0, "model_runs": 0, "agree": 0, "mstat": {}, "n_loglines": 0,
           "distinct": set(), "watchdog": {"retried": 0, "recovered": 0, "reproduced": 0}, "max_violations": 40}
    samples = []
    import time as _t
    t0 = _t.time()
    matrix, accepted = run_matrix(ctx, impl, acc)
    matrix["seconds"] = round(_t.time() - t0, 1)
    wg.accepted = wgf.accepted = sorted(accepted)
    CH = 300
    done_core = done_wild = 0
    while done_core < n_core or done_wild < n_wild:
        nc = min(CH, n_core - done_core)
        nw = min(CH * n_wild // max(n_core, 1) + 1, n_wild - done_wild)
        progs = [(gf if (done_core + k) % 3 == 0 else g).program() for k in range(nc)]
        wild = [(wgf if (done_wild + k) % 2 == 0 else wg).program() for k in range(nw)]
        done_core += nc
        done_wild += nw
        process_chunk(ctx, impl, model, progs, wild, acc, thorough)
        if not samples and progs:
            samples = [{"scope": q.scope, "vcl": q._text[:1500]} for q in (progs[0], progs[len(progs) // 2], wild[0] if wild else progs[-1])]
        if len(ctx.violations) - violations_before >= acc["max_violations"]:
            break                       # enough to report; do not spend the rest of the budget
    stats = {}
    dims = {}
    for pre, gen in (("", g), ("focus:", gf), ("wild:", wg), ("wild-focus:", wgf)):
        for k, v in gen.stats.items():
            if k.startswith("dim:"):
                dims[k[4:]] = dims.get(k[4:], 0) + v
            else:
                stats[pre + k] = v
    n_err, n_ok, n_pairs, agree, mstat, n_loglines = (acc[k] for k in ("n_err", "n_ok", "n_pairs", "agree", "mstat", "n_loglines"))

    if not proved and len(ctx.violations) == violations_before:
        ctx.violation("proof obligation of C13 no longer checks: " + (ctx.broken or "Props/C13.v"),
                      {"no_failing_input": True, "broken": ctx.broken,
                       "searched": "%d programs: no frame violation in the interpreter's traces, model and interpreter agree" % (done_core + done_wild)})
    ctx.samples = samples
    ctx.coverage.update({
        "evaluations": n_pairs + acc["model_runs"] + n_loglines,
        "distinct_nontrivial": len(acc["distinct"]),
        "programs_core": done_core, "programs_wild": done_wild, "corpus_programs": n_corpus,
        "watchdog": dict(acc["watchdog"], policy="a hang / died reply is re-run alone (twice, 4x the limit) and only reported when it reproduces"),
        "impl_runs_ok": n_ok, "impl_runs_raising": n_err,
        "statement_snapshots_checked_by_oracle": n_pairs,
        "model_runs": acc["model_runs"], "model_agree": agree, "model_status": mstat,
        "log_lines_cross_checked": n_loglines,
        "fresh_interpreter_probes_equal_to_a_new_process": acc.get("probes_equal", 0), "probes_differing": acc.get("probe_diffs", 0),
        "dimension_counts": dict(sorted(dims.items())),
        "budget_shares": {"core programs with shape focus": "1/3", "wild programs with shape + all-types focus": "1/2"},
        "generator_stats": dict(sorted(stats.items())),
        "operand_matrix": matrix,
        "tables_regenerated_from_source": [
            "Gen/StoreEffects.v: builtin_effects / builtin_ctx_free / builtin_arg_writers (interpreter/function/builtin/*.go), "
            "statement_effects (statement.go), operator_effects / operator_ctx_free (operator/operator.go)",
            "Gen/StoreWritable.v: writable / readable ctx variables per scope (interpreter/variable/<scope>.go Set / Get)"],
        "ctx_variables_per_scope_drawn_from_source": {sc: len(v) for sc, v in (G.WRITABLE or {}).items() if sc in G.SCOPES},
        "ctx_variables_assigned_into_a_field_their_getter_does_not_return": {sc: [n for n, _ in v] for sc, v in (G.WRITE_ONLY or {}).items() if sc in G.SCOPES},
    })
    return ctx.finish(
        level="proof",
        rule="theorems of coq/Props/C13.v over Model/Store.v (unbounded: any program, any state satisfying wf, any value-level "
             "operator semantics); correspondence: seeded type-directed programs (4 scopes, locals of 5 types, ctx cells, 3 headers "
             "per object, re.group.0-3, 0-3 subroutines with 0-2 parameters, if/else-if/else, calls, function calls); distinct = "
             "distinct program text on which model and interpreter agree on every snapshot")


def process_chunk(ctx, impl, model, progs, wild, acc, thorough):
    import hashlib

    def wd(st):
        for k in st:
            acc["watchdog"][k] += st[k]
    allp = progs + wild
    reqs, maps = impl_requests(allp)
    for p, (text, _) in zip(allp, maps):
        p._text = text
    ireps, st = U.robust_batch(impl, reqs, hang_s=60)
    wd(st)
    if acc.get("probe_baseline") is None:
        # what a fresh interpreter (a second service) looks like in a process that has run nothing
        base = parse_impl(U.robust_batch(impl, ["recv - " + "sub t_main {\n}\n".encode().hex()], hang_s=60)[0][0])
        acc["probe_baseline"] = base["probe"] if base else "?"
    itraces = []
    dirty = False
    for p, rep, (text, linemap) in zip(allp, ireps, maps):
        it = parse_impl(rep)
        itraces.append(it)
        if it is not None and it["probe"] != acc["probe_baseline"]:
            acc["probe_diffs"] = acc.get("probe_diffs", 0) + 1
            if not dirty:
                # the first program after which the process is no longer pristine is the culprit
                dirty = True
                ctx.violation("process-global state: after this program a FRESH interpreter (second service, same process) no longer "
                              "looks as in a new process: %s" % probe_diff(acc["probe_baseline"], it["probe"]),
                              {"scope": p.scope, "vcl": text, "probe_fresh_process": acc["probe_baseline"], "probe_after": it["probe"]})
        elif it is not None:
            acc["probes_equal"] = acc.get("probes_equal", 0) + 1
        if it is None:
            ctx.violation("interpreter %s on a generated store program (reproduced on a second and third run alone)" % ((rep or "no reply")[:120]),
                          {"scope": p.scope, "vcl": text, "reply": rep})
            continue
        if it["status"] == "err":
            acc["n_err"] += 1
        else:
            acc["n_ok"] += 1
    # ---- direct oracle on the implementation
    for p, it, (text, linemap) in zip(allp, itraces, maps):
        if it is None:
            continue
        acc["n_pairs"] += len(it["entries"])
        for what, line in oracle(p, it, linemap)[:1]:
            ctx.violation("store frame violated by the interpreter: " + what,
                          {"scope": p.scope, "vcl": text, "line": line, "wild": p.wild})
        if p.wild:
            acc["distinct"].add(hashlib.sha1(text.encode()).digest()[:8])
    # ---- model vs implementation (core programs)
    mreqs = []
    idx = []
    for k, (p, it) in enumerate(zip(progs, itraces)):
        if it is None or not it["entries"]:
            continue
        g0 = [U.show(v) for v in it["entries"][0]["pool"][:len(p.globals)]]
        mreqs.append("run repaired 20000 %d %s" % (len(p.objs), p.sexp(g0)))
        idx.append(k)
    mreps, st = U.robust_batch([model], mreqs, hang_s=180, mem_kb=8_000_000)
    wd(st)
    acc["model_runs"] += len(mreqs)
    for j, (k, rep) in enumerate(zip(idx, mreps)):
        p, it = progs[k], itraces[k]
        mt = parse_model(rep, p) if rep is not None else None
        if mt is None or rep.startswith(("badreq", "hang", "died", "stackoverflow", "skipped")):
            ctx.violation("model driver failed: %s" % (rep or "")[:200], {"vcl": p._text, "model_request": mreqs[j][:3000]})
            continue
        acc["mstat"][mt["status"]] = acc["mstat"].get(mt["status"], 0) + 1
        d = compare(p, it, mt)
        if d is not None:
            ctx.violation("interpreter and heap model disagree: " + d,
                          {"scope": p.scope, "vcl": p._text, "model_request": mreqs[j][:6000]})
        else:
            acc["agree"] += 1
            acc["distinct"].add(hashlib.sha1(p._text.encode()).digest()[:8])
    del itraces, ireps, mreps
    # ---- the same store seen through `log`
    sub = allp if thorough else allp[::2]
    lreqs, lmaps = impl_requests(sub, snapshot_logs=True)
    lreps, st = U.robust_batch(impl, lreqs, hang_s=60)
    wd(st)
    for p, rep, (text, linemap) in zip(sub, lreps, lmaps):
        it = parse_logrun(rep)
        if it is None:
            ctx.violation("interpreter %s on a log-instrumented store program" % ((rep or "no reply")[:120]), {"vcl": text})
            continue
        base = p._text
        p._text = text
        bad = check_logs(p, it, linemap)
        acc["n_loglines"] += len(it["logs"])
        for what in bad[:1]:
            ctx.violation("accessor snapshot and in-language log disagree: " + what, {"scope": p.scope, "vcl": text})
        p._text = base


def run_matrix(ctx, impl, acc):
    """the operand matrix (gen/storegen.py operand_matrix): every value type as a local and as a ctx variable under
    every expression form, exhaustively; the frame oracle reads every operand after the evaluation.
    Returns the distribution {type: {form: "checked n / refused m"}} for the evidence."""
    progs = G.operand_matrix()
    reqs, maps = impl_requests(progs)
    for p, (text, _) in zip(progs, maps):
        p._text = text
    reps, st = U.robust_batch(impl, reqs, hang_s=60)
    for k in st:
        acc["watchdog"][k] += st[k]
    dist, refused, accepted = {}, {}, set()
    n_checked = n_bad = 0
    for p, rep, (text, linemap) in zip(progs, reps, maps):
        ty, src, fid, shown = p.cell
        it = parse_impl(rep)
        cell = dist.setdefault(G.TYN[ty], {}).setdefault(fid, {"local": [0, 0], "ctx": [0, 0]})
        kind = "local" if src == "local" else "ctx"
        # the cell counts as exercised only if the form statement itself ran (twice) and the store was read after it
        form_lines = [ln for ln, info in linemap.items() if info[0] == "stmt" and info[1][0] == "rawstmt" and info[1] is p.main[-2]]
        nrun = sum(1 for e in it["entries"] if e["line"] in form_lines) if it is not None else 0
        ran = it is not None and it["status"] != "err" and (nrun >= 2 or (nrun == 1 and it["status"].startswith("state")))
        if it is None and (rep or "").startswith("initerr"):
            cell[kind][1] += 1                       # does not parse / is refused before running: not a cell of the language
            refused.setdefault(G.TYN[ty], set()).add(fid)
            continue
        if it is None:
            ctx.violation("interpreter %s on an operand-matrix program (%s %s as operand of %s)" % ((rep or "no reply")[:120], G.TYN[ty], src, shown),
                          {"scope": p.scope, "vcl": text, "reply": rep})
            continue
        acc["n_pairs"] += len(it["entries"])
        bad = oracle(p, it, linemap)
        for what, line in bad[:1]:
            n_bad += 1
            ctx.violation("store frame violated by the interpreter (operand matrix: %s %s as operand of `%s`): %s"
                          % (G.TYN[ty], "local" if src == "local" else "ctx variable " + src[4:], shown, what),
                          {"scope": p.scope, "vcl": text, "line": line, "operand_type": G.TYN[ty], "operand_source": src, "form": fid})
        if ran:
            cell[kind][0] += 1
            n_checked += 1
            accepted.add((ty, fid))
        else:
            cell[kind][1] += 1
            refused.setdefault(G.TYN[ty], set()).add(fid)
    table = {}
    for tn, forms in sorted(dist.items()):
        table[tn] = {f: "local %d/%d, ctx %d/%d" % (c["local"][0], sum(c["local"]), c["ctx"][0], sum(c["ctx"])) for f, c in sorted(forms.items())
                     if c["local"][0] or c["ctx"][0]}
    return {"programs": len(progs), "cells_evaluated_twice_and_read_after": n_checked, "violations": n_bad,
            "operand_type_x_expression_form (accepted/run, per source)": table,
            "forms_refused_by_the_interpreter_for_the_type": {t: sorted(v - {f for f in table.get(t, {})}) for t, v in sorted(refused.items())}}, accepted


def run_corpus(ctx, impl):
    """corpus/C13/*.vcl: first line `# scope=<s> pool=<a,b,..> expect=<name>=<rendered value>;...` (values at the end)"""
    items = corpus_programs()
    reqs = []
    metas = []
    for fn, text, head in items:
        kv = dict(x.split("=", 1) for x in head.lstrip("# ").split() if "=" in x)
        reqs.append("%s %s %s" % (kv.get("scope", "recv"), kv.get("pool", "-"), text.encode().hex()))
        metas.append((fn, text, kv))
    reps = U.robust_batch(impl, reqs, hang_s=60)[0] if reqs else []
    for (fn, text, kv), rep in zip(metas, reps):
        it = parse_impl(rep)
        if it is None or it["status"] != "ok":
            ctx.violation("corpus program %s does not run: %s" % (fn, (rep or "")[:200]), {"vcl": text})
            continue
        end = it["entries"][-1]
        pool = dict(zip([x for x in kv.get("pool", "").split(",") if x and x != "-"], end["pool"]))
        for item in kv.get("expect", "").split(";"):
            if not item:
                continue
            n, want = item.split("=", 1)
            raw = end["locals"].get(n) or pool.get(n)
            got = U.render(raw).decode() if raw is not None else None
            if got != want:
                ctx.violation("corpus/C13/%s: %s is %s at the end, expected %s (a repaired defect is back)" % (fn, n, got, want),
                              {"vcl": text, "file": fn})
    return len(items)
