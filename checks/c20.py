"""C20 - VCL generated from remote and Terraform resources is valid and faithful.

proof  : coq/Props/C20.v.  End to end over the real lexer / pump / parser models (Model/Lex.v, Pump.v, Parse*.v through
         LexParse.parse_source): C20_table_parses_real, C20_acl_roundtrip, C20_backend_roundtrip, C20_director_roundtrip
         (Proofs/C20Lex.v, C20Chain.v, C20Table.v, C20Acl.v, C20Backend.v).  Over Model/Escape.v alone: decode_escape,
         quote_no_dquote, lex_string_escape, table_roundtrip, acl_comment_one_line; unquoted_refuted_* for the templates
         before the repair.
tie    : C  resource sets as Terraform plan JSON -> the real code path terraform.ParseStdin +
            TerraformFetcher + snippet.Fetch + EmbedSnippets (implrun tf); every generated item is parsed with the
            real parser and compared field by field with the input, and byte by byte with the rendering of the
            extracted model (render_dict / render_acl / render_backend / render_director; render_rule for header rules
            set / delete without condition; the content-type statement and the long string of a response object;
            scoped / include_of of Model/Snippets.v for the order and completeness of snippets), whose own parse of the
            table must return the items; decodeStringEscapes through lexer + parser (implrun unescape) against the
            model on arbitrary literals (valid, truncated and invalid escapes).
         correspondence ONLY (no theorem): header rules (every action x type, ignore_if_set, conditions) compared as
            parsed trees with the hand-written meaning of the rule; response objects (status, content type and body
            read back from the parsed vcl_error part; the error statement in vcl_recv / vcl_fetch); VCL snippets of
            every type (each exactly once, own name and content, ascending priority, equal priorities in the order
            given, names that collide after sanitising, dynamic snippets with and without content).
oracle : the field-by-field comparison with the input uses no model.
"""
import os
import vcommon as V
from gen import tf_gen as T


def hx(s):
    b = s.encode("utf-8") if isinstance(s, str) else s
    return b.hex() if b else "-"


def unhx(h):
    return b"" if h == "-" else bytes.fromhex(h)


def parse_reply(r):
    """-> list of services: {"name", "items": {name: [(data, proj)]}, "order": [names], "scoped": [(scope, name, data, sproj, priority, extra)],
    "include": {name: (data, sproj, priority)}}"""
    toks = r.split(" ")
    out = []
    i = 0
    cur = None
    while i < len(toks):
        t = toks[i]
        if t == "svc":
            cur = {"name": unhx(toks[i + 1]).decode("utf-8", "replace"), "items": {}, "order": [], "scoped": [], "include": {}, "embed_error": False}
            out.append(cur)
            i += 2
        elif t == "item":
            name = unhx(toks[i + 1]).decode("utf-8", "replace")
            cur["items"].setdefault(name, []).append((unhx(toks[i + 2]), toks[i + 3]))
            cur["order"].append(name)
            i += 4
        elif t == "scoped":   # scope, name, data, statement projection, priority, extra
            cur["scoped"].append((toks[i + 1], unhx(toks[i + 2]).decode("utf-8", "replace"), unhx(toks[i + 3]), toks[i + 4], int(toks[i + 5]), toks[i + 6]))
            i += 7
        elif t == "include":  # name -> data, statement projection, priority
            cur["include"][unhx(toks[i + 1]).decode("utf-8", "replace")] = (unhx(toks[i + 2]), toks[i + 3], int(toks[i + 4]))
            i += 5
        elif t == "err-embed":
            cur["embed_error"] = True
            i += 1
        else:
            i += 1
    return out


def corpus_sets():
    """minimised failing inputs of the unrepaired templates: corpus/C20/*.json (resource sets, see gen/tf_gen.py)"""
    import json
    d = os.path.join(V.VERIF, "corpus", "C20")
    out = []
    if os.path.isdir(d):
        for fn in sorted(os.listdir(d)):
            if fn.endswith(".json"):
                out.append(json.load(open(os.path.join(d, fn), encoding="utf-8")))
    return out


def fragments(ctx, rs, svc, rep, stats, pending, mreq, mchk):
    """header rules, response objects and VCL snippets of one service (no model: the resource is the oracle)"""
    conds = {c["name"]: c["statement"] for c in rs.get("conditions", [])}
    by_scope = {}
    for rec in svc["scoped"]:
        by_scope.setdefault(rec[0], []).append(rec)

    def find(scope, name):
        hits = [r for r in by_scope.get(scope, []) if r[1] == name]
        return hits

    # ---- header rules: every action x type
    for h in rs.get("headers", []):
        if "type" not in h or h["type"] not in T.OBJ:
            continue
        key = "%s/%s" % (h["type"], h["action"])
        stats["header_rules"][key] = stats["header_rules"].get(key, 0) + 1
        hits = find(T.HEADER_SCOPE[h["type"]], "Remote.Header:" + h["name"])
        if len(hits) != 1:
            ctx.violation("header rule %s (%s) is generated %d times in vcl_%s" % (h["name"], key, len(hits), T.HEADER_SCOPE[h["type"]]), rep)
            continue
        _, _, data, sproj, prio, _ = hits[0]
        others = [r for r in svc["scoped"] if r[1] == "Remote.Header:" + h["name"] and r[0] != T.HEADER_SCOPE[h["type"]]]
        if others:
            ctx.violation("header rule %s also appears in vcl_%s" % (h["name"], others[0][0]), rep)
        if h["action"] in ("set", "delete") and not h.get(h["type"] + "_condition"):
            # Model/Rules.v render_rule (C20_header_rule_parses_real): byte for byte
            ty = {"request": 1, "cache": 2, "response": 3}[h["type"]]
            mreq.append("rule %d %s %d %s" % (ty, hx(h["destination"]), 1 if h.get("ignore_if_set") else 0,
                                              "set " + hx(h["source"]) if h["action"] == "set" else "delete"))
            mchk.append(("rule", h["name"], data, rep, None))
        pending.append((T.header_expected_vcl(h, conds), sproj, "header rule %s (%s%s%s)" % (
            h["name"], key, ", ignore_if_set" if h.get("ignore_if_set") else "", ", condition" if h.get(h["type"] + "_condition") else ""), data, rep))
    # ---- response objects: condition part (recv / fetch) and synthetic part (error)
    for k, ro in enumerate(rs.get("response_objects", [])):
        stats["response_objects"] += 1
        code = 900 + k
        scope, cond = "recv", ""
        if ro.get("request_condition"):
            cond = conds.get(ro["request_condition"], "")
        elif ro.get("cache_condition"):
            scope, cond = "fetch", conds.get(ro["cache_condition"], "")
        hits = find(scope, "Remote.ResponseObject.Condition:" + ro["name"])
        if len(hits) != 1:
            ctx.violation("response object %s: its error statement is generated %d times in vcl_%s" % (ro["name"], len(hits), scope), rep)
        else:
            want = 'error %d "Fastly Internal";' % code
            if cond:
                want = "if (%s) { %s }" % (cond, want)
            pending.append((want, hits[0][3], "response object %s (condition part)" % ro["name"], hits[0][2], rep))
        hits = find("error", "Remote.ResponseObject:" + ro["name"])
        if len(hits) != 1:
            ctx.violation("response object %s is generated %d times in vcl_error" % (ro["name"], len(hits)), rep)
            continue
        _, _, data, sproj, _, extra = hits[0]
        body = ro["content"] if ro["content"] != "" else ro["response"]
        mreq.append("ctype %s" % hx(ro["content_type"]))
        mchk.append(("ctype", ro["name"], data, rep, None))
        mreq.append("longstring %s" % hx(body))
        mchk.append(("longstring", ro["name"], data, rep, None))
        want = "ro(%d,%d,%s,%s)" % (code, ro["status"], hx(ro["content_type"]), hx(body))
        if sproj != "perr" and extra != want:
            ctx.violation("response object %s: status / content type / body of the generated vcl_error part differ from the resource" % ro["name"],
                          dict(rep, item=ro["name"], vcl=data.decode("utf-8", "replace")[:2000], parsed=extra[:1500], expected=want[:1500]))
    # ---- VCL snippets: every one exactly once, under its own name, ascending priority, equal priorities in the order given
    sn = rs.get("snippets", [])
    if not sn or any("priority" not in x for x in sn):
        return
    exp = T.expected_snippets(rs)
    for x in sn:
        stats["snippets"][x["type"]] = stats["snippets"].get(x["type"], 0) + 1
        if x.get("dynamic"):
            stats["dynamic_snippets" if x in exp else "dynamic_snippets_left_out"] += 1
    sanitised = [T.sanitize(x["name"]) for x in exp]
    stats["snippet_names_colliding_sanitised"] += len(sanitised) - len(set(sanitised))
    # Model/Snippets.v (C20_snippets_sorted_stable / _complete / _none_by_name) on the snippets falco fetches, in that order
    fetched = [x for x in sn if not x.get("dynamic")] + [x for x in sn if x in exp and x.get("dynamic")]
    enc = ",".join("%s/%s/%d/%s" % (hx(x["name"]), hx(x["type"]), x["priority"], hx(x["content"])) for x in fetched) or "."
    for ty in T.SNIPPET_TYPES:
        if ty == "none":
            got = [(n, d) for n, (d, _, _) in svc["include"].items()]
            got = [(x["name"], svc["include"].get(x["name"], (None,))[0]) for x in fetched if x["type"] == "none"]
            gots = ",".join("%s:%s" % (hx(n), hx(d)) if d is not None else "missing" for n, d in got) or "."
        elif ty == "init":
            gots = ",".join("%s:%s" % (hx(n), hx(d)) for n in dict.fromkeys(svc["order"]) if not n.startswith("Remote.")
                            for d, _ in svc["items"][n]) or "."
        else:
            gots = ",".join("%s:%s" % (hx(r[1]), hx(r[2])) for r in by_scope.get(ty, []) if not r[1].startswith("Remote.")) or "."
        mreq.append("snips %s %s" % (hx(ty), enc))
        mchk.append(("snips", ty, gots.encode(), rep, None))
    for ty in T.SNIPPET_TYPES:
        want = [(x["name"], x["content"].encode("utf-8"), x["priority"]) for x in exp if x["type"] == ty]
        if len(set(w[2] for w in want)) < len(want):
            stats["snippets_same_priority"] += 1
        if ty == "none":
            got = sorted((n, d, p) for n, (d, _, p) in svc["include"].items())
            if got != sorted(want):
                ctx.violation("snippets of type none: the snippets that can be included differ from the resource (names / content)",
                              dict(rep, got=[(n, d.decode("utf-8", "replace")) for n, d, _ in got][:20], expected=[(n, d.decode("utf-8", "replace")) for n, d, _ in want][:20]))
            continue
        if ty == "init":
            names = set(w[0] for w in want)
            got = [(n, svc["items"][n]) for n in dict.fromkeys(svc["order"]) if not n.startswith("Remote.")]
            got = [(n, d, None) for n, vals in got for d, _ in vals]
            if [(n, d) for n, d, _ in got] != [(n, d) for n, d, _ in want]:
                ctx.violation("snippets of type init: names / content / order (ascending priority, equal priorities as given) differ from the resource",
                              dict(rep, got=[(n, d.decode("utf-8", "replace")) for n, d, _ in got][:20], expected=[(n, d.decode("utf-8", "replace"), p) for n, d, p in want][:20]))
            continue
        got = [(r[1], r[2], r[4]) for r in by_scope.get(ty, []) if not r[1].startswith("Remote.")]
        if got != want:
            ctx.violation("snippets of type %s: names / content / order (ascending priority, equal priorities as given) differ from the resource" % ty,
                          dict(rep, got=[(n, d.decode("utf-8", "replace"), p) for n, d, p in got][:20],
                               expected=[(n, d.decode("utf-8", "replace"), p) for n, d, p in want][:20]))


def run(ctx):
    rng = ctx.rng
    thorough = ctx.thorough()
    proved = ctx.prove()
    with V.Lock("build"):
        model = V.driver("escape")
    impl = [os.path.join(V.BUILD, "implrun"), "tf"]
    implu = [os.path.join(V.BUILD, "implrun"), "unescape"]
    ctx.trusted += [
        "Coq 8.16.1 kernel; axioms: none (Print Assumptions of every theorem of Props/C20.v: Closed under the global context)",
        "extraction: ExtrOcamlBasic only; OCaml 4.13.1; ocaml/common.ml + ocaml/escape_main.ml",
        "harness/cmd/implrun/tf.go (ParseStdin + TerraformFetcher + snippet.Fetch + EmbedSnippets, projection of the parsed items); "
        "gen/tf_gen.py (Terraform plan JSON writer)",
        "modelled not verified: Model/Escape.v transcribes the template helper functions and the four item templates (tied byte by byte "
        "to the real templates on every run); the *_parses_real / *_roundtrip theorems are about Model/Lex.v + Pump.v + Parse*.v, whose "
        "tie to the Go lexer and parser is the correspondence of C01 / C02 (here the Go parser itself is run on every generated item)",
        "header rules, response objects and VCL snippets: correspondence only (no theorem); the fragments users write (conditions, "
        "sources, snippet bodies) are generated well-formed; header regex / substitution without double quote and percent",
    ]

    # ------------------------------------------------------------ resource sets
    n_sets = 60000 if thorough else 6000
    plans = []       # (list of resource sets, label)
    for rs in corpus_sets():
        plans.append(([rs], "corpus"))
    for i in range(n_sets):
        k = 1 if rng.random() < 0.85 else 2
        sets = [T.resource_set(rng) for _ in range(k)]
        if k == 2 and sets[0]["name"] == sets[1]["name"]:
            sets[1]["name"] += "2"
        if k == 2 and sets[0]["id"] == sets[1]["id"]:
            sets[1]["id"] += "x"
        plans.append((sets, "random"))
    reqs = [T.plan_json(sets, nested=(i % 7 == 3)).hex() for i, (sets, _) in enumerate(plans)]
    irep = V.run_batch(impl, reqs, hang_s=30)

    mreq = []
    mchk = []
    pending = []     # (expected VCL, projection of the generated header rule / response-object condition, what, report)
    stats = {"dict_items": 0, "acl_entries": 0, "backends": 0, "directors": 0, "scoped": 0, "items": 0,
             "header_rules": {}, "response_objects": 0, "snippets": {}, "snippets_same_priority": 0, "snippet_names_colliding_sanitised": 0,
             "dynamic_snippets": 0, "dynamic_snippets_left_out": 0}
    focus_hits = {}
    evaluations = 0
    distinct = set()
    for (sets, label), q, r in zip(plans, reqs, irep):
        evaluations += 1
        rep = {"plan_json": bytes.fromhex(q).decode("utf-8")[:6000], "label": label}
        if r is None or r.startswith(("crash", "died", "hang", "skipped", "err", "badreq")):
            ctx.violation("generating VCL from a Terraform plan fails: %s" % (r or "no reply")[:120], dict(rep, reply=r))
            continue
        svcs = {s["name"]: s for s in parse_reply(r)}
        for rs in sets:
            svc = svcs.get(rs["name"])
            if svc is None or svc["embed_error"]:
                ctx.violation("service %r missing from the generated output or EmbedSnippets failed" % rs["name"], rep)
                continue
            distinct.add(repr(sorted((k, repr(v)) for k, v in rs.items())))
            for name, vals in svc["items"].items():
                for data, proj in vals:
                    stats["items"] += 1
                    if proj == "perr":
                        ctx.violation("generated item %s does not parse" % name, dict(rep, item=name, vcl=data.decode("utf-8", "replace")[:2000]))
            for scope, name, data, sproj, _prio, _extra in svc["scoped"]:
                stats["scoped"] += 1
                if sproj == "perr":
                    ctx.violation("generated %s snippet %s does not parse" % (scope, name), dict(rep, item=name, vcl=data.decode("utf-8", "replace")[:2000]))
            for name, (data, sproj, _prio) in svc["include"].items():
                if sproj == "perr" and not data.lstrip().startswith(b"sub "):
                    ctx.violation("snippet %s of type none does not parse as statements" % name, dict(rep, item=name, vcl=data.decode("utf-8", "replace")[:2000]))
            fragments(ctx, rs, svc, rep, stats, pending, mreq, mchk)

            def item(kind, n):
                v = svc["items"].get("Remote.%s:%s" % (kind, n))
                return v[0] if v else None

            # ---- dictionaries
            for d in rs["dicts"]:
                it = item("EdgeDictionary", d["name"])
                if it is None:
                    ctx.violation("dictionary %s is not generated" % d["name"], rep)
                    continue
                data, proj = it
                items = sorted(d["items"].items(), key=lambda kv: kv[0].encode("utf-8"))
                stats["dict_items"] += len(items)
                for k, v in items:
                    for ch in '"%{}\n\r':
                        if ch in k or ch in v:
                            focus_hits[repr(ch)] = focus_hits.get(repr(ch), 0) + 1
                want = "(table,%s,STRING,%s)" % (hx(d["name"]), "".join("(%s,str,%s)" % (hx(k), hx(v)) for k, v in items))
                if proj != want and proj != "perr":
                    ctx.violation("dictionary %s: parsed items differ from the resource (keys / values / count)" % d["name"],
                                  dict(rep, item=d["name"], vcl=data.decode("utf-8", "replace")[:3000], parsed=proj[:3000], expected=want[:3000]))
                mreq.append("dict %s %s" % (hx(d["name"]), ",".join("%s:%s" % (hx(k), hx(v)) for k, v in items) or "."))
                mchk.append(("dict", d["name"], data, rep, ",".join("%s:%s" % (hx(k), hx(v)) for k, v in items) or "."))
            # ---- ACLs
            for a in rs["acls"]:
                it = item("Acl", a["name"])
                if it is None:
                    ctx.violation("ACL %s is not generated" % a["name"], rep)
                    continue
                data, proj = it
                stats["acl_entries"] += len(a["entries"])
                ents = []
                ments = []
                for e in a["entries"]:
                    mask = e["subnet"] if e["subnet"] != "" else "_"
                    ents.append("(%s,%s,%s)" % ("1" if e["negated"] else "0", hx(e["ip"]), mask))
                    ments.append("%s/%s/%s/%s" % ("1" if e["negated"] else "0", hx(e["ip"]), mask, hx(e["comment"])))
                want = "(acl,%s,%s)" % (hx(a["name"]), "".join(ents))
                if proj != want and proj != "perr":
                    ctx.violation("ACL %s: parsed entries differ from the resource (address / mask / negation / count)" % a["name"],
                                  dict(rep, item=a["name"], vcl=data.decode("utf-8", "replace")[:3000], parsed=proj[:3000], expected=want[:3000]))
                mreq.append("acl %s %s" % (hx(a["name"]), ",".join(ments) or "."))
                mchk.append(("acl", a["name"], data, rep, None))
            # ---- backends
            declared = set()
            for b in rs["backends"]:
                it = item("Backend", b["name"])
                if it is None:
                    ctx.violation("backend %r is not generated" % b["name"], rep)
                    continue
                data, proj = it
                stats["backends"] += 1
                fname = "F_" + T.sanitize(b["name"])
                declared.add(fname)
                props = "" if b["address"] is None else "(%s,str,%s)" % (hx("host"), hx(b["address"]))
                want = "(backend,%s,%s)" % (hx(fname), props)
                if proj != want and proj != "perr":
                    ctx.violation("backend %r: parsed declaration differs from the resource (name / address)" % b["name"],
                                  dict(rep, item=b["name"], vcl=data.decode("utf-8", "replace")[:2000], parsed=proj[:2000], expected=want[:2000]))
                mreq.append("backend %s %s" % (hx(b["name"]), "_" if b["address"] is None else hx(b["address"])))
                mchk.append(("backend", b["name"], data, rep, None))
            # ---- directors
            for d in rs["directors"]:
                it = item("Director", d["name"])
                if it is None:
                    ctx.violation("director %r is not generated" % d["name"], rep)
                    continue
                data, proj = it
                stats["directors"] += 1
                if proj != "perr":
                    head = "(director,%s,%s," % (hx(T.sanitize(d["name"])), hx({1: "random", 2: "hash", 3: "client"}[d["type"]]))
                    members = [m for m in proj.split("(b,")[1:]]
                    got = [unhx(m.split(")")[0]).decode() for m in members]
                    want_members = ["F_" + T.sanitize(x) for x in d["backends"]]
                    if not proj.startswith(head) or got != want_members:
                        ctx.violation("director %r: parsed name / type / membership differ from the resource" % d["name"],
                                      dict(rep, item=d["name"], vcl=data.decode("utf-8", "replace")[:2000], parsed=proj[:2000], members=got, expected=want_members))
                    elif any(m not in declared for m in got):
                        ctx.violation("director %r refers to a backend that is not declared under that name" % d["name"],
                                      dict(rep, item=d["name"], vcl=data.decode("utf-8", "replace")[:2000], members=got, declared=sorted(declared)))
                mreq.append("director %s %d %d %d %s" % (hx(d["name"]), d["type"], d["retries"], d["quorum"], ",".join(hx(x) for x in d["backends"]) or "."))
                mchk.append(("director", d["name"], data, rep, None))

    # ------------------------------------------------------------ header rules / response-object conditions: the hand-written meaning, as a tree
    texts = sorted(set(p[0] for p in pending))
    prep = V.run_batch([os.path.join(V.BUILD, "implrun"), "vclproj"], [hx(t) for t in texts], hang_s=30)
    proj_of = dict(zip(texts, prep))
    frag_agree = 0
    for want_vcl, got, what, data, rep in pending:
        evaluations += 1
        w = proj_of.get(want_vcl)
        if w is None or not w.startswith("ok:"):
            ctx.violation("harness: the expected VCL of %s does not parse (%s)" % (what, w), dict(rep, expected_vcl=want_vcl))
        elif got != w and got != "perr":
            ctx.violation("%s: the generated statements differ from what the rule means" % what,
                          dict(rep, item=what, vcl=data.decode("utf-8", "replace")[:2000], expected_vcl=want_vcl))
        else:
            frag_agree += 1

    # ------------------------------------------------------------ the model's rendering of the same resources
    mrep = V.run_batch([model], mreq, hang_s=60)
    render_agree = 0
    for (kind, name, data, rep, items), q, r in zip(mchk, mreq, mrep):
        evaluations += 1
        if r is None or r.startswith(("badreq", "died", "hang", "skipped")):
            ctx.violation("model driver failed on %s %s: %s" % (kind, name, r), dict(rep, model_request=q[:500]))
            continue
        parts = r.split(" ")
        if kind == "snips":
            if r.encode() != data:
                ctx.violation("snippets of type %s: the generated output differs from scoped / include_of of Model/Snippets.v" % name,
                              dict(rep, item=name, got=data.decode()[:1500], model=r[:1500]))
            else:
                render_agree += 1
            continue
        if kind in ("ctype", "longstring"):
            frag = unhx(parts[0]) if r != "none" else None
            need = None if frag is None else (b"\t" + frag + b"\n" if kind == "ctype" else b"\tsynthetic " + frag + b";\n")
            if need is None or need not in data:
                ctx.violation("response object %r: the %s of the generated vcl_error part differs from Model/Rules.v" % (
                              name, "content-type statement" if kind == "ctype" else "long string of the body"),
                              dict(rep, item=name, vcl=data.decode("utf-8", "replace")[:2000], model=(need or b"none").decode("utf-8", "replace")[:2000]))
            else:
                render_agree += 1
            continue
        if unhx(parts[0]) != data:
            ctx.violation("%s %r: the generated VCL differs from the rendering of Model/Escape.v" % (kind, name),
                          dict(rep, item=name, vcl=data.decode("utf-8", "replace")[:3000], model=unhx(parts[0]).decode("utf-8", "replace")[:3000]))
            continue
        render_agree += 1
        if kind == "dict":
            got = " ".join(parts[1:])
            if got != "ok " + items:
                ctx.violation("dictionary %r: parse_table of Model/Escape.v does not return the items (%s)" % (name, got[:200]),
                              dict(rep, item=name, vcl=data.decode("utf-8", "replace")[:3000]))

    # ------------------------------------------------------------ decodeStringEscapes vs the model
    lits = []
    pieces = ["%", "%2", "%20", "%41", "%zz", "%u", "%u0041", "%u00", "%u{41}", "%u{1F600}", "%u{}", "%u{110000}", "%u{D800}", "%ud800", "%00", "%u0000",
              "%u{0}", "%e3%81%82", "%e3%81", "%e3", "%c3%a9", "%c3%28", "%80", "%f0%9f%98%80", "%f8", "%EF%BF%BD", "a", "b", " ", "é", "日", "😀", "{", "}",
              "%25", "%22", "%0A", "%0a", "%0D", "u", "0", "F", "%%", "\n", "\t", "%u{00041}", "%u{1234567}", "%U0041", "%u{0000041}", "%u{000041}", "%u00041", "%u041", "\xff"]
    def esc_piece():
        k = rng.random()
        hexd = lambda n: "".join(rng.choice("0123456789abcdefABCDEF0000") for _ in range(n))
        if k < 0.15:
            return "%u{" + hexd(rng.randint(0, 8)) + rng.choice(["}", "}", "}", "", "x"])
        if k < 0.3:      # a valid code point padded to 1..8 digits
            v = rng.choice([0x41, 0xe9, 0x3042, 0x1F600, 0x10FFFF, 0xD7FF, 0xE000, 0x7f, 1])
            return "%%u{%0*x}" % (rng.randint(1, 8), v)
        if k < 0.55:
            return "%u" + hexd(rng.randint(0, 6))
        if k < 0.8:
            return "%" + hexd(rng.randint(0, 3))
        return "".join("%" + rng.choice(["c3", "e3", "f0", "a9", "81", "9f", "80", "28", "41"]) for _ in range(rng.randint(1, 5)))
    for i in range(200000 if thorough else 14000):
        s = "".join((esc_piece() if rng.random() < 0.35 else rng.choice(pieces)) for _ in range(rng.randint(0, 6)))
        lits.append(s.encode("utf-8") if "\xff" not in s else s.replace("\xff", "").encode("utf-8") + b"\xff\xfe")
    for i in range(60000 if thorough else 5000):   # quoted arbitrary text: must decode to the text
        lits.append(("Q", T.text(rng, 12, 0.6)))
    ureq = []
    for l in lits:
        if isinstance(l, tuple):
            ureq.append(None)
        else:
            ureq.append(l.hex() or "-")
    mq = V.run_batch([model], [("quote " + hx(l[1])) if isinstance(l, tuple) else "quote -" for l in lits], hang_s=60)
    final = []
    for l, q in zip(lits, mq):
        final.append(unhx(q) if isinstance(l, tuple) else l)
    iu = V.run_batch(implu, [f.hex() or "-" for f in final], hang_s=10)
    mu = V.run_batch([model], ["unescape " + (f.hex() or "-") for f in final], hang_s=60)
    un_agree = 0
    outcomes = {"ok": 0, "err": 0}
    for l, f, a, b in zip(lits, final, iu, mu):
        evaluations += 1
        distinct.add(f)
        a2 = "err" if a == "perr" else a
        outcomes["ok" if (a or "").startswith("ok") else "err"] += 1
        if a2 != b:
            ctx.violation("decodeStringEscapes and Model/Escape.v disagree on a string literal: implementation %s, model %s" % (a, b),
                          {"literal_hex": f.hex(), "literal": f.decode("utf-8", "replace"), "impl": a, "model": b})
        else:
            un_agree += 1
        if isinstance(l, tuple) and a != "ok " + hx(l[1]):
            ctx.violation("a quoted text does not decode to the text: %r" % l[1], {"text": l[1], "quoted": f.decode("utf-8", "replace"), "impl": a})

    if not proved and not ctx.violations:
        ctx.violation("proof obligation of C20 no longer checks: " + (ctx.broken or "Props/C20.v"),
                      {"no_failing_input": True, "broken": ctx.broken,
                       "searched": "%d plans, %d rendered items, %d literals: every item parses and matches its resource" % (len(plans), len(mreq), len(lits))})
    ctx.samples = [{"plan": bytes.fromhex(reqs[i]).decode("utf-8")[:400]} for i in (0, 3, len(reqs) // 2)]
    ctx.samples += [{"literal": f.decode("utf-8", "replace")[:80], "decoded": a} for f, a in list(zip(final, iu))[-3:]]
    ctx.coverage.update({
        "evaluations": evaluations,
        "distinct_nontrivial": len(distinct),
        "plans": len(plans), "rendered_items_compared_with_model": len(mreq), "render_agree": render_agree,
        "resources": stats, "values_containing": focus_hits, "fragments_compared_as_trees": len(pending), "fragments_agree": frag_agree,
        "string_literals": len(lits), "unescape_agree": un_agree, "unescape_outcomes": outcomes,
        "value_alphabet": "printable text + LF CR TAB, focus on \" % { } LF CR, %XX / %uXXXX / %u{...} shaped text, non-ASCII; IPv4/IPv6, negated entries, "
                          "names with - . blank for backends and directors; zero to twelve items; header rules of every action x type; "
                          "response objects with hostile content / content type; snippets of every type, equal priorities, colliding names",
    })
    return ctx.finish(
        level="proof",
        rule="theorems of coq/Props/C20.v (all texts, any number of items; dictionaries, ACLs, backends and directors end to end over the "
             "lexer / parser models); correspondence: corpus + seeded resource sets through the real "
             "Terraform code path, every item parsed with the real parser and compared with the resource and with the model's rendering; "
             "header rules / response objects / snippets compared with the resource (trees, fields, order); "
             "string literals through lexer+parser vs decode_string_escapes (distinct = distinct resource set / literal)")
