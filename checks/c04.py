"""C04 - the lint command's verdict is consistent.

proof  : coq/Props/C04.v over Model/Verdict.v (exit_iff, counts_spec, flags_irrelevant, json_doc_spec,
         terminal_spec)
tie    : C  `implrun lintapi` yields the lint_input of each program through the Go API (parse error in
            main / in an included module, l.Errors with rule and intrinsic severity); the extracted
            model (build/modelrun_verdict: run_lint) is compared with the real PROCESS
            `build/falco lint [-json] [-v|-vv] [-I dir] main.vcl` run in a directory holding a generated
            .falco.yml: exit status, summary counts, number of diagnostics printed per severity, and the
            -json document (counts, listed diagnostics, parse errors) over the full matrix
            {plain, -json} x {-, -v, -vv} x override sets drawn from the rules that fired.
oracle : on the implementation alone: (a) for one program and one override set the six flag
         combinations give the same exit status and the same counts; (b) exit status != 0 iff the API
         reports a syntax error or a diagnostic whose overridden severity is ERROR.
"""
import concurrent.futures
import json
import os
import re
import shutil
import subprocess
import vcommon as V
from gen import verdictgen as G

FALCO = os.path.join(V.BUILD, "falco")
WORK = os.path.join(V.BUILD, "c04")
FLAGS = [(j, v) for j in (0, 1) for v in (0, 1, 2)]
SEV = {"Error": "E", "Warning": "W", "Info": "I", "Ignore": "G"}
LEVEL_WORDS = {"E": ["ERROR", "error", "Error"], "W": ["WARNING", "warning", "Warning"],
               "I": ["INFO", "info"], "G": ["IGNORE", "ignore", "Ignore"]}


def hx(s):
    return '"' + s.encode().hex() + '"'


def parse_level(word):
    return {"ERROR": "E", "WARNING": "W", "INFO": "I", "IGNORE": "G"}.get(word.upper())


def write_case(idx, main, mods):
    d = os.path.join(WORK, "p%d" % idx)
    os.makedirs(os.path.join(d, "inc"), exist_ok=True)
    with open(os.path.join(d, "main.vcl"), "w") as f:
        f.write(main)
    for name, text in mods.items():
        with open(os.path.join(d, "inc", name + ".vcl"), "w") as f:
            f.write(text)
    return d


def write_overrides(d, j, ov):
    od = os.path.join(d, "o%d" % j)
    os.makedirs(od, exist_ok=True)
    with open(os.path.join(od, ".falco.yml"), "w") as f:
        f.write("linter:\n")
        if ov:
            f.write("  rules:\n")
            for k, w in ov:
                f.write("    %s: %s\n" % (json.dumps(k), json.dumps(w)))
        else:
            f.write("  rules: {}\n")
    return od


def run_falco(job):
    cwd, d, jflag, v = job
    args = [FALCO, "lint"]
    if jflag:
        args.append("-json")
    if v == 1:
        args.append("-v")
    elif v == 2:
        args.append("-vv")
    args += ["-I", os.path.join(d, "inc"), os.path.join(d, "main.vcl")]
    env = {k: val for k, val in os.environ.items() if k not in ("CI", "FASTLY_SERVICE_ID", "FASTLY_API_KEY")}
    try:
        p = subprocess.run(args, cwd=cwd, env=env, stdout=subprocess.PIPE, stderr=subprocess.PIPE, timeout=30)
    except subprocess.TimeoutExpired:
        return {"hang": True}
    err = p.stderr.decode("utf-8", "replace")
    out = p.stdout.decode("utf-8", "replace")
    res = {"exit": p.returncode, "panic": ("panic:" in err or "goroutine " in err)}
    m = re.search(r"(\d+) errors, .*?(\d+) warnings, .*?(\d+) recommendations", err)
    res["summary"] = "%s,%s,%s" % m.groups() if m else "none"
    res["shown"] = "%d,%d,%d,0" % (err.count("[ERROR]"), err.count("[WARNING]"), err.count("[INFO]"))
    res["doc"] = "none"
    res["listed"] = "none"
    if out.strip():
        try:
            doc = json.loads(out)
            res["doc"] = "%d,%d,%d,%d" % (doc["Errors"], doc["Warnings"], doc["Infos"], len(doc.get("ParseErrors") or {}))
            h = {"E": 0, "W": 0, "I": 0, "G": 0}
            for lst in (doc.get("LintErrors") or {}).values():
                for e in lst:
                    h[SEV.get(e.get("Severity"), "G")] += 1
            res["listed"] = "%d,%d,%d,%d" % (h["E"], h["W"], h["I"], h["G"])
        except (ValueError, KeyError, TypeError):
            res["doc"] = "unparsable"
    res["stderr_tail"] = err[-400:]
    return res


def override_sets(rng, diags):
    """[] plus two sets drawn from the rules that fired"""
    fired = sorted({r for r, _ in diags if r != "-"})
    err_rules = sorted({r for r, s in diags if r != "-" and s == "E"})
    sets = [[]]
    cands = []
    if fired:
        r = rng.choice(fired)
        lv = rng.choice("EWIG")
        cands.append([(r, rng.choice(LEVEL_WORDS[lv]))])
        cands.append([(r, rng.choice(["warn", "", "errors", "IGNORED"]))])          # invalid level: skipped
        cands.append([(x, rng.choice(LEVEL_WORDS[rng.choice("EWIG")])) for x in fired if rng.random() < 0.6] or
                     [(fired[0], "IGNORE")])
        cands.append([(x, "IGNORE") for x in fired])
        non_err = [x for x in fired if x not in err_rules]
        if non_err:
            cands.append([(rng.choice(non_err), "ERROR")])                              # promotes to an error
    if err_rules:
        cands.append([(x, rng.choice(["WARNING", "INFO", "IGNORE"])) for x in err_rules])  # demotes every named error
    cands.append([("acl/syntax", "ERROR")])                                           # a rule that did not fire
    rng.shuffle(cands)
    return sets + cands[:2]


def run(ctx):
    rng = ctx.rng
    thorough = ctx.thorough()
    proved = ctx.prove()
    with V.Lock("build"):
        model = V.driver("verdict")
    ctx.trusted += [
        "Coq 8.16.1 kernel (coqc); axioms: none expected (Print Assumptions of Props/C04.v)",
        "extraction: ExtrOcamlBasic only; OCaml 4.13.1; ocaml/common.ml + ocaml/verdict_main.ml",
        "harness/cmd/implrun lintapi.go (lintapi: the lint_input of a program obtained the way (*Runner).run obtains it: "
        "ParseVCLOrSnippet, linter.New(conf).Lint with a file resolver, FatalError, l.Errors)",
        "checks/c04.py: parsing of the process output (summary line regex, [ERROR]/[WARNING]/[INFO] markers, JSON document), "
        "generation of .falco.yml",
        "modelled not verified: Model/Verdict.v is a hand transcription of cmd/falco/runner.go (NewRunner overrides / verbosity, Run, run, "
        "printLinterError) and cmd/falco/main.go (runLint, exit status), tied by the differential run against the real process; "
        "config parsing (twist), the resolver and the linter are exercised, not modelled",
    ]
    shutil.rmtree(WORK, ignore_errors=True)
    os.makedirs(WORK, exist_ok=True)

    # ---------------- programs
    cases = [(label, main, mods) for label, main, mods in G.SEEDS]
    corpus_dir = os.path.join(V.VERIF, "corpus", "C04")
    if os.path.isdir(corpus_dir):
        for fn in sorted(os.listdir(corpus_dir)):
            if fn.endswith(".vcl"):
                cases.insert(0, ("corpus/" + fn, open(os.path.join(corpus_dir, fn)).read(), {}))
    n_gen = 2500 if thorough else 40
    for i in range(n_gen):
        cases.append(G.random_case(rng, i))
    dirs = [write_case(i, main, mods) for i, (_, main, mods) in enumerate(cases)]
    api = V.run_batch([os.path.join(V.BUILD, "implrun"), "lintapi"],
                      ["%s %s" % (os.path.join(d, "main.vcl"), os.path.join(d, "inc")) for d in dirs], hang_s=20)
    viol = []
    inputs = []
    classes = {}
    for (label, main, mods), d, rep in zip(cases, dirs, api):
        if rep is None or not rep.startswith("in "):
            viol.append((len(main), "the Go API failed on a generated program (%s): %s" % (label, rep),
                         {"label": label, "main": main, "modules": mods, "reply": rep}, None))
            inputs.append(None)
            continue
        f = rep.split()
        pm, pi = f[1] == "main=1", f[2] == "inc=1"
        diags = []
        for it in f[3:]:
            r, _, s = it.rpartition(":")
            diags.append((r, SEV[s]))
        inputs.append((pm, pi, diags))
        cl = ("syntax-main" if pm else "syntax-included" if pi else
              "errors" if any(s == "E" for _, s in diags) else
              "warnings-only" if any(s == "W" for _, s in diags) and not any(s == "I" for _, s in diags) else
              "infos-only" if any(s == "I" for _, s in diags) and not any(s == "W" for _, s in diags) else
              "warnings+infos" if diags else "clean")
        if main.lstrip().startswith(("#", "//")) and "@scope" in main.split("\n")[0]:
            cl += "/snippet@scope"
        classes[cl] = classes.get(cl, 0) + 1

    # ---------------- independent oracle for "an included file has a syntax error": every module
    # reachable from main through `include "x";` is parsed on its own (not through the linter)
    import re as _re
    allmods = sorted({(n, t) for _, _, mods in cases for n, t in mods.items()})
    prep = V.run_batch([os.path.join(V.BUILD, "implrun"), "parsefile"], [t.encode().hex() for _, t in allmods], hang_s=20)
    mod_ok = {k: (r == "ok") for k, r in zip(allmods, prep)}
    inc_indep_checked = 0
    for (label, main, mods), inp in zip(cases, inputs):
        if inp is None or inp[0]:
            continue
        seen_m, todo, broken = set(), [main], False
        while todo:
            txt = todo.pop()
            for nm in _re.findall(r'^\s*include\s+"([^"]+)"\s*;', txt, _re.M):
                if nm in mods and nm not in seen_m:
                    seen_m.add(nm)
                    if mod_ok.get((nm, mods[nm])) is False:
                        broken = True
                    else:
                        todo.append(mods[nm])
        inc_indep_checked += 1
        if broken != inp[1]:
            viol.append((len(main), "an included module %s a syntax error (each reachable module parsed on its own) but the linter reports "
                         "parse_error_included=%s for %s" % ("has" if broken else "has no", inp[1], label),
                         {"label": label, "main": main, "modules": mods}, None))

    # ---------------- jobs: program x override set x flags
    jobs, meta = [], []
    for i, ((label, main, mods), d, inp) in enumerate(zip(cases, dirs, inputs)):
        if inp is None:
            continue
        pm, pi, diags = inp
        for j, ov in enumerate(override_sets(rng, diags)):
            od = write_overrides(d, j, ov)
            for (jf, v) in FLAGS:
                jobs.append((od, d, jf, v))
                meta.append((i, j, ov, jf, v))
    with concurrent.futures.ThreadPoolExecutor(max_workers=12) as ex:
        results = list(ex.map(run_falco, jobs))

    # ---------------- model
    mreq = []
    for (i, j, ov, jf, v) in meta:
        pm, pi, diags = inputs[i]
        mreq.append("(cfg %d %d (%s)) (in %d %d (%s))" % (
            jf, v, " ".join("(%s %s)" % (hx(k), hx(w)) for k, w in ov),
            1 if pm else 0, 1 if pi else 0, " ".join("(%s %s)" % (hx(r), s) for r, s in diags)))
    mrep = V.run_batch([model], mreq, hang_s=30)

    agree = 0
    groups = {}
    flagstat = {}
    for (i, j, ov, jf, v), res, mr in zip(meta, results, mrep):
        label, main, mods = cases[i]
        pm, pi, diags = inputs[i]
        replay = {"label": label, "main": main, "modules": mods, "overrides": ov, "flags": {"json": jf, "verbosity": v},
                  "lint_input": {"parse_error_main": pm, "parse_error_included": pi, "diags": diags},
                  "process": {k: res.get(k) for k in ("exit", "summary", "doc", "listed", "shown", "stderr_tail")}, "model": mr}
        size = len(main)
        if res.get("hang") or res.get("panic"):
            viol.append((size, "falco lint %s on %s" % ("hangs" if res.get("hang") else "panics", label), replay, None))
            continue
        got = "exit=%d summary=%s doc=%s listed=%s shown=%s" % (res["exit"], res["summary"], res["doc"], res["listed"], res["shown"])
        if mr != got:
            viol.append((size, "the falco process and Model/Verdict.v disagree (%s, json=%d, verbosity=%d, overrides=%s): process %s | model %s"
                         % (label, jf, v, ov, got, mr), replay, None))
        else:
            agree += 1
        groups.setdefault((i, j), []).append((jf, v, res))
        flagstat[(jf, v)] = flagstat.get((jf, v), 0) + 1

    # ---------------- direct oracles on the implementation
    flag_groups_ok = exit_ok = 0
    for (i, j), lst in groups.items():
        label, main, mods = cases[i]
        pm, pi, diags = inputs[i]
        ov = next(m[2] for m in meta if m[0] == i and m[1] == j)
        exits = sorted({r["exit"] for _, _, r in lst})
        sums = sorted({r["summary"] for _, _, r in lst})
        docs = sorted({r["doc"].rsplit(",", 1)[0] for jf, _, r in lst if jf and r["doc"] not in ("none", "unparsable")})
        replay = {"label": label, "main": main, "modules": mods, "overrides": ov,
                  "by_flags": [{"json": jf, "verbosity": v, "exit": r["exit"], "summary": r["summary"], "doc": r["doc"]} for jf, v, r in lst]}
        if len(exits) > 1 or len(sums) > 1 or (docs and sums != ["none"] and docs != sums):
            viol.append((len(main), "exit status / counts of `falco lint` depend on -json / -v / -vv for %s (overrides %s): exits %s, summaries %s, -json document counts %s"
                         % (label, ov, exits, sums, docs), replay, None))
        else:
            flag_groups_ok += 1
        ovm = {}
        for k, w in ov:
            lv = parse_level(w)
            if lv:
                ovm[k] = lv
        want = 1 if (pm or pi or any(ovm.get(r, s) == "E" for r, s in diags)) else 0
        bad = [(jf, v, r["exit"]) for jf, v, r in lst if (1 if r["exit"] != 0 else 0) != want]
        if bad:
            viol.append((len(main), "exit status of `falco lint` is wrong for %s (overrides %s): syntax error main=%s included=%s, "
                         "diagnostics with effective severity ERROR: %d, but (json, verbosity, exit) = %s"
                         % (label, ov, pm, pi, sum(1 for r, s in diags if ovm.get(r, s) == "E"), bad[:6]), replay, None))
        else:
            exit_ok += 1

    viol.sort(key=lambda x: x[0])
    seen = {}
    for size, what, replay, facts in viol:
        cat = what[:45]
        seen[cat] = seen.get(cat, 0) + 1
        if seen[cat] <= 2:
            ctx.violation(what, replay, facts)
    if not proved and not ctx.violations:
        ctx.violation("proof obligation of C04 no longer checks: " + (ctx.broken or "Props/C04.v"),
                      {"no_failing_input": True, "broken": ctx.broken,
                       "searched": "%d process runs: the process, the model and both oracles agree on all of them" % len(jobs)})
    ctx.samples = [{"label": cases[m[0]][0], "main": cases[m[0]][1][:300], "overrides": m[2], "json": m[3], "verbosity": m[4],
                    "process": {k: r.get(k) for k in ("exit", "summary", "doc", "shown")}}
                   for m, r in list(zip(meta, results))[:: max(1, len(meta) // 4)][:4]]
    ctx.coverage.update({
        "evaluations": len(jobs), "distinct_nontrivial": len({(m[0], m[1]) for m in meta}),
        "programs": len(cases), "program_classes": dict(sorted(classes.items())),
        "process_runs": len(jobs), "process_model_agree": agree,
        "flag_matrix_per_program_and_override_set": ["json=%d verbosity=%d: %d runs" % (k[0], k[1], n) for k, n in sorted(flagstat.items())],
        "included_syntax_error_oracle_checked": inc_indep_checked,
        "override_sets": len(groups), "flag_independence_groups_ok": flag_groups_ok, "exit_oracle_groups_ok": exit_ok,
        "exit_nonzero_runs": sum(1 for r in results if r.get("exit")), "exit_zero_runs": sum(1 for r in results if r.get("exit") == 0),
        "violations_by_category": seen,
    })
    shutil.rmtree(WORK, ignore_errors=True)
    return ctx.finish(
        level="proof",
        rule="theorems of coq/Props/C04.v over Model/Verdict.v (every configuration, every lint_input); correspondence: hand-written seeds of "
             "every program class + seeded generated programs (subroutine programs with includes, mostly-clean programs, snippets with and "
             "without @scope, damaged programs) x 3 override sets x the complete flag matrix, each cell a real process run "
             "(distinct = distinct (program, override set))")
