"""C04 - the lint command's verdict is consistent.

proof  : coq/Props/C04.v over Model/Verdict.v (exit_iff, counts_spec, flags_irrelevant, json_doc_spec,
         terminal_spec)
tie    : C  `implrun lintapi` yields the lint_input of each program through the Go API (parse error in
            main / in an included module, l.Errors with rule and intrinsic severity); the extracted
            model (build/modelrun_verdict: run_lint) is compared with the real PROCESS
            `build/falco lint [-json] [-v|-vv] [-I dir] main.vcl` run in a directory holding a generated
            .falco.yml: exit status, summary counts, number of diagnostics printed per severity, and the
            -json document (counts, listed diagnostics, parse errors) over the full matrix
            {plain, -json} x {-, -v, -vv} x override sets drawn from the rules that fired.
oracle : on the implementation alone: (a) for one program and one override set the six flag
         combinations give the same exit status and the same counts; (b) exit status != 0 iff the API
         reports a syntax error or a diagnostic whose overridden severity is ERROR.
"""
import concurrent.futures
import json
import os
import re
import shutil
import subprocess
import vcommon as V
from gen import verdictgen as G
from gen import verdictplant as P

FALCO = os.path.join(V.BUILD, "falco")
WORK = os.path.join(V.BUILD, "c04")
FLAGS = [(j, v) for j in (0, 1) for v in (0, 1, 2)]
SEV = {"Error": "E", "Warning": "W", "Info": "I", "Ignore": "G"}
LEVEL_WORDS = {"E": ["ERROR", "error", "Error"], "W": ["WARNING", "warning", "Warning"],
               "I": ["INFO", "info"], "G": ["IGNORE", "ignore", "Ignore"]}


def hx(s):
    return '"' + s.encode().hex() + '"'


def parse_level(word):
    return {"ERROR": "E", "WARNING": "W", "INFO": "I", "IGNORE": "G"}.get(word.upper())


def write_case(idx, case):
    d = os.path.join(WORK, "p%d" % idx)
    os.makedirs(d, exist_ok=True)
    with open(os.path.join(d, "main.vcl"), "w") as f:
        f.write(case.main)
    for name, text in case.local.items():
        with open(os.path.join(d, name + ".vcl"), "w") as f:
            f.write(text)
    incs = []
    for k, mods in enumerate(case.dirs):
        inc = os.path.join(d, "inc%d" % k)
        os.makedirs(inc, exist_ok=True)
        incs.append(inc)
        for name, text in mods.items():
            with open(os.path.join(inc, name + ".vcl"), "w") as f:
                f.write(text)
    return d, incs


def write_overrides(d, j, ov, yv="N"):
    od = os.path.join(d, "o%d%s" % (j, yv))
    os.makedirs(od, exist_ok=True)
    with open(os.path.join(od, ".falco.yml"), "w") as f:
        f.write("linter:\n")
        if yv != "N":
            f.write("  verbose: %s\n" % YAML_VERBOSE[yv])
        if ov:
            f.write("  rules:\n")
            for k, w in ov:
                f.write("    %s: %s\n" % (json.dumps(k), json.dumps(w)))
        else:
            f.write("  rules: {}\n")
    return od


FLAG_ARGS = {"J": "-json", "V": "-v", "VV": "-vv"}
YAML_VERBOSE = {"W": "warning", "I": "info", "O": "debug"}


def run_falco(job):
    cwd, d, incs, flags, cmd = job
    args = [FALCO, cmd] + [FLAG_ARGS[f] for f in flags]
    jflag = "J" in flags
    for inc in incs:
        args += ["-I", inc]
    args.append(os.path.join(d, "main.vcl"))
    env = {k: val for k, val in os.environ.items() if k not in ("CI", "FASTLY_SERVICE_ID", "FASTLY_API_KEY")}
    try:
        p = subprocess.run(args, cwd=cwd, env=env, stdout=subprocess.PIPE, stderr=subprocess.PIPE, timeout=60)
    except subprocess.TimeoutExpired:
        return {"hang": True}
    err = p.stderr.decode("utf-8", "replace")
    out = p.stdout.decode("utf-8", "replace")
    res = {"exit": p.returncode, "panic": ("panic:" in err or "goroutine " in err)}
    m = re.search(r"(\d+) errors, .*?(\d+) warnings, .*?(\d+) recommendations", err)
    res["summary"] = "%s,%s,%s" % m.groups() if m else "none"
    res["shown"] = "%d,%d,%d,0" % (err.count("[ERROR]"), err.count("[WARNING]"), err.count("[INFO]"))
    res["doc"] = "none"
    res["listed"] = "none"
    res["files"] = "none"
    if out.strip():
        try:
            doc = json.loads(out)
            res["doc"] = "%d,%d,%d,%d" % (doc["Errors"], doc["Warnings"], doc["Infos"], len(doc.get("ParseErrors") or {}))
            h = {"E": 0, "W": 0, "I": 0, "G": 0}
            for lst in (doc.get("LintErrors") or {}).values():
                for e in lst:
                    h[SEV.get(e.get("Severity"), "G")] += 1
            res["listed"] = "%d,%d,%d,%d" % (h["E"], h["W"], h["I"], h["G"])
            items = []
            for fn, lst in (doc.get("LintErrors") or {}).items():
                hh = {"E": 0, "W": 0, "I": 0, "G": 0}
                for e in lst:
                    hh[SEV.get(e.get("Severity"), "G")] += 1
                items.append("%s:%d,%d,%d,%d" % (os.path.basename(fn).encode().hex(), hh["E"], hh["W"], hh["I"], hh["G"]))
            res["files"] = ";".join(sorted(items)) if items else "-"
            if doc.get("ParseErrors"):
                res["files"] = "none"
        except (ValueError, KeyError, TypeError):
            res["doc"] = "unparsable"
    res["stderr_tail"] = err[-400:]
    return res


def override_sets(rng, diags):
    """[] plus two sets drawn from the rules that fired"""
    fired = sorted({r for r, _ in diags if r != "-"})
    err_rules = sorted({r for r, s in diags if r != "-" and s == "E"})
    sets = [[]]
    cands = []
    if fired:
        r = rng.choice(fired)
        lv = rng.choice("EWIG")
        cands.append([(r, rng.choice(LEVEL_WORDS[lv]))])
        cands.append([(r, rng.choice(["warn", "", "errors", "IGNORED"]))])          # invalid level: skipped
        cands.append([(x, rng.choice(LEVEL_WORDS[rng.choice("EWIG")])) for x in fired if rng.random() < 0.6] or
                     [(fired[0], "IGNORE")])
        cands.append([(x, "IGNORE") for x in fired])
        non_err = [x for x in fired if x not in err_rules]
        if non_err:
            cands.append([(rng.choice(non_err), "ERROR")])                              # promotes to an error
    if err_rules:
        cands.append([(x, rng.choice(["WARNING", "INFO", "IGNORE"])) for x in err_rules])  # demotes every named error
    cands.append([("acl/syntax", "ERROR")])                                           # a rule that did not fire
    rng.shuffle(cands)
    return sets + cands[:2]


def legacy_case(label, main, mods):
    c = P.Case(label)
    c.main, c.dirs, c.planted = main, [dict(mods)], False
    return c


def spec_verdict(pm, pi, diags, ov):
    """the property, stated directly: (exit, summary) from the syntax-error flags, the diagnostics
    (rule, intrinsic severity) that survive the ignore comments, and the override table of .falco.yml"""
    if pm or pi:
        return 1, "none"
    ovm = {}
    for k, w in ov:
        lv = parse_level(w)
        if lv:
            ovm[k] = lv
    eff = [ovm.get(r, s) for r, s in diags]
    e, w, i = eff.count("E"), eff.count("W"), eff.count("I")
    return (1 if e else 0), "%d,%d,%d" % (e, w, i)


def run(ctx):
    rng = ctx.rng
    thorough = ctx.thorough()
    proved = ctx.prove()
    with V.Lock("build"):
        model = V.driver("verdict")
    ctx.trusted += [
        "Coq 8.16.1 kernel (coqc); axioms: none expected (Print Assumptions of Props/C04.v)",
        "extraction: ExtrOcamlBasic only; OCaml 4.13.1; ocaml/common.ml + ocaml/verdict_main.ml",
        "harness/cmd/implrun lintapi.go (lintapi: the lint_input of a program obtained the way (*Runner).run obtains it: "
        "ParseVCLOrSnippet, linter.New(conf).Lint with a file resolver, FatalError, l.Errors); c04_parse.go (parsefile)",
        "checks/c04.py: parsing of the process output (summary line regex, [ERROR]/[WARNING]/[INFO] markers, JSON document), "
        "generation of .falco.yml",
        "gen/verdictplant.py: the table statement -> (rule, intrinsic severity) of the planted programs (a fixed fact of the "
        "generator; l.Errors is audited against it), the planted ignore comments (semantics of property C12), the include graphs",
        "modelled not verified: Model/Verdict.v is a hand transcription of cmd/falco/runner.go (NewRunner overrides / verbosity, Run, run, "
        "printLinterError) and cmd/falco/main.go (runLint, exit status), tied by the differential run against the real process; "
        "config parsing (twist), the resolver and the linter are exercised, not modelled",
    ]
    shutil.rmtree(WORK, ignore_errors=True)
    os.makedirs(WORK, exist_ok=True)

    # ---------------- programs
    cases = [legacy_case(label, main, mods) for label, main, mods in G.SEEDS]
    corpus_dir = os.path.join(V.VERIF, "corpus", "C04")
    if os.path.isdir(corpus_dir):
        for fn in sorted(os.listdir(corpus_dir)):
            if fn.endswith(".vcl"):
                cases.insert(0, legacy_case("corpus/" + fn, open(os.path.join(corpus_dir, fn)).read(), {}))
    n_gen = 1200 if thorough else 22
    n_plant = 1800 if thorough else 26
    for i in range(n_gen):
        cases.append(legacy_case(*G.random_case(rng, i)))
    cases += P.planted_seeds()
    cases += P.scale_cases(rng, thorough)
    cases += P.shape_cases()
    for i in range(n_plant):
        cases.append(P.planted_case(rng, i))
    placed = [write_case(i, c) for i, c in enumerate(cases)]
    api = V.run_batch([os.path.join(V.BUILD, "implrun"), "lintapi"],
                      [" ".join([os.path.join(d, "main.vcl")] + incs) for d, incs in placed], hang_s=20)
    viol = []
    inputs = []
    raws = []
    classes = {}
    for c, rep in zip(cases, api):
        if rep is None or not rep.startswith("in "):
            viol.append((len(c.main), "the Go API failed on a generated program (%s): %s" % (c.label, rep),
                         {"label": c.label, "main": c.main, "modules": c.mods, "reply": rep}, None))
            inputs.append(None)
            raws.append(None)
            continue
        f = rep.split()
        pm, pi = f[1] == "main=1", f[2] == "inc=1"
        diags, raw = [], []
        for it in f[3:]:
            r, sv, fn = it.rsplit(":", 2)
            diags.append((r, SEV[sv]))
            raw.append((r, sv, fn))
        inputs.append((pm, pi, diags))
        raws.append(raw)
        cl = ("syntax-main" if pm else "syntax-included" if pi else
              "errors" if any(s == "E" for _, s in diags) else
              "warnings-only" if any(s == "W" for _, s in diags) and not any(s == "I" for _, s in diags) else
              "infos-only" if any(s == "I" for _, s in diags) and not any(s == "W" for _, s in diags) else
              "warnings+infos" if diags else "clean")
        if c.main.lstrip().startswith(("#", "//")) and "@scope" in c.main.split("\n")[0]:
            cl += "/snippet@scope"
        if c.planted:
            cl = "planted:" + cl
        classes[cl] = classes.get(cl, 0) + 1

    # ---------------- audit of the model's input (independent of the linter)
    # (a) planted programs: syntax-error flags and surviving diagnostics are known by construction
    planted_audited = planted_agree = 0
    tagstat = {}
    for c, inp in zip(cases, inputs):
        if not c.planted or inp is None:
            continue
        planted_audited += 1
        for t in c.label.split("/")[1:]:
            parts = t.split(":")
            t = parts[0] + (":" + parts[1] if parts[0] in ("stmt-include", "ignore") and len(parts) > 1 else "")
            tagstat[t] = tagstat.get(t, 0) + 1
        pm, pi, diags = inp
        want = (c.pm, (c.pi and not c.pm), sorted(c.diags) if not (c.pm or c.pi) else None)
        got = (pm, pi, sorted(diags) if not (pm or pi) else None)
        if want != got:
            viol.append((len(c.main), "the linter's result differs from what was planted in %s: planted syntax error main=%s included=%s diagnostics %s; "
                         "linter main=%s included=%s diagnostics %s" % (c.label, c.pm, c.pi, want[2], pm, pi, got[2]),
                         {"label": c.label, "main": c.main, "local_modules": c.local, "include_dirs": c.dirs,
                          "planted": {"pm": c.pm, "pi": c.pi, "diags": c.diags}, "linter": {"pm": pm, "pi": pi, "diags": diags}}, None))
        else:
            planted_agree += 1
    # (b) generated programs: every module reachable from main through a root-level include is parsed on its own
    allmods = sorted({(n, t) for c in cases if not c.planted for n, t in c.mods.items()})
    prep = V.run_batch([os.path.join(V.BUILD, "implrun"), "parsefile"], [t.encode().hex() for _, t in allmods], hang_s=20)
    mod_ok = {k: (r == "ok") for k, r in zip(allmods, prep)}
    inc_indep_checked = 0
    for c, inp in zip(cases, inputs):
        if c.planted or inp is None or inp[0]:
            continue
        mods = c.mods
        seen_m, todo, broken = set(), [c.main], False
        while todo:
            txt = todo.pop()
            for nm in re.findall(r'^\s*include\s+"([^"]+)"\s*;', txt, re.M):
                if nm in mods and nm not in seen_m:
                    seen_m.add(nm)
                    if mod_ok.get((nm, mods[nm])) is False:
                        broken = True
                    else:
                        todo.append(mods[nm])
        inc_indep_checked += 1
        if broken != inp[1]:
            viol.append((len(c.main), "an included module %s a syntax error (each reachable module parsed on its own) but the linter reports "
                         "parse_error_included=%s for %s" % ("has" if broken else "has no", inp[1], c.label),
                         {"label": c.label, "main": c.main, "modules": mods}, None))

    # ---------------- jobs: program x override set x flags
    jobs, meta = [], []
    stats_jobs, stats_meta = [], []
    ovsets = {}
    for i, (c, (d, incs), inp) in enumerate(zip(cases, placed, inputs)):
        if inp is None:
            continue
        pm, pi, diags = inp
        # planted programs draw their override sets from the PLANTED diagnostics
        src_diags = c.diags if c.planted else diags
        for j, ov in enumerate(override_sets(rng, src_diags)):
            od = write_overrides(d, j, ov)
            ovsets[(i, j)] = ov
            for (jf, v) in FLAGS:
                flags = (["J"] if jf else []) + ([] if v == 0 else ["V"] if v == 1 else ["VV"])
                jobs.append((od, d, incs, flags, "lint"))
                meta.append((i, j, ov, "N", flags))
            # the configuration cascade: `linter.verbose` of the yaml file x flags in any order, repeated, -v together with -vv
            for _ in range(2):
                yv = rng.choice("NWIO")
                flags = [rng.choice(["J", "V", "VV"]) for _ in range(rng.randint(0, 4))]
                jobs.append((write_overrides(d, j, ov, yv), d, incs, flags, "lint"))
                meta.append((i, j, ov, yv, flags))
        stats_jobs.append((d, d, incs, [] if rng.random() < 0.5 else ["J"], "stats"))
        stats_meta.append(i)
    with concurrent.futures.ThreadPoolExecutor(max_workers=12) as ex:
        results = list(ex.map(run_falco, jobs))
        stats_results = list(ex.map(run_falco, stats_jobs))

    # ---------------- model (input: what the Go API reported)
    mreq = []
    for (i, j, ov, yv, flags) in meta:
        pm, pi, diags = inputs[i]
        mreq.append("(cfgof %s (%s) (%s)) (in %d %d (%s))" % (
            "N" if yv == "N" else hx(YAML_VERBOSE[yv]), " ".join(hx(FLAG_ARGS[f].lstrip("-")) for f in flags),
            " ".join("(%s %s)" % (hx(k), hx(w)) for k, w in ov),
            1 if pm else 0, 1 if pi else 0, " ".join("(%s %s %s)" % (hx(r), hx(sv), hx(fn)) for r, sv, fn in raws[i])))
    mrep = V.run_batch([model], mreq, hang_s=30)

    agree = abnormal_n = 0
    model_stats = {}
    groups = {}
    flagstat = {}
    for (i, j, ov, yv, flags), res, mr in zip(meta, results, mrep):
        jf = 1 if "J" in flags else 0
        v = 2 if ("VV" in flags or yv == "I") else 1 if ("V" in flags or yv == "W") else 0
        fdesc = "yaml verbose=%s flags=%s" % (yv, " ".join(FLAG_ARGS[f] for f in flags) or "-")
        c = cases[i]
        pm, pi, diags = inputs[i]
        replay = {"label": c.label, "main": c.main, "local_modules": c.local, "include_dirs": c.dirs, "overrides": ov,
                  "flags": fdesc,
                  "lint_input": {"parse_error_main": pm, "parse_error_included": pi, "diags": diags},
                  "process": {k: res.get(k) for k in ("exit", "summary", "doc", "listed", "shown", "stderr_tail")}, "model": mr}
        size = len(c.main)
        # any abnormal termination is a violation by itself, whatever the model says: no reply within the time limit,
        # an exit status other than 0 / 1, a Go panic / runtime trace on stderr, -json without a parsable document
        abnormal = ("hangs (no exit within 60 s)" if res.get("hang") else
                    "panics" if res.get("panic") else
                    "exits with status %s" % res.get("exit") if res.get("exit") not in (0, 1) else
                    "prints no parsable JSON document under -json" if jf and res.get("doc") in ("none", "unparsable") else None)
        if abnormal:
            abnormal_n += 1
            viol.append((size, "abnormal termination: `falco lint` (%s) %s on %s" % (fdesc, abnormal, c.label), replay, None))
            continue
        got = "exit=%d summary=%s doc=%s listed=%s shown=%s files=%s" % (res["exit"], res["summary"], res["doc"], res["listed"], res["shown"], res["files"])
        mr_stats = (mr or "").rpartition(" stats=")[2]
        mr = (mr or "").rpartition(" stats=")[0]
        model_stats[i] = mr_stats
        if mr != got:
            viol.append((size, "the falco process and Model/Verdict.v disagree (%s, %s, overrides=%s): process %s | model %s"
                         % (c.label, fdesc, ov, got, mr), replay, None))
        else:
            agree += 1
        groups.setdefault((i, j), []).append((jf, v, res))
        flagstat[(jf, v)] = flagstat.get((jf, v), 0) + 1

    # ---------------- falco stats: fails exactly on a syntax error (main or included)
    stats_ok = 0
    for i, res in zip(stats_meta, stats_results):
        c = cases[i]
        pm, pi, diags = inputs[i]
        want = 1 if (c.pm or c.pi) else 0 if c.planted else (1 if (pm or pi) else 0)
        replay = {"label": c.label, "main": c.main, "local_modules": c.local, "include_dirs": c.dirs, "exit": res.get("exit"), "stderr": res.get("stderr_tail")}
        if res.get("hang") or res.get("panic") or res.get("exit") not in (0, 1):
            viol.append((len(c.main), "abnormal termination: `falco stats` on %s: %s" % (c.label, res.get("exit")), replay, None))
        elif res["exit"] != want or str(want) != model_stats.get(i, str(want)):
            viol.append((len(c.main), "exit status of `falco stats` is %s for %s, expected %d (syntax error main=%s included=%s; model %s)"
                         % (res["exit"], c.label, want, pm, pi, model_stats.get(i)), replay, None))
        else:
            stats_ok += 1

    # ---------------- direct oracles on the implementation
    flag_groups_ok = exit_ok = planted_verdict_ok = planted_verdict_n = doc_listed_ok = 0
    for (i, j), lst in groups.items():
        c = cases[i]
        pm, pi, diags = inputs[i]
        ov = ovsets[(i, j)]
        exits = sorted({r["exit"] for _, _, r in lst})
        sums = sorted({r["summary"] for _, _, r in lst})
        docs = sorted({r["doc"].rsplit(",", 1)[0] for jf, _, r in lst if jf and r["doc"] not in ("none", "unparsable")})
        replay = {"label": c.label, "main": c.main, "local_modules": c.local, "include_dirs": c.dirs, "overrides": ov,
                  "by_flags": [{"json": jf, "verbosity": v, "exit": r["exit"], "summary": r["summary"], "doc": r["doc"], "listed": r["listed"]}
                               for jf, v, r in lst]}
        # (1) flag independence
        if len(exits) > 1 or len(sums) > 1 or (docs and sums != ["none"] and docs != sums):
            viol.append((len(c.main), "exit status / counts of `falco lint` depend on -json / -v / -vv for %s (overrides %s): exits %s, summaries %s, -json document counts %s"
                         % (c.label, ov, exits, sums, docs), replay, None))
        else:
            flag_groups_ok += 1
        # (2) the -json document agrees with itself: its entries counted by severity = its counts
        badl = [(v, r["doc"], r["listed"]) for jf, v, r in lst
                if jf and r["doc"] not in ("none", "unparsable") and r["listed"] != "none"
                and r["listed"].rsplit(",", 1)[0] != r["doc"].rsplit(",", 1)[0]]
        if badl:
            viol.append((len(c.main), "the -json document contradicts itself for %s (overrides %s): (verbosity, Errors/Warnings/Infos/ParseErrors, entries by severity E,W,I,ignored) = %s"
                         % (c.label, ov, badl[:3]), replay, None))
        else:
            doc_listed_ok += 1
        # (3) the exit rule, from the API input
        want_exit, _ = spec_verdict(pm, pi, diags, ov)
        bad = [(jf, v, r["exit"]) for jf, v, r in lst if (1 if r["exit"] != 0 else 0) != want_exit]
        if bad:
            viol.append((len(c.main), "exit status of `falco lint` is wrong for %s (overrides %s): syntax error main=%s included=%s, "
                         "exit expected %d, but (json, verbosity, exit) = %s" % (c.label, ov, pm, pi, want_exit, bad[:6]), replay, None))
        else:
            exit_ok += 1
        # (4) planted programs: exit status AND counts from the planted truth alone (no linter, no model)
        if c.planted:
            planted_verdict_n += 1
            we, ws = spec_verdict(c.pm, c.pi, c.diags, ov)
            badp = [(jf, v, r["exit"], r["summary"]) for jf, v, r in lst if (1 if r["exit"] != 0 else 0) != we or r["summary"] != ws]
            if badp:
                viol.append((len(c.main), "verdict of `falco lint` differs from the planted one for %s (overrides %s): planted syntax error main=%s included=%s, "
                             "surviving diagnostics %s => exit %d, counts %s; but (json, verbosity, exit, counts) = %s"
                             % (c.label, ov, c.pm, c.pi, sorted(c.diags), we, ws, badp[:6]),
                             dict(replay, planted={"pm": c.pm, "pi": c.pi, "diags": c.diags}), None))
            else:
                planted_verdict_ok += 1

    viol.sort(key=lambda x: x[0])
    seen = {}
    for size, what, replay, facts in viol:
        cat = what[:45]
        seen[cat] = seen.get(cat, 0) + 1
        if seen[cat] <= 2:
            ctx.violation(what, replay, facts)
    if not proved and not ctx.violations:
        ctx.violation("proof obligation of C04 no longer checks: " + (ctx.broken or "Props/C04.v"),
                      {"no_failing_input": True, "broken": ctx.broken,
                       "searched": "%d process runs: the process, the model and the oracles agree on all of them" % len(jobs)})
    ctx.samples = [{"label": cases[m[0]].label, "main": cases[m[0]].main[:400], "overrides": m[2], "json": m[3], "verbosity": m[4],
                    "process": {k: r.get(k) for k in ("exit", "summary", "doc", "shown")}}
                   for m, r in list(zip(meta, results))[:: max(1, len(meta) // 4)][:4]]
    ctx.coverage.update({
        "evaluations": len(jobs), "distinct_nontrivial": len(groups),
        "programs": len(cases), "program_classes": dict(sorted(classes.items())),
        "process_runs": len(jobs), "process_model_agree": agree, "abnormal_terminations": abnormal_n,
        "scale_programs": sorted(c.label.split("/", 2)[2] for c in cases if c.label.startswith("planted/scale/")),
        "flag_matrix_per_program_and_override_set": ["json=%d verbosity=%d: %d runs" % (k[0], k[1], n) for k, n in sorted(flagstat.items())],
        "planted_programs": planted_audited, "planted_linter_input_agrees": planted_agree,
        "planted_features": dict(sorted(tagstat.items())),
        "planted_verdict_groups": planted_verdict_n, "planted_verdict_groups_ok": planted_verdict_ok,
        "included_syntax_error_oracle_checked": inc_indep_checked,
        "stats_runs": len(stats_jobs), "stats_ok": stats_ok,
        "override_sets": len(groups), "flag_independence_groups_ok": flag_groups_ok, "exit_oracle_groups_ok": exit_ok,
        "json_document_self_consistent_groups_ok": doc_listed_ok,
        "exit_nonzero_runs": sum(1 for r in results if r.get("exit")), "exit_zero_runs": sum(1 for r in results if r.get("exit") == 0),
        "violations_by_category": seen,
    })
    shutil.rmtree(WORK, ignore_errors=True)
    return ctx.finish(
        level="proof",
        rule="theorems of coq/Props/C04.v over Model/Verdict.v (every configuration, every lint_input); correspondence: hand-written seeds of "
             "every program class + seeded generated programs + planted programs (diagnostics, ignore comments, include graphs and syntax errors "
             "known by construction) x 3 override sets x the complete flag matrix, each cell a real process run "
             "(distinct = distinct (program, override set))")
