"""C16 - `fmt --write` never damages the file it rewrites.

proof  : coq/Props/C16.v over Model/FsProto.v: write_atomic (every fault assignment, every crash point, every
         formatter outcome), failure_preserves, success_formats, kill_before_rename, protocol_shape;
         trunc_first_refuted / old_failure_damages / old_midwrite_refuted for the protocol before the repair.
tie    : C (process level)  build/falco fmt -w FILE in a scratch directory under build/:
           * the system-call trace (strace -f -y) projected onto the model's operations must equal the
             operation sequence the extracted model executes for that input class and fault;
           * end state under REAL faults - read-only file, read-only directory (capabilities dropped with
             setpriv), RLIMIT_FSIZE at several sizes (short write), injected errors on write / fchmod /
             fsync / renameat / unlinkat, SIGKILL injected before and in the middle of the write, before the
             rename and after it (strace -e inject) - compared with the model: bytes of FILE, leftover
             temporary file, exit status.
oracle : independent of the model: FILE afterwards is byte-identical to its content before or to the stdout
         of `falco fmt FILE`; identical to before whenever the exit status is not 0; file mode preserved;
         whenever the exit status is 0 the rewritten file parses (as falco fmt parses it) to the same projected
         tree of declarations and statements as the original (implrun fmttree, the C03 projection) - the oracle
         hypothesis `keeps` of C16_statements_never_lost / C16_success_keeps_statements.
inputs : kinds of FILE CONTENT (file_kinds): declaration files, statement-only snippets with and without include
         (middle, last, nested, several, with comments), include-only, include first then statements, mixed files in
         both orders, blank-only, comment-only, syntax error / stray statement after a long valid prefix.
"""
import os
import re
import shutil
import stat
import subprocess
import vcommon as V
from gen import vclgen

FALCO = os.path.join(V.BUILD, "falco")
TRACE = "openat,write,rename,renameat,renameat2,unlink,unlinkat,ftruncate,fchmod,fsync,close"
DROP = ["setpriv", "--bounding-set=-dac_override,-dac_read_search"]


def sh(cmd, timeout=30, **kw):
    try:
        p = subprocess.run(cmd, stdout=subprocess.PIPE, stderr=subprocess.PIPE, timeout=timeout, **kw)
        return p.returncode, p.stdout, p.stderr
    except subprocess.TimeoutExpired:
        return "hang", b"", b""


def corpus():
    d = os.path.join(V.VERIF, "corpus", "C16")
    out = []
    if os.path.isdir(d):
        for fn in sorted(os.listdir(d)):
            if fn.endswith(".vcl"):
                out.append((open(os.path.join(d, fn), "rb").read(), "corpus/" + fn))
    return out


# --------------------------------------------------------------------------- strace projection
LINE = re.compile(r"^(\d+)\s+(\w+)\((.*)\)\s+=\s+(-?\d+|\?)(.*)$")


def project(trace_text, d, fname):
    """system calls that concern the scratch directory -> the model's operation names"""
    ops = []
    wfd = {}      # (pid-independent) fd path -> opened how
    pending = {}
    lines = []
    for ln in trace_text.splitlines():
        m = re.match(r"^(\d+)\s+(.*)$", ln)
        if not m:
            continue
        pid, rest = m.group(1), m.group(2)
        if rest.endswith("<unfinished ...>"):
            pending[pid] = rest[: -len("<unfinished ...>")].rstrip()
            continue
        mm = re.match(r"^<\.\.\. (\w+) resumed>(.*)$", rest)
        if mm and pid in pending:
            rest = pending.pop(pid) + mm.group(2)
        lines.append(pid + " " + rest)
    target = os.path.join(d, fname)

    def which(p):
        if p == target:
            return "FILE"
        if os.path.dirname(p) == d and os.path.basename(p).startswith(".falco-fmt-"):
            return "TMP"
        if os.path.dirname(p) == d:
            return "OTHER:" + os.path.basename(p)
        return None

    for ln in lines:
        m = LINE.match(ln)
        if not m:
            continue
        _, sc, args, ret, tail = m.groups()
        bad = "!" if ret.startswith("-") else ""
        if sc == "openat":
            pm = re.search(r'"([^"]*)"', args)
            if not pm:
                continue
            w = which(pm.group(1))
            if w is None:
                continue
            flags = args.split(",")[2] if len(args.split(",")) > 2 else ""
            if "O_TRUNC" in flags:
                ops.append("open_trunc:%s%s" % (w, bad))
                wfd[pm.group(1)] = "w"
            elif "O_CREAT" in flags:
                ops.append("create_tmp:%s%s" % (w, bad))
                wfd[pm.group(1)] = "w"
            elif "O_WRONLY" in flags or "O_RDWR" in flags:
                ops.append("probe:%s%s" % (w, bad))
                wfd[pm.group(1)] = "probe"
            else:
                wfd[pm.group(1)] = "r"
        elif sc in ("write", "fchmod", "fsync", "close", "ftruncate"):
            pm = re.match(r"\d+<([^>]*)>", args)
            if not pm:
                continue
            p = pm.group(1).replace(" (deleted)", "")
            w = which(p)
            if w is None:
                continue
            how = wfd.get(p, "r")
            if sc == "write":
                name = "write:%s" % w
                if ops and ops[-1].rstrip("!") == name and not ops[-1].endswith("!"):
                    ops[-1] = name + bad
                else:
                    ops.append(name + bad)
            elif sc == "fchmod":
                ops.append("chmod:%s%s" % (w, bad))
            elif sc == "fsync":
                ops.append("fsync:%s%s" % (w, bad))
            elif sc == "ftruncate":
                ops.append("open_trunc:%s%s" % (w, bad))
            elif sc == "close" and how == "w":
                ops.append("close:%s%s" % (w, bad))
        elif sc in ("rename", "renameat", "renameat2"):
            ps = re.findall(r'"([^"]*)"', args)
            if len(ps) == 2 and (which(ps[0]) or which(ps[1])):
                ops.append("rename:%s>%s%s" % (which(ps[0]), which(ps[1]), bad))
        elif sc in ("unlink", "unlinkat"):
            pm = re.search(r'"([^"]*)"', args)
            if pm and which(pm.group(1)):
                name = "remove:%s%s" % (which(pm.group(1)), bad)
                # os.Remove tries unlink, then rmdir: one operation
                if not (bad and ops and ops[-1] == name):
                    ops.append(name)
    return ops


def core(ops):
    return [o for o in ops if o.split(":")[0] in ("create_tmp", "write", "rename", "remove", "open_trunc") or o.endswith("!")]



# --------------------------------------------------------------------------- kinds of target
KINDS = ["regular", "hardlink", "hardlink-otherdir", "symlink-same", "symlink-other", "symlink-chain"]


def build_layout(d, kind, content, mode):
    """creates the scratch directory; returns (path given to falco, real file, other names of the same inode, symlinks)"""
    if os.path.isdir(d):
        for r, ds, _ in os.walk(d):
            os.chmod(r, 0o755)
        shutil.rmtree(d)
    os.makedirs(os.path.join(d, "sub"))
    arg = os.path.join(d, "f.vcl")
    real = arg
    aliases, links = [], {}
    if kind.startswith("symlink"):
        real = os.path.join(d, "real.vcl") if kind == "symlink-same" else os.path.join(d, "sub", "real.vcl")
    with open(real, "wb") as f:
        f.write(content)
    os.chmod(real, mode)
    if kind == "hardlink":
        aliases = [os.path.join(d, "other.lnk")]
    elif kind == "hardlink-otherdir":
        aliases = [os.path.join(d, "sub", "other.lnk"), os.path.join(d, "third.lnk")]
    for a in aliases:
        os.link(real, a)
    if kind == "symlink-same":
        links[arg] = "real.vcl"
    elif kind == "symlink-other":
        links[arg] = os.path.join("sub", "real.vcl")
    elif kind == "symlink-chain":
        links[os.path.join(d, "hop.vcl")] = os.path.join(d, "sub", "real.vcl")     # absolute
        links[arg] = "hop.vcl"
    elif kind == "dangling":
        os.remove(real)
        links[arg] = "missing.vcl"
        real = None
    for l, t in links.items():
        if os.path.lexists(l):
            os.remove(l)
        os.symlink(t, l)
    return arg, real, aliases, links


def snapshot(d):
    out = {}
    for r, ds, fs in os.walk(d):
        for n in fs + ds:
            p = os.path.join(r, n)
            rel = os.path.relpath(p, d)
            if os.path.islink(p):
                out[rel] = ("link", os.readlink(p))
            elif os.path.isfile(p):
                st = os.stat(p)
                out[rel] = ("file", open(p, "rb").read(), stat.S_IMODE(st.st_mode))
    return out


def sweep_offsets(o, l):
    """write-size limits around everything that matters: 0, 1, the original size, the formatted size, midpoints"""
    c = {0, 1, o - 1, o, o + 1, o // 2, (o + l) // 2, l // 2, l - 1, l, l + 1, min(o, l) + 1, max(o, l) - 1}
    return sorted(x for x in c if x >= 0)


# --------------------------------------------------------------------------- kinds of FILE CONTENT
def file_kinds(g, rng, thorough):
    """what a user may point `fmt -w` at, besides a well-formed file of declarations: (bytes, label 'kind:...')"""
    def stmts(n, include_at=()):
        out = []
        for i in range(n):
            if i in include_at:
                out.append('include "mod_%d";\n' % i)
            else:
                out.append(rng.choice(['set req.http.K%d = "%d";\n' % (i, i), 'unset req.http.K%d;\n' % i, 'log "k%d";\n' % i,
                                       'if (req.http.K%d) {\n  set req.http.Y = "%d";\n}\n' % (i, i), 'declare local var.k%d STRING;\n' % i,
                                       'call sub_%d;\n' % i, 'esi;\n', 'return(pass);\n', 'add resp.http.Set-Cookie = "k=%d";\n' % i]))
        return out
    decl = 'sub vcl_recv {\n  set req.http.A = "1";\n}\n'
    k = []
    k.append(("".join(stmts(4)), "kind:statements-only"))
    k.append(("".join(stmts(5, include_at=(2,))), "kind:statements+include-middle"))
    k.append(("".join(stmts(4, include_at=(3,))), "kind:statements+include-last"))
    k.append(("".join(stmts(6, include_at=(1, 3, 4))), "kind:statements+several-includes"))
    k.append(('set req.http.A = "1";\nif (req.http.A) {\n  include "mod_a";\n  log "x";\n}\ninclude "mod_b";\nlog "y";\n', "kind:statements+include-nested-and-top"))
    k.append(('# header\nset req.http.A = "1"; # why\n// c\ninclude "m"; /* tail */\nlog "z";\n', "kind:statements+include+comments"))
    k.append(('include "a";\ninclude "b";\n', "kind:include-only"))
    k.append(('include "a";\nset req.http.A = "1";\nlog "x";\n', "kind:include-first-then-statements"))
    k.append((decl + 'set req.http.B = "2";\ninclude "m";\n', "kind:mixed-declaration-then-statements"))
    k.append(('set req.http.B = "2";\ninclude "m";\n' + decl, "kind:mixed-statements-then-declaration"))
    k.append(('import x;\ninclude "a";\n' + decl + 'acl a {\n  "10.0.0.1";\n}\ninclude "b";\n', "kind:declarations+includes"))
    k.append(("\n\n   \n\t\n", "kind:blank-only"))
    k.append(("# only\n// comments\n/* in this\n   file */\n", "kind:comment-only"))
    k.append((decl * 40 + 'sub broken {\n  set req.http.X = ;\n}\n', "kind:syntax-error-after-long-valid-prefix"))
    k.append((decl * 40 + 'set req.http.Z = "z";\n', "kind:statement-after-long-valid-prefix"))
    k.append(("".join(stmts(40, include_at=(17, 39))), "kind:long-statements+includes"))
    for i in range(8 if thorough else 2):
        n = rng.randint(2, 8)
        inc = tuple(sorted(rng.sample(range(1, n), rng.randint(1, min(3, n - 1)))))
        k.append(("".join(stmts(n, include_at=inc)), "kind:gen-statements+includes"))
    for i in range(6 if thorough else 1):
        body = g.snippet()
        parts = body.split(";\n")
        pos = rng.randrange(1, max(2, len(parts)))
        k.append((";\n".join(parts[:pos] + ['include "gen_%d"' % i] + parts[pos:]), "kind:gen-snippet+include"))
    for i in range(4 if thorough else 1):
        k.append((rng.choice([g.program() + "\n" + g.snippet(), g.snippet() + g.program()]), "kind:gen-mixed"))
    return [(t.encode(), l) for t, l in k]

# --------------------------------------------------------------------------- one run
class Case:
    def __init__(self, root, n, content, label):
        self.d = os.path.join(root, "c%d" % n)
        self.content = content
        self.label = label
        self.fname = "f.vcl"

    def fresh(self, mode=0o644):
        if os.path.isdir(self.d):
            os.chmod(self.d, 0o755)
            shutil.rmtree(self.d)
        os.makedirs(self.d)
        p = os.path.join(self.d, self.fname)
        with open(p, "wb") as f:
            f.write(self.content)
        os.chmod(p, mode)
        return p

    def state(self):
        p = os.path.join(self.d, self.fname)
        os.chmod(self.d, 0o755)
        data = open(p, "rb").read() if os.path.exists(p) else None
        mode = stat.S_IMODE(os.stat(p).st_mode) if os.path.exists(p) else None
        tmps = sorted(x for x in os.listdir(self.d) if x != self.fname and x != "trace")
        tmpdata = [open(os.path.join(self.d, x), "rb").read() for x in tmps]
        return data, mode, tmpdata


def run(ctx):
    rng = ctx.rng
    thorough = ctx.thorough()
    proved = ctx.prove()
    with V.Lock("build"):
        model = V.driver("fsproto")
    ctx.trusted += [
        "Coq 8.16.1 kernel; axioms: none (Print Assumptions of every theorem of Props/C16.v: Closed under the global context)",
        "extraction: ExtrOcamlBasic only; OCaml 4.13.1; ocaml/common.ml + ocaml/fsproto_main.ml",
        "the file-system model of Model/FsProto.v (path -> option bytes; rename atomic; a failing call has no effect except a short write) "
        "- the OS file system itself is not modelled further",
        "strace 6.1 (-f -y, -e inject=...:error= / :signal=KILL) and the projection of its output in checks/c16.py; "
        "setpriv (drops CAP_DAC_OVERRIDE so that permission bits apply to root); prlimit --fsize",
        "what parser + formatter return for a content is an oracle of the model (taken from `falco fmt FILE` on every input)",
        "modelled not verified: the operation sequence of (*Runner).Format / overwriteFile, tied by the system-call projection on every run",
    ]
    root = os.path.join(V.BUILD, "c16", "run-%d" % os.getpid())
    if os.path.isdir(root):
        shutil.rmtree(root, ignore_errors=True)
    os.makedirs(root)

    # ------------------------------------------------------------ inputs
    g = vclgen.Gen(rng)
    inputs = corpus()
    inputs += [(b"", "empty"), (b"sub vcl_recv {\n", "parse-error"), (b"sub vcl_recv { set req.http.X = ; }\n", "parse-error"),
               (b"acl a { \"1.2.3.4\" }\n\n\n", "parse-error"),
               (b"sub vcl_recv { error; }\n", "error-without-code"),
               (b"set req.http.X = \"1\";\nif (req.http.A) { unset req.http.B; }\n", "snippet"),
               (("sub vcl_recv {\n" + "".join('  set req.http.X%d = "%s";\n' % (i, "v" * 40) for i in range(130)) + "}\n").encode(), "big-8k")]
    kinds = file_kinds(g, rng, thorough)
    inputs += kinds
    repo_files = [(data, path) for path, data in vclgen.repo_vcl_files(V.REPO) if 0 < len(data) < 6000]
    rng.shuffle(repo_files)
    inputs += [(d, "repo:" + os.path.relpath(p, V.REPO)) for d, p in repo_files[: (40 if thorough else 4)]]
    for i in range(60 if thorough else 9):
        inputs.append((g.program().encode(), "gen-program"))
    for i in range(20 if thorough else 3):
        inputs.append((g.snippet().encode(), "gen-snippet"))
    for i in range(10 if thorough else 2):
        s = g.program()
        cut = rng.randrange(1, max(2, len(s)))
        inputs.append((s[:cut].encode("utf-8", "ignore"), "gen-truncated"))

    retried_hangs = []
    full_for = len(corpus()) + 7      # corpus and the hand-written inputs get every scenario; the others a sample (quick tier)
    evaluations = 0
    classes = {}
    scen_count = {}
    agree_ops = 0
    agree_state = 0
    mreqs = []
    mchecks = []     # (description, replay, expected fields from the real run)
    distinct = set()
    rewrites = {}    # (original, rewritten) -> replay of the first successful rewrite seen
    kind_class = {}

    def model_req(proto, cls, out, content, faults, k):
        return "run %s %s %s %s %s %s" % (proto, cls, out.hex() if (cls == "ok" and out) else "-",
                                            content.hex() if content else "-", faults or "-", k)

    for n, (content, label) in enumerate(inputs):
        case = Case(root, n, content, label)
        p = case.fresh()
        # ---- the oracle of the model and of the property: `falco fmt FILE`
        rc, out, err = sh([FALCO, "fmt", p])
        evaluations += 1
        if rc == "hang":
            ctx.violation("falco fmt hangs on %s" % label, {"content_hex": content.hex()[:4000], "label": label})
            continue
        if case.state()[0] != content:
            ctx.violation("falco fmt (without -w) changed the file (%s)" % label, {"content_hex": content.hex()[:4000]})
        cls = "ok" if rc == 0 else ("panic" if rc == 2 else ("nil" if b"only VCL declarations" in err else "parse"))
        if rc not in (0, 1, 2):
            ctx.violation("falco fmt exits with status %s on %s" % (rc, label), {"content_hex": content.hex()[:4000], "stderr": err[-500:].decode("utf-8", "replace")})
            continue
        classes[cls] = classes.get(cls, 0) + 1
        distinct.add(content)
        L = len(out)
        if label.startswith("kind:"):
            kind_class[label[5:]] = cls
        if cls == "ok":
            rewrites.setdefault((content, out), {"label": label, "scenario": "falco fmt FILE (stdout)", "content_hex": content.hex()[:6000],
                                                 "formatted_hex": out.hex()[:6000], "class": cls})

        # ---- scenarios: (name, command prefix, strace inject options, chmod file, chmod dir, model faults, model k, killed)
        scen = [("plain", [], [], None, None, "", "all", False)]
        scen.append(("readonly-file", DROP, [], 0o444, None, "1:fail", "all", False))
        scen.append(("readonly-dir", DROP, [], None, 0o555, "2:fail", "all", False))
        if cls == "ok":
            sizes = sorted(set([0, 1, L // 2, max(0, L - 1), L, L + 1] + ([rng.randrange(L + 1) for _ in range(2)] if L else [])))
            if thorough and L <= 400:
                sizes = list(range(L + 2))
            for s in sizes:
                scen.append(("fsize-%s" % ("lt" if s < L else "ge"), ["prlimit", "--fsize=%d" % s], [], None, None,
                             ("3:short%d" % s) if s < L else "", "all", False))
            if L:
                scen.append(("inject-write-EIO", [], ["-e", "inject=write:error=EIO:when=1"], None, None, "3:fail", "all", False))
            scen.append(("inject-fchmod-EPERM", [], ["-e", "inject=fchmod:error=EPERM"], None, None, "4:fail", "all", False))
            scen.append(("inject-fsync-EIO", [], ["-e", "inject=fsync:error=EIO"], None, None, "5:fail", "all", False))
            scen.append(("inject-rename-EXDEV", [], ["-e", "inject=renameat:error=EXDEV"], None, None, "7:fail", "all", False))
            scen.append(("inject-fsync-EIO+unlink-EBUSY", [], ["-e", "inject=fsync:error=EIO", "-e", "inject=unlinkat:error=EBUSY"],
                         None, None, "5:fail,7:fail", "all", False))
            scen.append(("kill-before-chmod", [], ["-e", "inject=fchmod:signal=KILL"], None, None, "", str(1 + L), True))
            scen.append(("kill-before-rename", [], ["-e", "inject=renameat:signal=KILL"], None, None, "", str(1 + L), True))
            if L >= 2:
                half = L // 2
                scen.append(("kill-mid-write", ["prlimit", "--fsize=%d" % half], ["-e", "inject=write:signal=KILL:when=2"],
                             None, None, "", str(1 + half), True))
            scen.append(("kill-at-exit", [], ["-e", "trace=exit_group", "-e", "inject=exit_group:signal=KILL"], None, None, "", "all", True))
        else:
            scen.append(("fsize-0", ["prlimit", "--fsize=0"], [], None, None, "", "all", False))

        if not thorough and n >= full_for:
            keep = [scen[0]] + rng.sample(scen[1:], min(len(scen) - 1, 2 if label.startswith("kind:") else 4))
            scen = keep
        for name, prefix, inj, fmode, dmode, faults, k, killed in scen:
            p = case.fresh(mode=fmode or rng.choice([0o644, 0o600, 0o664, 0o755]))
            mode0 = stat.S_IMODE(os.stat(p).st_mode)
            if dmode:
                os.chmod(case.d, dmode)
            tr = os.path.join(root, "trace-%d" % n)
            cmd = ["strace", "-f", "-y", "-o", tr, "-e", "trace=" + TRACE] + inj + prefix + [FALCO, "fmt", "-w", p]
            rc2, o2, e2 = sh(cmd)
            if rc2 == "hang":
                # a stall of the traced process under load has been seen once in ~6000 runs and never again on the
                # same input: a hang is reported only when it repeats
                retried_hangs.append("%s/%s" % (label, name))
                os.chmod(case.d, 0o755)
                p = case.fresh(mode=mode0)
                if dmode:
                    os.chmod(case.d, dmode)
                rc2, o2, e2 = sh(cmd, timeout=90)
            os.chmod(case.d, 0o755)
            evaluations += 1
            scen_count[name] = scen_count.get(name, 0) + 1
            data, mode1, tmps = case.state()
            trace_text = open(tr, errors="replace").read() if os.path.exists(tr) else ""
            ops = project(trace_text, case.d, case.fname)
            rep = {"label": label, "scenario": name, "content_hex": content.hex()[:6000], "class": cls,
                   "command": " ".join(cmd[5:]), "exit": rc2, "stderr": e2[-400:].decode("utf-8", "replace"),
                   "file_after_hex": None if data is None else data.hex()[:6000], "ops": ops}
            if rc2 == "hang":
                ctx.violation("falco fmt -w hangs (%s, %s)" % (label, name), rep)
                continue
            # ---- direct oracle (no model)
            if data != content and not (cls == "ok" and data == out):
                ctx.violation("fmt -w left FILE neither with its original bytes nor with the output of falco fmt (%s, %s): %d bytes, %s"
                              % (label, name, -1 if data is None else len(data), "exit %s" % rc2), rep)
            elif rc2 != 0 and data != content and name != "kill-at-exit":
                ctx.violation("fmt -w failed (exit %s) but FILE changed (%s, %s)" % (rc2, label, name), rep)
            elif rc2 == 0 and cls == "ok" and data != out:
                ctx.violation("fmt -w reported success but FILE is not the output of falco fmt (%s, %s)" % (label, name), rep)
            elif rc2 == 0 and cls != "ok":
                ctx.violation("fmt -w reported success on an input falco fmt rejects (%s, %s)" % (label, name), rep)
            if rc2 == 0 and data is not None:
                rewrites.setdefault((content, data), rep)
            if data is not None and mode1 != mode0:
                ctx.violation("fmt -w changed the file mode %o -> %o (%s, %s)" % (mode0, mode1, label, name), rep)
            # ---- the model's prediction for this class / fault / crash point
            mreqs.append(model_req("new", cls, out, content, faults, k))
            mchecks.append((rep, rc2, data, tmps, ops, killed, content, out, cls))
        shutil.rmtree(case.d, ignore_errors=True)

    # ------------------------------------------------------------ kinds of target x sweep of write-fault offsets
    # every name of the file's inode (hard links, the file a symbolic link resolves to) and everything else in the
    # scratch tree is observed: original bytes or the formatted text; on failure original; symbolic links stay links.
    sweep_inputs = [(c, l) for c, l in inputs if l.startswith("corpus/simple")]
    sweep_inputs += [
        (b'sub vcl_recv{set req.http.A="1";set req.http.B="2";if(req.http.C){unset req.http.D;}}\n', "one-line (grows)"),
        (b'sub vcl_recv {\n\n\n\n      set   req.http.A   =   "1"  ;\n\n\n\n\n    unset    req.http.B   ;\n\n\n}\n\n\n\n\n', "blank lines (shrinks)"),
        (b'sub vcl_recv {\r\n  set req.http.A = "1";\r\n}\r\n', "CRLF"),
        (b'sub vcl_recv {\n  set req.http.A = "1";\n}', "no trailing newline"),
        (b'', "empty"),
    ]
    for i in range(12 if thorough else 1):
        sweep_inputs.append((g.program().encode(), "gen-program"))
    kstats = {"runs": 0, "grows": 0, "shrinks": 0, "same_size": 0, "by_kind": {}, "offsets_between_sizes": 0}
    for n, (content, label) in enumerate(sweep_inputs):
        d = os.path.join(root, "k%d" % n)
        arg, real, aliases, links = build_layout(d, "regular", content, 0o644)
        rc, out, err = sh([FALCO, "fmt", arg])
        evaluations += 1
        if rc != 0:
            continue
        O, L = len(content), len(out)
        rewrites.setdefault((content, out), {"label": label, "scenario": "falco fmt FILE (stdout)", "content_hex": content.hex()[:4000], "class": "ok"})
        kstats["grows" if L > O else "shrinks" if L < O else "same_size"] += 1
        offs = sweep_offsets(O, L)
        if thorough and max(O, L) <= 160:
            offs = list(range(max(O, L) + 2))
        for kind in KINDS:
            for s_ in offs:
                mode = rng.choice([0o644, 0o600, 0o664, 0o755, 0o640, 0o666])
                arg, real, aliases, links = build_layout(d, kind, content, mode)
                before = snapshot(d)
                traced = kind == "regular"
                tr = os.path.join(root, "trace-k%d" % n)
                cmd = (["strace", "-f", "-y", "-o", tr, "-e", "trace=" + TRACE] if traced else []) + \
                      ["prlimit", "--fsize=%d" % s_, FALCO, "fmt", "-w", arg]
                rc2, o2, e2 = sh(cmd)
                if rc2 == "hang":
                    retried_hangs.append("%s/%s/%d" % (label, kind, s_))
                    arg, real, aliases, links = build_layout(d, kind, content, mode)
                    rc2, o2, e2 = sh(cmd, timeout=90)
                evaluations += 1
                kstats["runs"] += 1
                kstats["by_kind"][kind] = kstats["by_kind"].get(kind, 0) + 1
                if min(O, L) < s_ < max(O, L):
                    kstats["offsets_between_sizes"] += 1
                after = snapshot(d)
                rep = {"label": label, "kind": kind, "scenario": "fsize=%d (original %d bytes, formatted %d)" % (s_, O, L),
                       "content_hex": content.hex()[:4000], "command": " ".join(cmd[-5:]), "exit": rc2,
                       "stderr": e2[-300:].decode("utf-8", "replace"), "class": "ok",
                       "tree_after": {k: (v[0], v[1].hex()[:400] if v[0] == "file" else v[1]) for k, v in after.items()}}
                if rc2 == "hang":
                    ctx.violation("falco fmt -w hangs (%s, %s, fsize=%d)" % (label, kind, s_), rep)
                    continue
                # ---- direct oracle on the whole tree
                for rel, v in before.items():
                    a = after.get(rel)
                    if v[0] == "link":
                        if a != v:
                            ctx.violation("fmt -w replaced or removed the symbolic link %s (%s, %s)" % (rel, label, kind), rep)
                        continue
                    if a is None or a[0] != "file":
                        ctx.violation("fmt -w removed %s (%s, %s)" % (rel, label, kind), rep)
                        continue
                    if a[1] != content and a[1] != out:
                        ctx.violation("fmt -w left %s neither with the original bytes nor with the formatted text: %d bytes (%s, %s, write limit %d, "
                                      "original %d, formatted %d, exit %s)" % (rel, len(a[1]), label, kind, s_, O, L, rc2), rep)
                    elif rc2 != 0 and a[1] != content:
                        ctx.violation("fmt -w failed (exit %s) but %s changed (%s, %s, write limit %d)" % (rc2, rel, label, kind, s_), rep)
                    if a[2] != v[2]:
                        ctx.violation("fmt -w changed the mode of %s %o -> %o (%s, %s)" % (rel, v[2], a[2], label, kind), rep)
                realrel = os.path.relpath(real, d)
                if rc2 == 0 and after.get(realrel, (None, None))[1] != out:
                    ctx.violation("fmt -w reported success but the file is not the formatted text (%s, %s)" % (label, kind), rep)
                extra = sorted(set(after) - set(before))
                # ---- against the model (target + leftover temporary file; the other names keep the original: C16_links_atomic)
                data = after.get(realrel, (None, None))[1]
                tmps = [after[x][1] for x in extra if after[x][0] == "file"]
                if any(not os.path.basename(x).startswith(".falco-fmt-") for x in extra):
                    ctx.violation("fmt -w created %s (%s, %s)" % (extra, label, kind), rep)
                for al in aliases:
                    ar = after.get(os.path.relpath(al, d))
                    if ar is not None and ar[1] != content:
                        ctx.violation("another hard link of the file does not hold the original bytes any more, Model/FsLinks.v says it does (%s, %s, "
                                      "write limit %d, exit %s): %d bytes" % (label, kind, s_, rc2, len(ar[1])), rep)
                ops = project(open(tr, errors="replace").read(), os.path.dirname(real), os.path.basename(real)) if traced and os.path.exists(tr) else None
                rep["ops"] = ops
                mreqs.append(model_req("new", "ok", out, content, ("3:short%d" % s_) if s_ < L else "", "all"))
                mchecks.append((rep, rc2, data, tmps, ops, False, content, out, "ok"))
        # a dangling symbolic link: nothing to format, nothing created
        arg, real, aliases, links = build_layout(d, "dangling", content, 0o644)
        before = snapshot(d)
        rc2, o2, e2 = sh([FALCO, "fmt", "-w", arg])
        evaluations += 1
        kstats["by_kind"]["dangling"] = kstats["by_kind"].get("dangling", 0) + 1
        if rc2 == 0 or snapshot(d) != before:
            ctx.violation("fmt -w on a dangling symbolic link: exit %s, tree changed: %s" % (rc2, snapshot(d) != before),
                          {"label": label, "kind": "dangling", "exit": rc2})
        shutil.rmtree(d, ignore_errors=True)

    # ------------------------------------------------------------ several files in one invocation, the k-th fails
    ok_pool = []
    for c, l in inputs:
        if len(ok_pool) >= (12 if thorough else 5):
            break
        d = os.path.join(root, "probe")
        arg, _, _, _ = build_layout(d, "regular", c, 0o644)
        rc, out, err = sh([FALCO, "fmt", arg])
        if rc == 0 and out != c and len(c) < 3000:
            ok_pool.append((c, out))
    # inputs falco fmt rejects; what it does with each (exit 1, panic = exit 2, or - on another tree - formats it after all)
    # is taken from `falco fmt FILE`, never assumed
    bad_pool = []
    for c, l in inputs + [(b"sub vcl_recv {\n", "parse error"), (b'set req.http.X = "1";\n', "snippet")]:
        if len(bad_pool) >= (10 if thorough else 5):
            break
        d = os.path.join(root, "probe")
        arg, _, _, _ = build_layout(d, "regular", c, 0o644)
        rc, out, err = sh([FALCO, "fmt", arg])
        if rc in (1, 2):
            bad_pool.append((c, rc, "exit %d: %s" % (rc, l)))
    multi_runs = 0
    multi_cases = []
    if len(ok_pool) >= 2 and bad_pool:
        for t in range(40 if thorough else 7):
            nfiles = rng.choice([2, 3, 3, 4])
            files = [rng.choice(ok_pool) + ("ok",) for _ in range(nfiles)]
            how = rng.choice(["bad-file", "bad-file", "readonly", "fsize", "none"])
            k = rng.randrange(nfiles)
            if how == "bad-file":
                b = rng.choice(bad_pool)
                files[k] = (b[0], None, b[2])
            multi_cases.append((files, how, k, rng.choice(["list", "glob"])))
    for files, how, k, form in multi_cases:
        d = os.path.join(root, "multi")
        if os.path.isdir(d):
            shutil.rmtree(d)
        os.makedirs(d)
        names = ["%c.vcl" % (97 + i) for i in range(len(files))]
        for nme, (c, o, _) in zip(names, files):
            with open(os.path.join(d, nme), "wb") as f:
                f.write(c)
        prefix = []
        limit = None
        if how == "readonly":
            os.chmod(os.path.join(d, names[k]), 0o444)
            prefix = DROP
        elif how == "fsize":
            sizes = sorted(len(o) for c, o, _ in files if o is not None)
            limit = rng.choice([sizes[0] - 1, sizes[-1] - 1, (sizes[0] + sizes[-1]) // 2, sizes[-1]])
            prefix = ["prlimit", "--fsize=%d" % max(0, limit)]
            limit = max(0, limit)
        argsv = [os.path.join(d, n_) for n_ in names] if form == "list" else [os.path.join(d, "*.vcl")]
        rc2, o2, e2 = sh(prefix + [FALCO, "fmt", "-w"] + argsv)
        evaluations += 1
        multi_runs += 1
        # expected by composition of the single-file protocol: files are handled in order, the first failure stops the run
        exp, failed = [], False
        exp_exit = 0
        for i, (c, o, kindf) in enumerate(files):
            if failed:
                exp.append(c)
                continue
            bad = o is None or (how == "readonly" and i == k) or (limit is not None and len(o) > limit)
            if bad:
                failed = True
                exp.append(c)
                exp_exit = 2 if kindf.startswith("exit 2") else 1
            else:
                exp.append(o)
        got = [open(os.path.join(d, n_), "rb").read() if os.path.exists(os.path.join(d, n_)) else None for n_ in names]
        rep = {"files": [c.hex()[:2000] for c, _, _ in files], "fault": how, "k": k, "invocation": form, "exit": rc2,
               "stderr": e2[-300:].decode("utf-8", "replace"), "after": [None if x is None else x.hex()[:2000] for x in got]}
        for i, (gx, (c, o, _)) in enumerate(zip(got, files)):
            if gx != c and gx != o:
                ctx.violation("fmt -w with several files: file %d of %d is neither original nor formatted (%s at file %d)" % (i, len(files), how, k), rep)
        if got != exp:
            ctx.violation("fmt -w with several files: end state differs from the composition of the single-file protocol "
                          "(files before the failing one formatted, it and the later ones untouched); %s at file %d, %s" % (how, k, form), rep)
        if rc2 != exp_exit:
            ctx.violation("fmt -w with several files: exit status %s, expected %s (%s at file %d)" % (rc2, exp_exit, how, k), rep)
        if sorted(os.listdir(d)) != names:
            ctx.violation("fmt -w with several files left extra files behind: %s" % sorted(os.listdir(d)), rep)
        os.chmod(os.path.join(d, names[k]), 0o644)

    # ------------------------------------------------------------ a successful rewrite loses no statement
    # the oracle hypothesis of C16_statements_never_lost / C16_success_keeps_statements, tied here: original and rewritten
    # file are parsed the way falco fmt parses a file; the projected trees (C03 projection, default configuration) are equal
    pairs = list(rewrites.items())
    trep = V.run_batch([os.path.join(V.BUILD, "implrun"), "fmttree"],
                       ["{} %s %s" % (c.hex() or "-", d_.hex() or "-") for (c, d_), _ in pairs], hang_s=30)
    tree_same = 0
    tree_statements = 0
    for ((c, d_), rep), r in zip(pairs, trep):
        evaluations += 1
        if r is not None and r.startswith("same "):
            tree_same += 1
            tree_statements += int(r.split()[1])
            continue
        rep = dict(rep, rewritten_hex=d_.hex()[:6000], tree_oracle=(r or "no reply")[:3000])
        if r is not None and r.startswith("diff "):
            f = r.split(" ")
            ctx.violation("fmt -w reported success but the rewritten file does not have the statements of the original: %s top-level "
                          "declarations / statements before, %s after (%s, %s)" % (f[1], f[2], rep.get("label"), rep.get("scenario")), rep)
        elif r is not None and r.startswith("new-perr"):
            ctx.violation("fmt -w reported success but the rewritten file does not parse: %s (%s, %s)" % (r[9:120], rep.get("label"), rep.get("scenario")), rep)
        else:
            ctx.violation("tree oracle failed on a file falco fmt accepts: %s (%s)" % ((r or "no reply")[:120], rep.get("label")), rep)

    misfires = {}
    order_notes = set()
    mrep = V.run_batch([model], mreqs, hang_s=60)
    for (rep, rc2, data, tmps, ops, killed, content, out, cls), q, r in zip(mchecks, mreqs, mrep):
        if r is None or not r.startswith("ops="):
            ctx.violation("model driver failed: %s" % r, dict(rep, model_request=q[:300]))
            continue
        f = dict(x.split("=", 1) for x in r.split())
        mops = [x for x in f["ops"].split(",") if x and not x.startswith("stat:")]
        mfile = content if f["file"] == "orig" else out if f["file"] == "out" else None
        mtmp = None if f["tmp"] == "none" else bytes.fromhex(f["tmp"][1:])
        mexit = int(f["exit"])
        ok_state = True
        if data != mfile:
            ok_state = False
            ctx.violation("FILE after fmt -w differs from Model/FsProto.v (%s, %s): model says %s" % (rep["label"], rep["scenario"], f["file"]),
                          dict(rep, model=r[:400]))
        if (tmps[0] if tmps else None) != mtmp or len(tmps) > 1:
            ok_state = False
            ctx.violation("temporary file left behind differs from Model/FsProto.v (%s, %s): %d file(s), model %s"
                          % (rep["label"], rep["scenario"], len(tmps), "none" if mtmp is None else "%d bytes" % len(mtmp)),
                          dict(rep, model=r[:400]))
        if not killed and rc2 != mexit:
            ok_state = False
            ctx.violation("exit status %s differs from Model/FsProto.v (%d) (%s, %s)" % (rc2, mexit, rep["label"], rep["scenario"]),
                          dict(rep, model=r[:400]))
        if killed and rc2 in (0, 1, 2):
            # strace counts `when=` per thread: the injection can miss its call when the Go scheduler moves the
            # goroutine; the direct oracle above has judged the run, the model comparison is skipped
            misfires[rep["scenario"]] = misfires.get(rep["scenario"], 0) + 1
            continue
        agree_state += ok_state
        # operations that change the file system, and every failed call, must coincide exactly and in order;
        # the position of effect-free successful calls (probe, chmod, fsync, close) is not part of the property
        if ops is None:
            agree_ops += 1
            continue
        cops, cmops = core(ops), core(mops)
        if killed:
            same = cops == cmops[: len(cops)] or (cops and cops[:-1] == cmops[: len(cops) - 1])
        else:
            same = cops == cmops
            if same and ops != mops:
                order_notes.add("%s vs model %s" % (",".join(ops), ",".join(mops)))
        if not same:
            ctx.violation("operations performed by fmt -w differ from fmt_w of Model/FsProto.v (%s, %s): traced %s, model %s"
                          % (rep["label"], rep["scenario"], ",".join(ops) or "-", ",".join(mops) or "-"), dict(rep, model=r[:400]))
        else:
            agree_ops += 1
    shutil.rmtree(root, ignore_errors=True)
    for x in sorted(order_notes)[:3]:
        V.log("note: effect-free calls in another order than Model/FsProto.v: " + x)

    if not proved and not ctx.violations:
        ctx.violation("proof obligation of C16 no longer checks: " + (ctx.broken or "Props/C16.v"),
                      {"no_failing_input": True, "broken": ctx.broken,
                       "searched": "%d inputs x fault scenarios (%d runs): file always original or formatted, unchanged on failure" % (len(inputs), len(mreqs))})
    ctx.samples = [{"label": m[0]["label"], "scenario": m[0]["scenario"], "exit": m[1], "ops": ",".join(m[4] or ["(not traced)"])} for m in mchecks[:: max(1, len(mchecks) // 8)]][:10]
    ctx.coverage.update({
        "evaluations": evaluations,
        "distinct_nontrivial": len(distinct),
        "inputs": len(inputs), "input_classes": classes,
        "scenarios": dict(sorted(scen_count.items())), "runs_with_faults": len(mreqs),
        "ops_agree": agree_ops, "state_agree": agree_state,
        "file_kinds": kind_class, "successful_rewrites_compared_as_trees": len(pairs), "trees_same": tree_same,
        "statements_in_compared_trees": tree_statements,
        "target_kinds_and_offset_sweep": kstats, "multi_file_invocations": multi_runs,
        "effect_free_order_differences": sorted(order_notes)[:5], "kill_injections_that_missed": misfires, "runs_retried_after_a_stall": retried_hangs,
        "generator_stats": dict(sorted(g.stats.items())[:40]),
    })
    return ctx.finish(
        level="proof",
        rule="theorems of coq/Props/C16.v (every formatter outcome, fault assignment and crash point); correspondence at process level: "
             "corpus + repository files + generated programs / snippets / truncated programs + kinds of file content (statement-only "
             "with include, mixed, blank, comment-only, ...), each under every fault scenario; every successful rewrite compared "
             "with the original as a tree "
             "(distinct = distinct file content)")
