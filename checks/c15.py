"""C15 - formatting keeps every comment.

proof  : coq/Props/C15.v over the token-stream model (every comment exactly once, in order, text
         unchanged behind the marker; marker restyle keeps a comment a comment and never touches
         #FASTLY)
tie    : C  comments and their positions among the tokens of format c src = those of
            norm c (tokens src) (real Go lexer on both sides)
oracle : on the implementation alone: the sequence of COMMENT tokens of the source (restyled as the
         option documents) equals the sequence of COMMENT tokens of the formatted text, for programs
         decorated with #, // and /* */ comments at the placeholders docs/parser.md documents
         (gen/decorate.py SLOTS_DOC), incl. #FASTLY macros, falco-ignore*, @scope annotations
"""
import vcommon as V
import fmt_util as F
from gen import decorate

ASPECTS = ("comments", "tokens_com", "tokens_order", "crash", "decorated-unparseable")


def run(ctx):
    thorough = ctx.thorough()
    proved = ctx.prove()
    ctx.trusted += F.TRUSTED
    p = F.Pipeline(ctx, "C15", n_gen=9000 if thorough else 420, n_random=6 if thorough else 3)
    seen = p.report(ASPECTS)
    if not proved and not ctx.violations:
        ctx.violation("proof obligation of C15 no longer checks: " + (ctx.broken or "Props/C15.v"),
                      {"no_failing_input": True, "broken": ctx.broken,
                       "searched": "%d program x configuration pairs: comment sequence kept" % len(p.pairs)})
    ctx.samples = p.samples()
    cov = p.coverage()
    used = set(cov.get("decorator_slots_used", {}))
    cov.update({"documented_slots": len(decorate.SLOTS_DOC), "documented_slots_hit": len(used & set(decorate.SLOTS_DOC)),
                "documented_slots_not_hit": sorted(set(decorate.SLOTS_DOC) - used), "failures_by_kind": seen})
    ctx.coverage.update(cov)
    return ctx.finish(
        level="proof",
        rule="theorems of coq/Props/C15.v (unbounded) + comment-sequence oracle and correspondence on every .vcl file of "
             "the repository (as is, and decorated) x default + every single-option flip, focus programs, grammar-generated "
             "programs decorated at random subsets of the documented placeholders x sampled configurations; "
             "1-3 comments per placeholder in mixed styles and positions (previous line / own line / same line, empty lines around), exhaustively every placeholder x 10 patterns; SCALE (gen/fmt_scale: one token / output line of 4 KiB, 64 KiB - 1, 64 KiB, 64 KiB + 1, 200 KiB as quoted / long / multi-line string, comment, identifier; conditions, concatenations and argument lists with 300 operands; 300 statements, else-if branches, cases, properties, entries, declarations; nesting 60 - always next to runs of empty lines); COMMENT TEXT (gen/decorate hostile alphabet, 22 line + 22 block classes: multi-line blocks with / without stars, indented, trailing blanks, empty lines; line comments containing or ending in /* */ // # \\\\; code; empty; > 4 KiB; tabs; multi-byte - every placeholder x one class of each family, every condition / branch placeholder of a compound-condition template x every class, own line and line of the previous token); SHAPES (gen/fmt_shapes: if alone / + else / + 1-3 else-if with and without else in every spelling, empty bodies, nested; switch with 1-3 cases +- default; sub with 0-2 statements; acl / backend / director / table with 0-3 entries, probe and backend objects; files of 1-3 declarations - 79 shapes x one comment at EVERY placeholder of the shape in block and line style, own line and line of the previous token, exhaustive); RUNS OF EMPTY LINES (gen/fmt_blank: 0-8 empty / blank-only / tab-only lines at 35 places - inside block comments at every kind of position, inside long strings, between declarations / statements / properties / entries / cases / branches, at the start and end of the file, around braces - exhaustive x 3 configurations that post-process lines); distinct = distinct (source, configuration); per-dimension counts in coverage.dimensions")
