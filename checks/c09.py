"""C09 - comments and layout never change what a program means.

proof  : coq/Props/C09.v (pump_strip, annotations_stable, parse_core_inert over Model/Decor.v;
         rendered_text_refuted; string_sites_audited over Gen/StringSites.v)
tie    : T  Gen/StringSites.v: call sites of .String() on ast.Node values (go/types) in parser/, linter/,
            interpreter/, tester/ outside error-message construction = the audited list
         C  extracted Model/Decor.v on the real lexer's token stream (implrun lex9): significant tokens and
            annotations of every decorated variant equal those of the program
oracle : on the implementation: for a program and >= 20 decorated variants (comments at every gap between
         tokens incl. inside return ( ... ), around operators, between else and if, in argument lists and
         switch cases; blank lines, indentation, line breaks) (a) the comment-erased AST is identical,
         (b) the linter's diagnostics are identical apart from line/column, (c) the simulator's flows, logs,
         variables recorded in the flows and the response are identical.
"""
import json
import os
import re
from collections import Counter

import vcommon as V
from gen import decor_gen as DG


def corpus_cases():
    """corpus/C09/<name>/{base.vcl, v*.vcl}: a program and decorated variants kept from earlier findings"""
    d = os.path.join(V.VERIF, "corpus", "C09")
    out = []
    if os.path.isdir(d):
        for fn in sorted(os.listdir(d)):
            p = os.path.join(d, fn)
            if os.path.isdir(p) and os.path.exists(os.path.join(p, "base.vcl")):
                base = open(os.path.join(p, "base.vcl")).read()
                vs = [open(os.path.join(p, f)).read() for f in sorted(os.listdir(p)) if f.startswith("v") and f.endswith(".vcl")]
                out.append(("corpus/" + fn, base, vs))
    return out


def lint_ms(rep):
    o = json.loads(rep)
    return o["parse"] != "", o["fatal"] != "", Counter((d[0], d[1], d[5]) for d in o["diags"])


_LOC = re.compile(r"line: ?\d+, position: ?\d+|line \d+, position \d+|main\.vcl:\d+")


def scrub(rep):
    """locations inside runtime error texts are positions, not behaviour"""
    return _LOC.sub("<loc>", rep) if rep else rep


def bad(rep):
    return rep is None or rep.startswith(("hang", "died", "crash", "skipped", "badreq"))


def run(ctx):
    rng = ctx.rng
    thorough = ctx.thorough()
    proved = ctx.prove()
    with V.Lock("build"):
        model = V.driver("decor")
    impl = lambda c: [os.path.join(V.BUILD, "implrun"), c]
    # one loopback port for every simulate process of this run (the port is part of the program text)
    import socket
    sk = socket.socket()
    sk.bind(("127.0.0.1", 0))
    sim_env = dict(os.environ, INERT_BACKEND_PORT=str(sk.getsockname()[1]))
    sk.close()
    ctx.trusted += [
        "Coq 8.16.1 kernel; axioms: none (Print Assumptions of every theorem of Props/C09.v: Closed under the global context)",
        "extraction: ExtrOcamlBasic only; OCaml 4.13.1; ocaml/common.ml + ocaml/decor_main.ml",
        "translator harness/cmd/trans/string_sites.go: go/types with falco's packages checked from source, the standard library from GOROOT sources, third-party modules replaced by empty packages (type errors ignored); the error-message classification is syntactic (enclosing call named Errorf/New/Runtime/..., a `Message:` field, a function returning *LintError / *exception.Exception); String methods of wrapper types are not followed transitively; implicit rendering through fmt verbs is detected only for direct arguments",
        "harness/cmd/implrun/inert_decor.go: reflection dump of the AST without Meta/Comments/Token positions (ast9), classification of annotation comments (lex9: '@', 'falco-ignore', '#FASTLY'), process report of interpreter.ServeHTTP without file/line/position, timings and volatile headers (simulate); inert_lint.go (lint src)",
        "modelled not verified: Model/Decor.v (ReadPeek's treatment of LF / COMMENT tokens) is a hand transcription tied by the lex9 run; the parser core, the linter and the interpreter are NOT modelled: that they read only significant tokens and annotations is established by the audited String-site list plus the differential oracle (a)(b)(c), not by proof",
        "not covered: FASTLY_CONTROL / pragma tokens, falco-ignore directives (C12), @plugin annotations, tester metadata comments, remote snippets, the hash director (cannot be selected in the simulator today)",
    ]
    g = DG.DecorGen(rng)
    n_prog = 3000 if thorough else 130
    n_var = 60 if thorough else 30
    cases = []      # (label, base source, [(style, variant source)])
    for label, base, vs in corpus_cases():
        cases.append((label, base, [("corpus", v) for v in vs], False))
    for i in range(n_prog):
        inject = (i % 3 == 0)
        toks = g.program(inject=inject)
        base = DG.render(toks, DG.base_gaps(toks))
        vs = []
        for k in range(n_var):
            style = DG.STYLES[k % len(DG.STYLES)]
            vs.append((style, DG.variant(toks, rng, style)))
        cases.append(("gen-%d%s" % (i, "-inject" if inject else ""), base, vs, inject))
    # flat request list: index 0 of each case is the base program
    flat = []
    for ci, (label, base, vs, inject) in enumerate(cases):
        flat.append((ci, "base", base))
        for style, v in vs:
            flat.append((ci, style, v))
    hexes = [s.encode().hex() for _, _, s in flat]
    r_ast = V.run_batch(impl("ast9"), hexes, hang_s=10)
    r_lint = V.run_batch(impl("lint"), ["src " + h for h in hexes], hang_s=10)
    r_lex = V.run_batch(impl("lex9"), hexes, hang_s=10)
    r_sim = [scrub(x) for x in V.run_batch(impl("simulate"), hexes, hang_s=20, env=sim_env)]
    # base programs simulated a second time: fields that differ between two runs of the SAME text are not compared
    base_idx = [i for i, (ci, st, s) in enumerate(flat) if st == "base"]
    r_sim2 = dict(zip(base_idx, [scrub(x) for x in V.run_batch(impl("simulate"), [hexes[i] for i in base_idx], hang_s=20, env=sim_env)]))
    r_model = V.run_batch([model], ["pump " + (x or "") for x in r_lex], hang_s=30)

    stats = Counter()
    style_count = Counter()
    diag_rules = Counter()
    sim_outcomes = Counter()
    diff_sig = Counter()
    sim_errors = Counter()
    nontrivial = set()
    cur = {}
    for i, (ci, style, src) in enumerate(flat):
        label = cases[ci][0]
        a, l, x, s, m = r_ast[i], r_lint[i], r_lex[i], r_sim[i], r_model[i]
        for name, rep in (("ast9", a), ("lint", l), ("lex9", x)):
            if bad(rep):
                stats["harness-bad"] += 1
                ctx.violation("%s %s on %s (%s)" % (name, (rep or "no reply")[:120], label, style),
                              {"source": src, "reply": rep}, {"kind": name + "-" + (rep or "none").split()[0]})
        if bad(a) or bad(l) or bad(x):
            continue
        if style == "base":
            cur = {"ci": ci, "ast": a, "lint": lint_ms(l), "model": m, "sim": s, "src": src,
                   "sim_stable": (not bad(s)) and r_sim2.get(i) == s}
            stats["programs"] += 1
            if a.startswith("parseerr"):
                stats["base_parse_rejected"] += 1
            for k in cur["lint"][2]:
                diag_rules[k[0] or "(no rule)"] += 1
            if not bad(s):
                try:
                    rep = json.loads(s)["report"]
                    if isinstance(rep, dict) and rep.get("error"):
                        sim_errors[re.sub(r"[0-9]+", "N", rep["error"])[:70]] += 1
                    sim_outcomes["error" if (isinstance(rep, dict) and rep.get("error")) or not isinstance(rep, dict) else "completed"] += 1
                except ValueError:
                    sim_outcomes["unparsed"] += 1
            else:
                sim_outcomes[(s or "none").split()[0]] += 1
            if not cur["sim_stable"]:
                stats["sim_unstable_base"] += 1
            continue
        if cur.get("ci") != ci:
            continue
        style_count[style] += 1
        stats["variants"] += 1
        nontrivial.add(src)
        rp = {"program": cur["src"], "variant": src, "style": style}
        # model: the variant is a decoration of the program as Model/Decor.v sees the real token streams
        if m != cur["model"] or not (m or "").startswith("ok"):
            stats["model_diff"] += 1
            ctx.violation("significant tokens / annotations of a decorated variant differ from the program's (Model/Decor.v on the lexer's tokens) (%s, %s)" % (label, style),
                          dict(rp, model_program=(cur["model"] or "")[:600], model_variant=(m or "")[:600]), {"kind": "model-diff"})
        else:
            stats["model_agree"] += 1
        # (a)
        if a != cur["ast"]:
            stats["ast_diff"] += 1
            ctx.violation("comment-erased AST of a decorated variant differs from the program's (%s, %s)" % (label, style),
                          dict(rp, ast_program=cur["ast"][:1500], ast_variant=a[:1500]), {"kind": "ast-diff"})
            continue
        stats["ast_agree"] += 1
        # (b)
        lm = lint_ms(l)
        if lm != cur["lint"]:
            stats["lint_diff"] += 1
            only_p = [list(k) for k in (cur["lint"][2] - lm[2])][:8]
            only_v = [list(k) for k in (lm[2] - cur["lint"][2])][:8]
            for k in only_p[:1] + only_v[:1]:
                diff_sig["lint: %s | %s" % (k[0], k[2][:60])] += 1
            ctx.violation("linter diagnostics of a decorated variant differ from the program's (%s, %s): %s" % (label, style, (only_p or only_v)[:1]),
                          dict(rp, only_program=only_p, only_variant=only_v), {"kind": "lint-diff"})
        else:
            stats["lint_agree"] += 1
        # (c)
        if bad(s) != bad(cur["sim"]):
            stats["sim_diff"] += 1
            ctx.violation("simulator %s on a decorated variant only (%s, %s)" % ((s or cur["sim"] or "")[:100], label, style),
                          dict(rp, sim_program=(cur["sim"] or "")[:800], sim_variant=(s or "")[:800]), {"kind": "sim-crash-diff"})
        elif cur["sim_stable"]:
            if s != cur["sim"]:
                stats["sim_diff"] += 1
                diff_sig["sim: " + _diff(cur["sim"], s)[1][180:260]] += 1
                ctx.violation("simulation of a decorated variant differs from the program's (%s, %s)" % (label, style),
                              dict(rp, sim_program=_diff(cur["sim"], s)[0], sim_variant=_diff(cur["sim"], s)[1]), {"kind": "sim-diff"})
            else:
                stats["sim_agree"] += 1
    if not proved and not ctx.violations:
        ctx.violation("proof obligation of C09 no longer checks: " + (ctx.broken or "Props/C09.v"),
                      {"no_failing_input": True, "broken": ctx.broken,
                       "searched": "%d programs x %d decorated variants: AST, diagnostics and simulation unchanged" % (stats["programs"], n_var)})
    ctx.samples = [{"program": cases[i][1][:300], "variant_" + cases[i][2][j][0]: cases[i][2][j][1][:300]}
                   for i, j in ((len(cases) - 1, 0), (len(cases) // 2, 1), (len(cases) - 1, 15)) if cases[i][2][j:j + 1]]
    ctx.coverage.update({
        "evaluations": stats["variants"] * 4 + stats["programs"] * 5,
        "distinct_nontrivial": len(nontrivial),
        "programs": stats["programs"], "variants": stats["variants"], "variants_per_program": n_var,
        "base_parse_rejected": stats["base_parse_rejected"],
        "model_agree": stats["model_agree"], "ast_agree": stats["ast_agree"], "lint_agree": stats["lint_agree"],
        "sim_agree": stats["sim_agree"], "sim_unstable_base_programs": stats["sim_unstable_base"],
        "diffs": {k: stats[k] for k in ("model_diff", "ast_diff", "lint_diff", "sim_diff", "harness-bad")},
        "diff_signatures": dict(diff_sig.most_common(25)),
        "simulation_errors_of_programs": dict(sim_errors.most_common(15)),
        "decoration_styles": dict(style_count), "simulation_outcomes_of_programs": dict(sim_outcomes),
        "diagnostic_rules_of_programs": dict(diag_rules.most_common(40)), "generator_stats": dict(sorted(g.stats.items())),
    })
    return ctx.finish(
        level="proof",
        rule="theorems of coq/Props/C09.v over Model/Decor.v (every token stream, every decoration) + regenerated String-site audit; "
             "oracle: seeded token-list programs from gen/decor_gen.py (1/3 with injected lint errors) x %d decorated variants "
             "(distinct = variant source text); styles: comments in every gap, line comments in every gap, newlines everywhere, "
             "one line, tabs, sparse / dense / mixed random, focused on parentheses, operators, else-if, argument lists, switch cases" % n_var)


def _diff(a, b):
    """first differing region of two strings"""
    n = min(len(a), len(b))
    i = 0
    while i < n and a[i] == b[i]:
        i += 1
    lo = max(0, i - 200)
    return a[lo:i + 300], b[lo:i + 300]
