"""C05 - Linter, reference tables and simulator agree on types, scopes and signatures.

proof  : coq/Props/C05.v - finite products enumerated completely (vm_compute on forallb over the
         regenerated tables, lifted with forallb_forall; domains named in the statements) + unbounded
         lemmas about scope masks (mask_all_iff, mask_some_iff, multi_scope_exact for ANY mask).
tie    : T  harness/cmd/trans/tables.go  -> Gen/LintConsts LintVars LintDyn LintFuncs RefVars RefFuncs InterpFuncs
         O  harness/cmd/implrun/tables.go -> Gen/ObsVars ObsFuncs ObsStmts ObsOps: the REAL linter and the REAL
            simulator run on every cell (one-use program linted and executed; linter context called directly
            for the lookup model; simulator value types), on every run, batched in-process
         known gaps: Gen/KnownGaps.v generated from the `known: property=C05` lines
oracle : on the implementation alone (no model): a cell the linter accepts must execute in the simulator
         (Model/TablesGaps.v computes the rows `lint & ~interp` from the O tables; every row is reported).
"""
import collections
import os
import vcommon as V
import tables_util as T

MODEL_KINDS = {"opv-lint", "opv-interp", "var-interp-regen", "opl-model", "opl-interp-model", "coerce-model", "coerce-interp-model", "inferred-model", "inferred-interp", "op-interp-model", "var-model", "func-model", "stmt-model", "op-model", "var-wide-model", "func-wide-model", "stmt-wide-model"}


def run(ctx):
    thorough = ctx.thorough()
    # ---- regenerate T tables, run the observation (O), write Gen/Obs*.v and Gen/KnownGaps.v
    with V.Lock("build"):
        V.build_go()
        V.regen()
    import time as _t
    _t0 = _t.time()
    obs = T.observe("thorough" if thorough else "quick")
    V.log("c05: observation %.1fs" % (_t.time() - _t0)); _t0 = _t.time()
    with V.Lock("build"):
        T.write_obs(obs)
        T.write_known_gaps()
    proved = ctx.prove(targets=["Model/TablesGaps.vo"])
    V.log("c05: prove %.1fs" % (_t.time() - _t0)); _t0 = _t.time()
    ctx.trusted += [
        "Coq 8.16.1 kernel (coqc; vm_compute is the proof method of the finite-table theorems, as the property's domain is finite and completely enumerated; no native_compute)",
        "axioms: none (Print Assumptions of every theorem of Props/C05.v: Closed under the global context)",
        "translator harness/cmd/trans/tables.go (go/ast + gopkg.in/yaml.v3): composite literals of predefined.go / builtin.go / dynamic.go / builtin_functions.go, const blocks, Type.String(), ValueTypeMap; cross-checked by O (the lookup model over the translated tree equals the real linter context on every cell)",
        "harness/cmd/implrun/tables.go: construction of the one-use programs (preamble declarations, one well-typed value per type, hand table of ID arguments), severity filter (a cell is rejected iff the linter reports a diagnostic of severity ERROR), classification of simulator errors by message text into type/undef/scope/arity/crash/value ('value' = run-time value error such as a malformed base64 argument: counted as executing)",
        "the simulator is driven as `falco test` drives it (TestProcessInit + ProcessTestSubroutine per scope); return(action) cells run the real Process<Scope> state machine against an in-process loopback backend",
        "ref_assign / ref_stmt (Model/LintOps.v): the Fastly assignment type table and statement scopes transcribed by hand from the documentation falco cites; independent of the linter in form (data rows), not in source",
        "built-in function bodies are black boxes over their declared signatures (one argument vector per signature)",
    ]

    # ---- corpus: the minimised inputs of the repaired defects, checked first
    corpus = []
    cpath = os.path.join(V.VERIF, "corpus", "C05", "fixed_cells.txt")
    if os.path.exists(cpath):
        for line in open(cpath):
            f = line.split()
            if len(f) == 3 and not line.startswith("#"):
                corpus.append(f)
    creps = V.run_batch(T.impl(), ["cell " + c[0] for c in corpus], hang_s=30) if corpus else []
    for (spec, elint, einterp), rep in zip(corpus, creps):
        f = (rep or "").split()
        ok = len(f) == 3 and (elint == "-" or f[0] == elint) and (einterp == "-" or f[1] == einterp)
        if not ok:
            ctx.violation("C05 corpus cell %s: expected linter %s / simulator %s, observed %s (a repaired defect is back)" % (spec, elint, einterp, rep),
                          {"cell": spec, "observed": T.show(spec) if rep and not rep.startswith(("died", "hang")) else rep,
                           "replay_cmd": "printf '0\\tshow %s\\n' | build/implrun c05" % spec})

    # ---- cells must not influence each other: fresh process per cell vs the end of a long-lived process
    n_fresh, fresh_diffs = T.fresh_process_check(ctx.rng)
    for spec, a, b in fresh_diffs[:10]:
        ctx.violation("C05 the verdict of cell %s depends on what the process ran before: fresh process '%s', after 630 statement cells '%s'" % (spec, a, b),
                      {"cell": spec, "fresh": a, "long_lived": b,
                       "replay_cmd": "printf '0\\tshow %s\\n' | build/implrun c05" % spec})

    # ---- harness integrity: every cell must have produced a verdict
    for req, rep in obs.bad[:20]:
        ctx.violation("the real linter/simulator did not answer on a cell (%s): %s" % (req, (rep or "no reply")[:160]),
                      {"request": req, "reply": rep}, {"kind": "no-verdict", "name": req})

    # ---- the disagreeing cells, computed by Coq from the regenerated tables
    V.log("c05: corpus + fresh %.1fs" % (_t.time() - _t0)); _t0 = _t.time()
    rows, sizes, log = T.gap_rows()
    V.log("c05: gap rows %.1fs" % (_t.time() - _t0)); _t0 = _t.time()
    kinds = collections.Counter()
    if rows is None:
        ctx.obligation("Model/TablesGaps.v evaluates", False, (log or "")[-400:])
        ctx.violation("C05: the disagreeing rows could not be computed (coqc on Model/TablesGaps.v failed or timed out)",
                      {"no_failing_input": True, "broken": "Model/TablesGaps.v", "log": (log or "")[-800:]})
        rows, sizes = [], {}
    else:
        specs = [T.first_cell(r) for r in rows]
        shows = T.parallel_batch(["show " + s for s in specs if s])
        it = iter(shows)
        for r, s in zip(rows, specs):
            kinds[r["kind"]] += 1
            replay = {"row": r}
            if s:
                replay["cell"] = s
                replay["observed"] = next(it)
                replay["replay_cmd"] = "printf '0\\tshow %s\\n' | build/implrun c05" % s
            facts = None if r["kind"] in MODEL_KINDS else {"kind": r["kind"], "name": r["name"], "at": r["at"], "bits": r["bits"]}
            ctx.violation("C05 " + T.describe(r), replay, facts)
    if not proved and not ctx.violations:
        ctx.violation("proof obligation of C05 no longer checks: " + (ctx.broken or "Props/C05.v"),
                      {"no_failing_input": True, "broken": ctx.broken,
                       "searched": "%d cells observed, %d disagreeing rows, all of them recorded known findings" % (obs.cells, len(rows))})

    # ---- evidence
    classes = {"vars": collections.Counter(), "funcs": collections.Counter(), "stmts": collections.Counter(), "ops": collections.Counter()}
    accepted = 0
    classes["coerce"] = collections.Counter()
    classes["opsleft"] = collections.Counter()
    classes["variants"] = collections.Counter()
    classes["inferred"] = collections.Counter()
    for name, table in (("vars", obs.vars), ("funcs", obs.funcs), ("stmts", obs.stmts), ("ops", obs.ops),
                        ("variants", obs.variants), ("opsleft", obs.opsleft), ("coerce", obs.coerce), ("inferred", obs.inferred + obs.inferred3)):
        for r in table:
            for l, i in zip(r["lint"], r["interp"]):
                if i is None:
                    continue
                classes[name]["%s/%s" % ("accept" if l else "reject", i)] += 1
                accepted += 1 if l else 0
    cells = {
        "variable cells (name x op x 45 masks)": sum(1 for r in obs.vars for x in r["interp"] if x is not None),
        "linter-context cells (direct Get/Set/Unset)": sum(1 for r in obs.vars for x in r["ctx"] if x is not None),
        "variable type cells (name x 9 scopes)": 9 * sum(1 for r in obs.vars if r["op"] == "get"),
        "function cells (signature x 45 masks)": sum(1 for r in obs.funcs for x in r["interp"] if x is not None),
        "statement cells (kind x 45 masks)": sum(1 for r in obs.stmts for x in r["interp"] if x is not None),
        "operator cells (23 ops x 10 types x existing value type / 14 forms)": sum(1 for r in obs.ops for x in r["interp"] if x is not None),
        "operator cells with a provenance of the left operand (23 ops x types x 6 provenances x lit/local value)": sum(1 for r in obs.opsleft for x in r["interp"] if x is not None),
        "operator cells with other literal spellings / header sub-field (23 ops x 10 types x 10 variants)": sum(1 for r in obs.variants for x in r["interp"] if x is not None),
        "identifier-argument cells (built-ins with an ID argument + add x %d identifiers x 9 scopes, strict)" % len(T.ID_IDENTS): sum(1 for r in obs.idargs for x in r["interp"] if x is not None),
        "coercion cells (3 contexts x 9 expected types x existing value type/form)": sum(1 for r in obs.coerce for x in r["interp"] if x is not None),
        "inferred-scope cells (use x depth 1..3 x 36 pairs of lifecycle subs)": sum(1 for r in obs.inferred for x in r["interp"] if x is not None),
        "inferred-scope cells (use x 84 triples, thorough)": sum(1 for r in obs.inferred3 for x in r["interp"] if x is not None),
        "wide-annotation cells (rows x %d masks of 3..9 scopes, linter only)" % len(obs.wide_masks): getattr(obs, "wide_cells", 0),
    }
    ctx.samples = [{"cell": s, "observed": T.show(s)} for s in
                   ("V,req.http.X-Verif-One,set,%d" % T.MASKS[9], "F,resp.tarpit,0,%d" % T.MASKS[16], "S,return:deliver_stale,64",
                    "O,+=,RTIME,FLOAT,lit", "O,=,STRING,BACKEND,plit", "C,arg,STRING,BACKEND,plit", "IV,resp.http.X-Verif-One,set,2,160")]
    ctx.coverage.update({
        "exhaustive": True,
        "evaluations": sum(cells.values()),
        "distinct_nontrivial": accepted,
        "cells": cells,
        "programs_executed_in_simulator": obs.programs_run,
        "domain_sizes_from_coq": sizes,
        "wildcard_instantiations": obs.http_names,
        "verdict_histogram": {k: dict(v) for k, v in classes.items()},
        "disagreeing_rows": dict(kinds),
        "corpus_cells": len(corpus),
        "fresh_process_cells_compared": n_fresh,
        "fresh_process_differences": len(fresh_diffs),
        "known_lines": len(ctx.known),
        "known_lines_hit": sum(1 for k in ctx.known if k["hit"]),
    })
    return ctx.finish(
        level="proof",
        rule="theorems of coq/Props/C05.v: unbounded for scope masks; for the tables, vm_compute over the completely "
             "enumerated finite products (domains = every predefined variable of the regenerated linter table x "
             "{get,set,unset}, every built-in x its declared signatures, 14 scope-restricted statements, each x 9 scopes "
             "+ 36 two-scope annotations; 23 operators x 10 target types x existing (value type, form) cells); "
             "distinct_nontrivial = cells accepted by the linter (the hypothesis of the inclusion theorems)")
