"""C14 - formatting is idempotent.

proof  : coq/Props/C14.v over the token-stream model (norm reaches its normal form in one pass;
         comment markers are restyled once)
tie    : C  tokens(format c src) = norm c (tokens src) (the same correspondence as C03), and the
            extracted model evaluated twice on every input: norm c (norm c ts) = norm c ts
oracle : on the implementation alone, every input x configuration: format(format s) = format s byte
         for byte; the same source formatted twice in one process and once more in a second process
         gives identical bytes
"""
import vcommon as V
import fmt_util as F

ASPECTS = ("f2", "det", "det2", "model_idem", "crash")


def run(ctx):
    thorough = ctx.thorough()
    proved = ctx.prove()
    ctx.trusted += F.TRUSTED
    p = F.Pipeline(ctx, "C14", n_gen=9000 if thorough else 420, n_random=6 if thorough else 3)
    n2 = p.second_process(len(p.ok) if thorough else 1500)
    n_idem, bad = p.model_idempotence()
    for i in bad:
        p.add(i, "model_idem", "the token model is not idempotent on this input: norm c (norm c ts) <> norm c ts")
    seen = p.report(ASPECTS)
    if not proved and not ctx.violations:
        ctx.violation("proof obligation of C14 no longer checks: " + (ctx.broken or "Props/C14.v"),
                      {"no_failing_input": True, "broken": ctx.broken,
                       "searched": "%d program x configuration pairs: format(format s) = format s" % len(p.pairs)})
    ctx.samples = p.samples()
    cov = p.coverage()
    cov.update({"second_process_compared": n2, "model_norm_twice_evaluated": n_idem, "failures_by_kind": seen})
    ctx.coverage.update(cov)
    return ctx.finish(
        level="proof",
        rule="theorems of coq/Props/C14.v (unbounded) + double-format oracle on the implementation for every "
             ".vcl file of the repository x default + every single-option flip (exhaustive), focus programs, "
             "grammar-generated programs with leading / trailing / infix comments, empty-line groups, long wrapping "
             "expressions and trailing comments to align x sampled configurations; declaration-heavy programs x every pair of the six declaration options; whitespace-rich string literals; SCALE (gen/fmt_scale: one token / output line of 4 KiB, 64 KiB - 1, 64 KiB, 64 KiB + 1, 200 KiB as quoted / long / multi-line string, comment, identifier; conditions, concatenations and argument lists with 300 operands; 300 statements, else-if branches, cases, properties, entries, declarations; nesting 60 - always next to runs of empty lines); COMMENT TEXT (gen/decorate hostile alphabet, 22 line + 22 block classes: multi-line blocks with / without stars, indented, trailing blanks, empty lines; line comments containing or ending in /* */ // # \\\\; code; empty; > 4 KiB; tabs; multi-byte - every placeholder x one class of each family, every condition / branch placeholder of a compound-condition template x every class, own line and line of the previous token); SHAPES (gen/fmt_shapes: if alone / + else / + 1-3 else-if with and without else in every spelling, empty bodies, nested; switch with 1-3 cases +- default; sub with 0-2 statements; acl / backend / director / table with 0-3 entries, probe and backend objects; files of 1-3 declarations - 79 shapes x one comment at EVERY placeholder of the shape in block and line style, own line and line of the previous token, exhaustive); RUNS OF EMPTY LINES (gen/fmt_blank: 0-8 empty / blank-only / tab-only lines at 35 places - inside block comments at every kind of position, inside long strings, between declarations / statements / properties / entries / cases / branches, at the start and end of the file, around braces - exhaustive x 3 configurations that post-process lines); distinct = distinct (source, configuration); per-dimension counts in coverage.dimensions")
