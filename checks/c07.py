"""C07 - Expressions and assignments compute what VCL semantics prescribe.

proof  : coq/Props/C07.v  (ACL: impl = spec, order independence, host default; operators: duality,
         not-set laws, arithmetic/bitwise/shift/rotate laws over Model/Val.v, Assign.v, Oper.v)
tie    : C  extracted model (build/modelrun_eval) vs the real interpreter
            implrun acl      : ACL declared in a main VCL, `if (var.ip ~ a)` executed by the interpreter
            implrun evalcell : one `set` statement / one infix expression per cell (operator x type pair x
                               operand pair x literal|variable), executed by ProcessSetStatement /
                               ProcessExpression of a real interpreter
            implrun evalprog : whole programs executed by ProcessBlockStatement, compared with Model/Eval.v
            implrun evalseries : concatenation series of 1-5 operands in both contexts, compared with Model/Concat.v
oracle : on the implementation alone: ACL verdict = python longest-prefix reference, verdict invariant
         under shuffling; duality of the comparison operators on the implementation's own answers.
"""
import os
import vcommon as V
import eval_util as EU
from gen import aclgen, evalgen, proggen, seriesgen, rebindgen, regroupgen, rwgen


def _acl_requests(rng, n_acl, stats):
    cases = []
    for _ in range(n_acl):
        es = aclgen.gen_acl(rng, stats)
        ps = aclgen.probes(rng, es, stats)
        cases.append((es, ps))
    return cases


def _acl_corpus():
    """minimised failing inputs of the defects repaired in operator.matchesAcl (run first)"""
    E = aclgen.Entry
    ten8 = E(False, 4, 10 << 24, 8)
    neg16 = E(True, 4, (10 << 24) | (1 << 16), 16)
    host = E(False, 4, (10 << 24) | (1 << 16) | (2 << 8) | 3, None)
    v6host = E(False, 6, 0x20010DB8 << 96 | 1, None)
    return [
        ([neg16], [(4, 11 << 24 | 1)]),                                   # outside a negated entry
        ([ten8, neg16], [(4, (10 << 24) | (1 << 16) | 1)]),               # inside a negated entry, enclosing first
        ([neg16, ten8, host], [(4, (10 << 24) | (1 << 16) | (2 << 8) | 3), (4, (10 << 24) | 1)]),
        ([v6host], [(6, 0x20010DB8 << 96 | 2), (6, 0x20010DB8 << 96 | 1)]),  # bare IPv6 host is /128
    ]


def run_acl(ctx, model, impl, thorough):
    rng = ctx.rng
    stats = {}
    cases = _acl_corpus() + _acl_requests(rng, 4000 if thorough else 450, stats)
    n_random = len(cases)
    # exhaustive toy family: every ACL of <= k entries over 10.0.0.0/(32-b) x every address of it
    b, k = (4, 3) if thorough else (3, 3)
    toy = aclgen.toy_entries(b)
    toy_addrs = [(4, (10 << 24) | i) for i in range(1 << b)]
    import itertools
    toy_cases = []
    for n in range(0, k + 1):
        for combo in itertools.product(toy, repeat=n):
            toy_cases.append((list(combo), toy_addrs))
    cases += toy_cases
    ireq, mreq = [], []
    for es, ps in cases:
        et = ",".join(e.text() for e in es) or "-"
        em = ",".join(e.model() for e in es) or "-"
        ireq.append("%s %s" % (et, ",".join(aclgen.addr_text(f, b_) for f, b_ in ps)))
        mreq.append("acl %s %s" % (em, ",".join("%d:%x" % (f, b_) for f, b_ in ps)))
    # order independence on the implementation: the same ACL reversed / shuffled
    perm_req, perm_of = [], []
    for idx, (es, ps) in enumerate(cases[:n_random]):
        if len(es) >= 2:
            sh = list(es)
            rng.shuffle(sh)
            perm_req.append("%s %s" % (",".join(e.text() for e in sh), ",".join(aclgen.addr_text(f, b_) for f, b_ in ps)))
            perm_of.append(idx)
    irep = EU.run_sharded(impl + ["acl"], ireq + perm_req, hang_s=10)
    mrep = EU.run_sharded([model], mreq, hang_s=60)
    probes = agree = 0
    outcomes = {}
    distinct = set()
    for idx, ((es, ps), ir, mr) in enumerate(zip(cases, irep, mrep)):
        what = None
        replay = {"acl": [e.text() for e in es], "probes": [aclgen.addr_text(f, b_) for f, b_ in ps], "impl": ir, "model": mr}
        if ir is None or ir.startswith(("hang", "died", "crash", "initerr", "badreq", "skipped")):
            ctx.violation("ACL match %s: %s" % ((ir or "no reply").split()[0], " ".join(replay["acl"])), replay)
            continue
        iv = ir.split()[1:]
        mv = (mr or "").split()[1:]
        pv = [aclgen.spec(es, f, b_) for f, b_ in ps]
        for j, (f, b_) in enumerate(ps):
            probes += 1
            r = iv[j] if j < len(iv) else "missing"
            outcomes[r] = outcomes.get(r, 0) + 1
            distinct.add((tuple(e.key() for e in es), f, b_))
            if r != pv[j]:
                what = "ACL verdict differs from the documented longest-prefix meaning: acl {%s} ~ %s gives %s, reference %s" % (
                    "; ".join(replay["acl"]), aclgen.addr_text(f, b_), r, pv[j])
            elif j >= len(mv) or r != mv[j]:
                what = "ACL verdict differs between operator.matchesAcl and Model/Acl.v impl_match: acl {%s} ~ %s impl %s model %s" % (
                    "; ".join(replay["acl"]), aclgen.addr_text(f, b_), r, mv[j] if j < len(mv) else "missing")
            else:
                agree += 1
                continue
            replay["probe"] = aclgen.addr_text(f, b_)
            break
        if what:
            ctx.violation(what, replay)
    for idx, pr in zip(perm_of, irep[len(ireq):]):
        if pr != irep[idx]:
            es, ps = cases[idx]
            ctx.violation("ACL verdict depends on the order of the entries: acl {%s}" % "; ".join(e.text() for e in es),
                          {"acl": [e.text() for e in es], "probes": [aclgen.addr_text(f, b_) for f, b_ in ps],
                           "in_order": irep[idx], "shuffled": pr})
    ctx.coverage["acl"] = {
        "acls_random": n_random, "acls_toy_exhaustive": len(toy_cases),
        "toy_family": "all ACLs of <= %d entries over the %d networks x 2 signs of 10.0.0.0/%d x all %d addresses" % (k, len(toy) // 2, 32 - b, 1 << b),
        "probes": probes, "agree_model_and_reference": agree, "shuffled_acls": len(perm_req),
        "verdicts": outcomes, "generator": dict(sorted(stats.items())),
    }
    ctx.samples += [{"acl": [e.text() for e in cases[i][0]], "probes": [aclgen.addr_text(f, b_) for f, b_ in cases[i][1]][:6],
                     "impl": (irep[i] or "")[:60]} for i in (4, 5, n_random - 1)]
    return probes, len(distinct)


DUAL = {"lt": "gt", "gt": "lt", "le": "ge", "ge": "le"}


def _doc_int_result(op, a, b):
    """documented INTEGER arithmetic when the mathematical result fits int64 (python reference)"""
    if op == "add":
        r = a + b
    elif op == "sub":
        r = a - b
    elif op == "mul":
        r = a * b
    elif op == "div":
        if b == 0:
            return None
        r = abs(a) // abs(b) * (1 if (a < 0) == (b < 0) else -1)
    elif op == "rem":
        if b == 0:
            return None
        r = abs(a) % abs(b) * (1 if a >= 0 else -1)
    elif op == "or":
        r = a | b
    elif op == "and":
        r = a & b
    elif op == "xor":
        r = a ^ b
    elif op == "shl":
        if b < 0 or b > 200:
            return None
        r = a << b
    elif op == "shr":
        if b < 0:
            return None
        r = a >> min(b, 200)
    elif op in ("rol", "ror"):
        if b < 0:
            return None
        k = b % 64 if op == "rol" else (64 - b % 64) % 64
        u = a % (1 << 64)
        r = evalgen.wrap64(((u << k) | (u >> (64 - k))) % (1 << 64))
    else:
        return None
    return r if -2**63 <= r <= 2**63 - 1 else None


def run_cells(ctx, model, impl, thorough):
    rng = ctx.rng
    if thorough:
        cells = list(evalgen.assign_cells_exhaustive()) + list(evalgen.oper_cells_exhaustive())
        cells += evalgen.sample_cells(rng, 150000, 150000)
    else:
        cells = evalgen.sample_cells(rng, 70000, 70000)
    # corpus first: the minimised inputs of the repaired defects
    corpus = [evalgen.Cell(*c) for c in CELL_CORPUS]
    cells = corpus + cells
    # dual / negated cells for the oracle on the implementation alone
    extra, link = [], []
    for i, c in enumerate(cells):
        if c.kind == "o" and c.op in DUAL and len(extra) < (400000 if thorough else 12000):
            extra.append(evalgen.Cell("o", DUAL[c.op], c.rform, c.r, c.lform, c.l))
            link.append((i, "dual"))
        elif c.kind == "o" and c.op in ("eq", "match") and len(extra) < (400000 if thorough else 12000):
            extra.append(evalgen.Cell("o", "ne" if c.op == "eq" else "nmatch", c.lform, c.l, c.rform, c.r))
            link.append((i, "neg"))
    res = EU.run_cells(cells + extra, model, impl)
    n = len(cells)
    status = {}
    agree = 0
    distinct = set()
    per_key = {}
    for c, ir, mr, ic, mc in res:
        status[ic[0]] = status.get(ic[0], 0) + 1
        distinct.add(c.impl())
        k = "%s %s %s<-%s" % (c.kind, c.op, c.l[0], c.r[0])
        per_key[k] = per_key.get(k, 0) + 1
        if ic == mc:
            agree += 1
            continue
        ctx.violation("evaluation differs between the interpreter and the model: %s -> interpreter %s, model %s" % (
            c.describe(), (ir or "no reply")[:120], (mr or "no reply")[:120]),
            {"cell": c.impl(), "impl": ir, "model_request": c.model(ir), "model": mr})
    # ---- oracle on the implementation alone
    dual_ok = neg_ok = arith_ok = 0
    for (i, how), (c2, ir2, _, ic2, _) in zip(link, res[n:]):
        c, ir, _, ic, _ = res[i]
        if ic[0] != "ok" or ic2[0] != "ok":
            continue
        a, b = ic[1], ic2[1]
        if how == "dual":
            if a != b:
                ctx.violation("duality fails on the interpreter: %s gives %s but %s gives %s" % (c.describe(), a, c2.describe(), b),
                              {"cell": c.impl(), "dual": c2.impl(), "impl": ir, "impl_dual": ir2})
            else:
                dual_ok += 1
        else:
            if a[0] != "B" or b[0] != "B" or a[1] == b[1]:
                ctx.violation("negated operator is not the negation on the interpreter: %s gives %s but %s gives %s" % (
                    c.describe(), a, c2.describe(), b), {"cell": c.impl(), "negated": c2.impl(), "impl": ir, "impl_neg": ir2})
            else:
                neg_ok += 1
    known_rtime = 0
    for c, ir, mr, ic, mc in res[:n]:
        if c.kind != "a":
            continue
        if c.l[0] == "I" and c.r[0] == "I" and not any(c.l[2:5]) and not any(c.r[2:5]):
            doc = _doc_int_result(c.op, c.l[1], c.r[1])
            if doc is not None:
                if ic != ("ok", ("I", doc, "000")):
                    ctx.violation("INTEGER %s within range is not the mathematical result: %s -> %s, expected %d" % (
                        c.op, c.describe(), (ir or "")[:80], doc), {"cell": c.impl(), "impl": ir, "expected": doc})
                else:
                    arith_ok += 1
        if c.op == "set" and c.l[0] == "R" and c.r[0] == "F" and c.rform == "v" and ic[0] == "ok":
            # documentation: RTIME is seconds; a FLOAT operand counts seconds like an INTEGER one
            f = evalgen.struct.unpack(">d", evalgen.struct.pack(">Q", c.r[1]))[0]
            if f == f and abs(f) < 9.0e9 and f != 0:
                want = int(f * 1e9)
                if abs(ic[1][1] - want) > max(2, abs(want) >> 50):
                    known_rtime += 1
                    ctx.violation("set var.rtime = var.float takes the FLOAT as nanoseconds: %s -> %s, documented %d ns" % (
                        c.describe(), ir.split()[1], want), {"cell": c.impl(), "impl": ir, "documented_ns": want},
                        {"cell": "RTIME=FLOAT"})
    ctx.coverage["cells"] = {
        "cells": n, "dual_and_negated_cells": len(extra), "exhaustive_boundary_grid": bool(thorough), "agree_with_model": agree, "interpreter_outcomes": status,
        "dual_pairs_checked": dual_ok, "negation_pairs_checked": neg_ok, "integer_results_checked_against_python": arith_ok,
        "rtime_float_known_hits": known_rtime,
        "operator_x_typepair_classes": len(per_key),
        "least_covered_classes": sorted(per_key.items(), key=lambda kv: kv[1])[:8],
    }
    ctx.samples += [{"cell": res[i][0].describe(), "interpreter": (res[i][1] or "")[:80]} for i in (len(corpus), n // 2, n - 1)]
    return n + len(extra), len(distinct)


# minimised inputs of the defects repaired in interpreter/assign and interpreter/operator (run first)
I_ = lambda v, f=(0, 0, 0): ("I", v) + f
CELL_CORPUS = [
    ("a", "shl", "v", I_(1), "v", I_(-1)), ("a", "shr", "v", I_(1), "l", I_(-1)),
    ("a", "rol", "v", I_(1), "v", I_(-1)), ("a", "ror", "v", I_(1), "v", I_(65)), ("a", "rol", "v", I_(-5), "v", I_(0)),
    ("a", "ror", "v", I_(-2), "l", I_(3)),
    ("a", "div", "v", ("R", 5 * 10**9, None), "v", I_(0)),
    ("a", "div", "v", I_(10), "v", ("F", evalgen.fbits(0.5), 0, 0, 0)),
    ("a", "rem", "v", I_(10), "v", I_(0)), ("a", "rem", "v", ("F", evalgen.fbits(10.0), 0, 0, 0), "v", ("F", evalgen.fbits(0.5), 0, 0, 0)),
    ("a", "rem", "v", ("R", 7, None), "v", I_(2**55)),
    ("a", "add", "v", ("R", 0, None), "v", ("F", evalgen.fbits(1.5), 0, 0, 0)),
    ("a", "mul", "v", ("R", 2 * 10**9, None), "v", ("F", evalgen.fbits(1.5), 0, 0, 0)),
    ("a", "set", "v", ("P", (4, 0x01020304), 0), "v", ("P", None, 1)),
    ("a", "set", "v", ("S", b"x", 0), "v", ("P", None, 1)),
    ("a", "set", "v", ("K", b"b0"), "l", ("K", b"d0")),
    ("o", "lt", "v", ("R", 0, None), "v", ("F", evalgen.fbits(5.0), 1, 0, 0)),
    ("o", "match", "v", ("P", (4, 0x0A010001), 0), "l", ("A", b"a0", evalgen.ACL0)),
]


def _canon_prog(rep, side):
    f = (rep or "none").split()
    d = {}
    for w in f[1:]:
        k, _, v = w.partition("=")
        d[k.replace("var.v", "")] = evalgen._canon_val(v, side) if v not in ("?", "") else "?"
    return (f[0] if f else "none"), d


def run_programs(ctx, model, impl, thorough):
    """whole programs (declare / set / if / else if / else / switch with fallthrough and default) executed by
    ProcessBlockStatement of the real interpreter and by Model/Eval.v; observables: error or not, and the final
    value (type, canonical text, flags) of every pooled variable"""
    rng = ctx.rng
    stats = {}
    progs = [proggen.gen_program(rng, stats) for _ in range(60000 if thorough else 2500)]
    # SIZE of control structures: every size 1..40 of switch and if-chain once, plus random ones
    progs += proggen.size_sweep(rng, stats)
    progs += [(proggen.gen_big_switch if rng.random() < 0.6 else proggen.gen_big_if)(rng, stats) for _ in range(20000 if thorough else 700)]
    ireq = ["- %s %s" % (v.encode().hex(), ",".join(names) or "-") for v, s, names in progs]
    mreq = ["prog " + s for v, s, names in progs]
    irep = EU.run_sharded(impl + ["evalprog"], ireq, hang_s=5)
    mrep = EU.run_sharded([model], mreq, hang_s=60)
    out = {}
    agree = 0
    for (v, s, names), ir, mr in zip(progs, irep, mrep):
        ist, idd = _canon_prog(ir, "impl")
        mst, mdd = _canon_prog(mr, "model")
        out[ist] = out.get(ist, 0) + 1
        if ist == mst and ist in ("ok", "err") and all(idd.get(k) == mdd.get(k, "?") for k in idd):
            agree += 1
            continue
        diff = [k for k in idd if idd.get(k) != mdd.get(k, "?")]
        ctx.violation("program result differs between the interpreter and Model/Eval.v (%s vs %s, variables %s)" % (
            ist, mst, ",".join("var.v" + k for k in diff[:4]) or "-"),
            {"program": v, "model_program": s, "impl": ir, "model": mr})
    ctx.coverage["programs"] = {"programs": len(progs), "agree_with_model": agree, "interpreter_outcomes": out,
                                "statement_kinds": dict(sorted(stats.items())),
                                "statements_total": sum(stats.values())}
    ctx.samples += [{"program": progs[i][0][:400], "interpreter": (irep[i] or "")[:160]} for i in (0, len(progs) - 1)]
    return len(progs), len(set(ireq))


def run_rebinding(ctx, model, impl, thorough):
    """SEQUENCES over mutable bindings: every pooled variable (ACL, BACKEND, IP, STRING, INTEGER, FLOAT, BOOL, RTIME)
    is re-assigned in 2-4 rounds and the same expressions are evaluated after each round.  Compared with Model/Eval.v
    and - on the implementation alone - with a fresh interpreter that runs only that round (metamorphic oracle);
    REGEX locals and re.group.N are covered by the fresh-interpreter oracle only."""
    rng = ctx.rng
    stats = {}
    n = 12000 if thorough else 350
    rb = [rebindgen.gen_rebind(rng, stats) for _ in range(n)]
    main = rebindgen.ACL_VCL.encode().hex()
    ireq = ["%s %s %s" % (main, v.encode().hex(), ",".join(names)) for v, s, names, fresh in rb]
    mreq = ["prog " + s for v, s, names, fresh in rb]
    freq, fidx = [], []
    for i, (v, s, names, fresh) in enumerate(rb):
        for src, res in fresh:
            freq.append("%s %s %s" % (main, src.encode().hex(), ",".join(res)))
            fidx.append(i)
    rg = [rebindgen.gen_regex_rebind(rng, stats) for _ in range(n)]
    wreq = ["- %s %s" % (w.encode().hex(), ",".join(sum([res for _, res in fresh], []))) for w, fresh in rg]
    gq, gidx = [], []
    for i, (w, fresh) in enumerate(rg):
        for src, res in fresh:
            gq.append("- %s %s" % (src.encode().hex(), ",".join(res)))
            gidx.append(i)
    rep = EU.run_sharded(impl + ["evalprog"], ireq + freq + wreq + gq, hang_s=5)
    irep, frep = rep[:len(ireq)], rep[len(ireq):len(ireq) + len(freq)]
    wrep, grep_ = rep[len(ireq) + len(freq):len(ireq) + len(freq) + len(wreq)], rep[len(ireq) + len(freq) + len(wreq):]
    mrep = EU.run_sharded([model], mreq, hang_s=60)
    agree = meta_ok = regex_ok = 0
    for (v, s, names, fresh), ir, mr in zip(rb, irep, mrep):
        ist, idd = _canon_prog(ir, "impl")
        mst, mdd = _canon_prog(mr, "model")
        if ist == mst == "ok" and all(idd.get(k) == mdd.get(k, "?") for k in idd):
            agree += 1
            continue
        diff = [k for k in idd if idd.get(k) != mdd.get(k, "?")]
        ctx.violation("after re-assignment an expression evaluates differently from Model/Eval.v (%s vs %s, results %s)" % (
            ist, mst, ",".join("var.v" + k for k in diff[:6]) or "-"),
            {"main": rebindgen.ACL_VCL, "program": v, "impl": ir, "model": mr})
    for i, fr in zip(fidx, frep):
        whole = _canon_prog(irep[i], "impl")[1]
        fst, f = _canon_prog(fr, "impl")
        bad = [k for k, val in f.items() if whole.get(k) != val]
        if fst != "ok" or bad:
            ctx.violation("an expression evaluated after a re-assignment differs from the same expression in a fresh interpreter "
                          "(results %s)" % ",".join("var.v" + k for k in bad[:6]),
                          {"main": rebindgen.ACL_VCL, "program": rb[i][0], "impl": irep[i], "fresh_round": fr})
        else:
            meta_ok += 1
    for i, fr in zip(gidx, grep_):
        whole = _canon_prog(wrep[i], "impl")[1]
        fst, f = _canon_prog(fr, "impl")
        keys = sorted(f, key=int)
        bad = []
        for b, g in zip(keys[0::2], keys[1::2]):          # (match result, re.group text) pairs
            if whole.get(b) != f[b]:
                bad.append(b)
            elif f[b] == ("B", "1") and whole.get(g) != f[g]:   # groups are defined by the last SUCCESSFUL match only
                bad.append(g)
        if fst != "ok" or bad:
            ctx.violation("a regular-expression match repeated after re-assigning the REGEX / subject differs from a fresh interpreter "
                          "(results %s)" % ",".join("var.v" + k for k in bad[:6]),
                          {"program": rg[i][0], "impl": wrep[i], "fresh_round": fr})
        else:
            regex_ok += 1
    ctx.coverage["rebinding"] = {"programs": len(rb), "agree_with_model": agree, "rounds_checked_against_fresh_interpreter": meta_ok,
                                 "regex_programs": len(rg), "regex_rounds_checked_against_fresh_interpreter": regex_ok,
                                 "expressions_re_evaluated_per_round": len(rebindgen.READS), "generator": dict(sorted(stats.items()))}
    ctx.samples += [{"rebinding_program": rb[0][0][:500], "interpreter": (irep[0] or "")[:200]}]
    return len(rep), len(set(ireq + wreq))


def run_regroup(ctx, model, impl, thorough):
    """re.group.N after histories of matches (succeeding / failing, 0-4 groups, repeated with other subjects) and subroutine
    calls, against Model/ReGroup.v; the match answers are Go's own (oracle), the group bookkeeping is what is compared"""
    rng = ctx.rng
    cases = []
    for _ in range(20000 if thorough else 600):
        ops = regroupgen.gen_ops(rng, 2, rng.randint(1, 6))
        subs, body, steps, pairs = regroupgen.render(ops)
        cases.append((ops, subs, body, steps, pairs))
    ireq = ["%s %s %s %s" % (subs.encode().hex() or "-", body.encode().hex(), ",".join(steps),
                             ",".join("%s:%s" % (p.encode().hex(), t.encode().hex()) for p, t in pairs)) for ops, subs, body, steps, pairs in cases]
    irep = EU.run_sharded(impl + ["evalprog"], ireq, hang_s=5)
    mreq = []
    for (ops, subs, body, steps, pairs), ir in zip(cases, irep):
        ans = []
        for w in (ir or "").split():
            if w.startswith("re") and "=" in w and w[2:w.index("=")].isdigit():
                v = w.split("=", 1)[1]
                ans.append(None if v in ("x", "e") else [h for h in v.split(":", 1)[1].split(";")])
        try:
            mreq.append("regroup (%s)" % regroupgen.model_ops(ops, iter(ans)))
        except StopIteration:
            mreq.append("regroup ()")
    mrep = EU.run_sharded([model], mreq, hang_s=60)
    agree = 0
    steps_n = 0
    for (ops, subs, body, steps, pairs), ir, mr in zip(cases, irep, mrep):
        st, vals = _canon_prog(" ".join(w for w in (ir or "none").split() if not (w.startswith("re") and w[2:3].isdigit())), "impl")
        got = [vals.get(h, ("?",)) for h in steps]
        got = [(g[1] if len(g) > 1 and g[0] == "S" else "?") for g in got]
        want = (mr or "").split()[1:]
        steps_n += len(steps)
        if st == "ok" and got == want:
            agree += 1
        else:
            k = next((i for i, (a, b) in enumerate(zip(got, want)) if a != b), min(len(got), len(want)))
            ctx.violation("re.group.N differs from Model/ReGroup.v at step %d of a match / call history (interpreter %s, model %s)" % (
                k, bytes.fromhex(got[k]).decode("latin1") if k < len(got) and got[k] != "?" else "?",
                bytes.fromhex(want[k]).decode("latin1") if k < len(want) else "?"),
                {"subroutines": subs, "program": body, "impl": ir, "model_request": mreq[cases.index((ops, subs, body, steps, pairs))], "model": mr})
    ctx.coverage["regroup"] = {"histories": len(cases), "agree_with_model": agree, "steps_compared": steps_n,
                               "patterns": regroupgen.PATS, "subjects": regroupgen.SUBJ}
    return len(cases), len(set(ireq))


def run_readwrite(ctx, impl):
    """read-your-write for every writable predefined variable of predefined.yml (one scalar type for get and set) in every
    scope where it is allowed: read, assign a, read, assign b, read - the two reads after the assignments must differ
    (an assignment the getter never shows is a violation); how many read back exactly the assigned value is recorded"""
    cs = rwgen.cases(V.REPO)
    rep = EU.run_sharded(impl + ["rwvar"], [c[3] for c in cs], hang_s=5, max_failures=10)
    exact = {"INTEGER": ("I:5:000", "I:7:000"), "BOOL": ("B:1", "B:0"), "RTIME": ("R:5000000000", "R:7000000000"),
             "STRING": ("S:616263:0", "S:78797a:0"), "FLOAT": ("F:3ff8000000000000:000", "F:4004000000000000:000")}
    out = {"visible": 0, "exact": 0, "assignment refused": 0}
    for (sc, name, ty, req), r in zip(cs, rep):
        kv = dict(w.split("=", 1) for w in (r or "").split() if "=" in w)
        if not kv:
            ctx.violation("reading / assigning %s in %s: %s" % (name, sc, (r or "no reply")[:120]), {"request": req, "impl": r})
            continue
        if kv.get("w1") != "ok" or kv.get("w2") != "ok":
            out["assignment refused"] += 1
            continue
        if kv.get("r1") == kv.get("r2"):
            ctx.violation("set %s = ...; in vcl_%s is not visible to a later read: it reads %s after two different assignments (before: %s)" % (
                name, sc.lower(), kv.get("r1"), kv.get("r0")), {"request": req, "variable": name, "scope": sc, "impl": r})
            continue
        out["visible"] += 1
        if ty in exact and (kv.get("r1"), kv.get("r2")) == exact[ty]:
            out["exact"] += 1
    ctx.coverage["read_your_write"] = {"variable_scope_pairs": len(cs), "variables": len(set(c[1] for c in cs)), "outcomes": out}
    return len(cs), len(cs)


# minimised inputs of the concatenation defects repaired in interpreter/expression.go (run first):
# (items, variables, expression text)
_T0 = ("T", 1758800000, 0, 0)
SERIES_CORPUS = [
    ([("_", "V", _T0), ("+", "R", 300 * 10**9)], [_T0], "var.v0 + 5m"),                       # TIME + RTIME literal at the end
    ([("_", "V", _T0), ("-", "R", 300 * 10**9), ("_", "L", b"x")], [_T0], 'var.v0 + -5m "x"'),   # the minus was dropped
    ([("_", "L", b"a"), ("_", "V", ("A", b"a0", []))], [("A", b"a0", [])], '"a" var.v0'),          # NULL without an error
]


def run_series(ctx, model, impl, thorough):
    """concatenation series of 1-5 operands over all type mixes, evaluated by ProcessExpression in both contexts
    (header/log and local-variable assignment) and by Model/Concat.v"""
    rng = ctx.rng
    stats = {}
    cases = list(SERIES_CORPUS) + [seriesgen.gen_series(rng, stats) for _ in range(250000 if thorough else 12000)]
    # every pair of operand kinds (type x not-set) in a two-operand series: a small finite product, always complete
    kinds = []
    for t in ["I", "F", "S", "B", "R", "T", "P", "K", "A"]:
        vs = seriesgen.var_values(t)
        kinds.append(vs[0])
        if t in "SP":
            kinds.append(("S", b"", 1) if t == "S" else ("P", None, 1))
    for a in kinds:
        for b in kinds:
            for sg in ("_", "+"):
                cases.append(([("_", "V", a), (sg, "V", b)], [a, b], "var.v0 %svar.v1" % ("+ " if sg == "+" else "")))
    irep = EU.run_sharded(impl + ["evalseries"], [seriesgen.impl_request(*c) for c in cases], hang_s=5)
    mrep = EU.run_sharded([model], [seriesgen.model_request(c[0]) for c in cases], hang_s=60)
    agree = 0
    out = {}
    for c, ir, mr in zip(cases, irep, mrep):
        a, b = seriesgen.canon(ir, "impl"), seriesgen.canon(mr, "model")
        for k in ("nl", "lo"):
            st = a.get(k, ("none",))[0]
            out[k + " " + st] = out.get(k + " " + st, 0) + 1
        if a == b and len(a) == 2:
            agree += 1
            continue
        ctx.violation("concatenation differs between the interpreter and Model/Concat.v: %s -> interpreter %s, model %s" % (
            c[2], " ".join((ir or "no reply").split()[:2])[:200], (mr or "no reply")[:200]),
            {"expression": c[2], "variables": [evalgen.impl_text("", v) for v in c[1]], "impl": ir, "model": mr})
    ctx.coverage["series"] = {"series": len(cases), "agree_with_model": agree, "outcomes_by_context": dict(sorted(out.items())),
                              "two_operand_kind_pairs_complete": len(kinds) ** 2 * 2, "generator": dict(sorted(stats.items()))}
    ctx.samples += [{"series": cases[i][2], "interpreter": " ".join((irep[i] or "").split()[:2])[:200]} for i in (3, len(cases) // 2)]
    return len(cases), len(set(seriesgen.impl_request(*c) for c in cases))


def run(ctx):
    thorough = ctx.thorough()
    proved = ctx.prove()
    with V.Lock("build"):
        model = V.driver("eval")
    impl = [os.path.join(V.BUILD, "implrun")]
    ctx.trusted += [
        "Coq 8.16.1 kernel (coqc; vm_compute for closed examples; no native_compute)",
        "extraction: ExtrOcamlBasic only; OCaml 4.13.1; ocaml/common.ml + ocaml/eval_main.ml (text <-> extracted values, bit by bit)",
        "harness/cmd/implrun eval_*.go (builds a real interpreter with a minimal context; reads locals back through ProcessExpression)",
        "modelled not verified: Model/Acl.v impl_match, Model/Assign.v, Model/Oper.v, Model/Val.v are hand transcriptions of operator.matchesAcl, interpreter/assign/*.go, operator.go, value.go, tied by the differential run",
        "FLOAT = Coq.Floats.SpecFloat (stdlib, axiom-free executable IEEE-754 binary64, round to nearest even; the definitions Flocq 4.1 BinarySingleNaN is built on); int64(float64) as on amd64 (out of range / NaN -> -2^63); NaN payloads are not compared",
        "oracles, not modelled: PCRE (the model is given the match result Go obtained), net.ParseIP (given Go's answer), time.ParseDuration of RTIME literals (the generator supplies the nanoseconds)",
        "ACL addresses: an IPv4-mapped IPv6 address (::ffff:a.b.c.d) is an IPv4 address for Go; the model has no aliasing and the generator stays outside ::ffff:0:0/96",
    ]
    n1, d1 = run_acl(ctx, model, impl, thorough)
    n2, d2 = run_cells(ctx, model, impl, thorough)
    n3, d3 = run_programs(ctx, model, impl, thorough)
    n4, d4 = run_series(ctx, model, impl, thorough)
    n5, d5 = run_rebinding(ctx, model, impl, thorough)
    n6, d6 = run_regroup(ctx, model, impl, thorough)
    n7, d7 = run_readwrite(ctx, impl)
    n3, d3 = n3 + n4 + n5 + n6 + n7, d3 + d4 + d5 + d6 + d7
    if not proved and not ctx.violations:
        V.log("C07: proof obligation broken (%s) and no failing input yet: escalating the search to the thorough volumes" % ctx.broken)
        for part in (lambda: run_acl(ctx, model, impl, True), lambda: run_series(ctx, model, impl, True), lambda: run_rebinding(ctx, model, impl, True),
                     lambda: run_regroup(ctx, model, impl, True), lambda: run_programs(ctx, model, impl, True), lambda: run_cells(ctx, model, impl, True)):
            part()
            if ctx.violations:
                break
        ctx.coverage["escalated_search"] = True
    if not proved and not ctx.violations:
        ctx.violation("proof obligation of C07 no longer checks: " + (ctx.broken or "Props/C07.v"),
                      {"no_failing_input": True, "broken": ctx.broken,
                       "searched": "%d ACL probes, %d operator cells, %d programs: the interpreter agrees with the reference on all of them" % (n1, n2, n3)})
    ctx.coverage.update({"evaluations": n1 + n2 + n3, "distinct_nontrivial": d1 + d2 + d3})
    return ctx.finish(
        level="proof",
        rule="theorems of coq/Props/C07.v (unbounded); correspondence: ACLs (random <= 8 entries + exhaustive toy family) x probes "
             "inside / on both boundaries / outside every entry (distinct = distinct (acl, address)); operator cells = "
             "operator x type pair x {literal, variable} x boundary/random operand pair executed by ProcessSetStatement / "
             "ProcessExpression (distinct = distinct request text); thorough = the full boundary grid; programs = type-directed "
             "programs of <= ~30 statements (declare, set with all operators, nested if / else if / else, switch with "
             "fallthrough and default) over INTEGER FLOAT STRING BOOL RTIME IP locals against Model/Eval.v")
