"""C07 - Expressions and assignments compute what VCL semantics prescribe.

proof  : coq/Props/C07.v  (ACL: impl = spec, order independence, host default; operators: duality,
         not-set laws, arithmetic/bitwise/shift/rotate laws over Model/Val.v, Assign.v, Oper.v)
tie    : C  extracted model (build/modelrun_eval) vs the real interpreter
            implrun acl      : ACL declared in a main VCL, `if (var.ip ~ a)` executed by the interpreter
            implrun evalcell : one `set` statement / one infix expression per cell (operator x type pair x
                               operand pair x literal|variable), executed by ProcessSetStatement /
                               ProcessExpression of a real interpreter
oracle : on the implementation alone: ACL verdict = python longest-prefix reference, verdict invariant
         under shuffling; duality of the comparison operators on the implementation's own answers.
"""
import os
import vcommon as V
from gen import aclgen


def _acl_requests(rng, n_acl, stats):
    cases = []
    for _ in range(n_acl):
        es = aclgen.gen_acl(rng, stats)
        ps = aclgen.probes(rng, es, stats)
        cases.append((es, ps))
    return cases


def _acl_corpus():
    """minimised failing inputs of the defects repaired in operator.matchesAcl (run first)"""
    E = aclgen.Entry
    ten8 = E(False, 4, 10 << 24, 8)
    neg16 = E(True, 4, (10 << 24) | (1 << 16), 16)
    host = E(False, 4, (10 << 24) | (1 << 16) | (2 << 8) | 3, None)
    v6host = E(False, 6, 0x20010DB8 << 96 | 1, None)
    return [
        ([neg16], [(4, 11 << 24 | 1)]),                                   # outside a negated entry
        ([ten8, neg16], [(4, (10 << 24) | (1 << 16) | 1)]),               # inside a negated entry, enclosing first
        ([neg16, ten8, host], [(4, (10 << 24) | (1 << 16) | (2 << 8) | 3), (4, (10 << 24) | 1)]),
        ([v6host], [(6, 0x20010DB8 << 96 | 2), (6, 0x20010DB8 << 96 | 1)]),  # bare IPv6 host is /128
    ]


def run_acl(ctx, model, impl, thorough):
    rng = ctx.rng
    stats = {}
    cases = _acl_corpus() + _acl_requests(rng, 4000 if thorough else 450, stats)
    n_random = len(cases)
    # exhaustive toy family: every ACL of <= k entries over 10.0.0.0/(32-b) x every address of it
    b, k = (4, 3) if thorough else (3, 2)
    toy = aclgen.toy_entries(b)
    toy_addrs = [(4, (10 << 24) | i) for i in range(1 << b)]
    import itertools
    toy_cases = []
    for n in range(0, k + 1):
        for combo in itertools.product(toy, repeat=n):
            toy_cases.append((list(combo), toy_addrs))
    cases += toy_cases
    ireq, mreq = [], []
    for es, ps in cases:
        et = ",".join(e.text() for e in es) or "-"
        em = ",".join(e.model() for e in es) or "-"
        ireq.append("%s %s" % (et, ",".join(aclgen.addr_text(f, b_) for f, b_ in ps)))
        mreq.append("acl %s %s" % (em, ",".join("%d:%x" % (f, b_) for f, b_ in ps)))
    # order independence on the implementation: the same ACL reversed / shuffled
    perm_req, perm_of = [], []
    for idx, (es, ps) in enumerate(cases[:n_random]):
        if len(es) >= 2:
            sh = list(es)
            rng.shuffle(sh)
            perm_req.append("%s %s" % (",".join(e.text() for e in sh), ",".join(aclgen.addr_text(f, b_) for f, b_ in ps)))
            perm_of.append(idx)
    irep = V.run_batch(impl + ["acl"], ireq + perm_req, hang_s=10)
    mrep = V.run_batch([model], mreq, hang_s=60)
    probes = agree = 0
    outcomes = {}
    distinct = set()
    for idx, ((es, ps), ir, mr) in enumerate(zip(cases, irep, mrep)):
        what = None
        replay = {"acl": [e.text() for e in es], "probes": [aclgen.addr_text(f, b_) for f, b_ in ps], "impl": ir, "model": mr}
        if ir is None or ir.startswith(("hang", "died", "crash", "initerr", "badreq", "skipped")):
            ctx.violation("ACL match %s: %s" % ((ir or "no reply").split()[0], " ".join(replay["acl"])), replay)
            continue
        iv = ir.split()[1:]
        mv = (mr or "").split()[1:]
        pv = [aclgen.spec(es, f, b_) for f, b_ in ps]
        for j, (f, b_) in enumerate(ps):
            probes += 1
            r = iv[j] if j < len(iv) else "missing"
            outcomes[r] = outcomes.get(r, 0) + 1
            distinct.add((tuple(e.key() for e in es), f, b_))
            if r != pv[j]:
                what = "ACL verdict differs from the documented longest-prefix meaning: acl {%s} ~ %s gives %s, reference %s" % (
                    "; ".join(replay["acl"]), aclgen.addr_text(f, b_), r, pv[j])
            elif j >= len(mv) or r != mv[j]:
                what = "ACL verdict differs between operator.matchesAcl and Model/Acl.v impl_match: acl {%s} ~ %s impl %s model %s" % (
                    "; ".join(replay["acl"]), aclgen.addr_text(f, b_), r, mv[j] if j < len(mv) else "missing")
            else:
                agree += 1
                continue
            replay["probe"] = aclgen.addr_text(f, b_)
            break
        if what:
            ctx.violation(what, replay)
    for idx, pr in zip(perm_of, irep[len(ireq):]):
        if pr != irep[idx]:
            es, ps = cases[idx]
            ctx.violation("ACL verdict depends on the order of the entries: acl {%s}" % "; ".join(e.text() for e in es),
                          {"acl": [e.text() for e in es], "probes": [aclgen.addr_text(f, b_) for f, b_ in ps],
                           "in_order": irep[idx], "shuffled": pr})
    ctx.coverage["acl"] = {
        "acls_random": n_random, "acls_toy_exhaustive": len(toy_cases),
        "toy_family": "all ACLs of <= %d entries over the %d networks x 2 signs of 10.0.0.0/%d x all %d addresses" % (k, len(toy) // 2, 32 - b, 1 << b),
        "probes": probes, "agree_model_and_reference": agree, "shuffled_acls": len(perm_req),
        "verdicts": outcomes, "generator": dict(sorted(stats.items())),
    }
    ctx.samples += [{"acl": [e.text() for e in cases[i][0]], "probes": [aclgen.addr_text(f, b_) for f, b_ in cases[i][1]][:6],
                     "impl": (irep[i] or "")[:60]} for i in (4, 5, n_random - 1)]
    return probes, len(distinct)


def run(ctx):
    thorough = ctx.thorough()
    proved = ctx.prove()
    with V.Lock("build"):
        model = V.driver("eval")
    impl = [os.path.join(V.BUILD, "implrun")]
    ctx.trusted += [
        "Coq 8.16.1 kernel (coqc; vm_compute for closed examples; no native_compute)",
        "extraction: ExtrOcamlBasic only; OCaml 4.13.1; ocaml/common.ml + ocaml/eval_main.ml (text <-> extracted values, bit by bit)",
        "harness/cmd/implrun eval_*.go (builds a real interpreter with a minimal context; reads locals back through ProcessExpression)",
        "modelled not verified: Model/Acl.v impl_match is a hand transcription of operator.matchesAcl, tied by the differential run",
        "ACL addresses: an IPv4-mapped IPv6 address (::ffff:a.b.c.d) is an IPv4 address for Go; the model has no aliasing and the generator stays outside ::ffff:0:0/96",
    ]
    n1, d1 = run_acl(ctx, model, impl, thorough)
    if not proved and not ctx.violations:
        ctx.violation("proof obligation of C07 no longer checks: " + (ctx.broken or "Props/C07.v"),
                      {"no_failing_input": True, "broken": ctx.broken,
                       "searched": "%d ACL probes: implementation agrees with the reference on all of them" % n1})
    ctx.coverage.update({"evaluations": n1, "distinct_nontrivial": d1})
    return ctx.finish(
        level="proof",
        rule="theorems of coq/Props/C07.v (unbounded); correspondence: ACLs (random <= 8 entries + exhaustive toy family) x probes "
             "inside / on both boundaries / outside every entry (distinct = distinct (acl, address))")
