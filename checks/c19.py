"""C19 - the AST codec round-trips every statement and decoding is total.

proof  : coq/Props/C19.v  (decode_encode, decode_total, decode_no_crash over Model/Codec.v)
tie    : T  Gen/CodecFrames.v regenerated from ast/codec/codec.go
         C  extracted model (build/modelrun_codec) vs real codec (build/implrun codec):
            Encode bytes, Decode result on valid encodings, truncations, bit flips, splices, random bytes
oracle : on the implementation alone: decode(encode(parse src)) == parse src (projected), decode never
         panics / hangs on any byte string.
"""
import os
import random
import vcommon as V
from gen import vclgen

HEX = "0123456789abcdef"


def corpus_sources():
    d = os.path.join(V.VERIF, "corpus", "C19")
    out = []
    if os.path.isdir(d):
        for fn in sorted(os.listdir(d)):
            if fn.endswith(".vcl"):
                mode = "vcl" if fn.startswith("vcl_") else "snippet"
                out.append((mode, open(os.path.join(d, fn), "rb").read(), "corpus/" + fn))
    return out


def corpus_bytes():
    d = os.path.join(V.VERIF, "corpus", "C19")
    out = []
    if os.path.isdir(d):
        for fn in sorted(os.listdir(d)):
            if fn.endswith(".hex"):
                out.append((open(os.path.join(d, fn)).read().strip(), "corpus/" + fn))
    return out


def big_sources(rng):
    """strings around the 16-bit leaf limit, many-statement blocks beyond the 4096-byte reader buffer"""
    out = []
    for n in (65535, 65536, 70000, 200000):
        out.append(("snippet", ('set req.http.X = "%s";' % ("a" * n)).encode(), "leaf%d" % n))
    out.append(("snippet", ("if (req.http.A) { " + 'set req.http.X = "abcdefghijklmnopqrstuvwxyz0123456789";' * 300 + " }").encode(), "block-10k"))
    out.append(("vcl", ("sub vcl_recv { " + "".join('set req.http.X%d = "%s";' % (i, "v" * (i % 97)) for i in range(400)) + " }").encode(), "sub-4k-boundaries"))
    return out


KIND_CORPUS = [
    ("snippet", 'set req.http.A = "x";'), ("snippet", 'set var.i += 10;'), ("snippet", 'add resp.http.Set-Cookie = "a" "b";'),
    ("snippet", 'unset req.http.A;'), ("snippet", 'remove req.http.A;'), ("snippet", 'declare local var.s STRING;'),
    ("snippet", 'call f;'), ("snippet", 'call f(1, "a", req.http.B);'), ("snippet", 'error;'), ("snippet", 'error 404;'),
    ("snippet", 'error 601 "x" + req.url;'), ("snippet", 'esi;'), ("snippet", 'log "a" req.url 10 1.5 10s true;'), ("snippet", 'restart;'),
    ("snippet", 'return;'), ("snippet", 'return (lookup);'), ("snippet", 'return var.s;'), ("snippet", 'synthetic {"x"};'),
    ("snippet", 'synthetic.base64 "eA==";'), ("snippet", 'std.log("a", 1);'), ("snippet", 'goto l1;\nl1:\n'), ("snippet", 'include "m";'),
    ("snippet", '{ esi; { restart; } }'),
    ("snippet", 'if (req.http.A == "x" && !req.http.B || (req.url ~ "^/a")) { esi; } else if (a) { restart; } elsif (b) { } else { log "x"; }'),
    ("snippet", 'if (a) { switch (req.url) { case "a": esi; break; case ~ "b": fallthrough; default: restart; break; } }'),
    ("snippet", 'if (a) { switch (std.tolower(req.url)) { case "a": break; } }'),
    ("snippet", 'set var.s = if(req.http.A, "y", "n") + std.strlen(regsub(req.url, "a", "b")) + -1 + (1 + 2);'),
    ("snippet", 'set var.i = 0x7FFFFFFFFFFFFFFF; set var.f = 1e3; set var.t = 10ms;'),
    ("vcl", 'acl a { "10.0.0.0"/8; !"10.1.0.0"/16; "::1"; !"192.168.0.1"; }'),
    ("vcl", 'backend b { .host = "h"; .port = "80"; .ssl = true; .connect_timeout = 1s; .probe = { .request = "GET /" "Host: x"; .interval = 5s; } }'),
    ("vcl", 'director d random { .quorum = 50%; .retries = 3; { .backend = b; .weight = 1; } { .backend = c; .weight = 2; } }'),
    ("vcl", 'table t { "a": "b", "c": "d" }'), ("vcl", 'table t2 INTEGER { "a": 1, }'), ("vcl", 'table t3 BACKEND { }'),
    ("vcl", 'penaltybox p { }'), ("vcl", 'ratecounter r { }'), ("vcl", 'import m;'), ("vcl", 'include "x";'),
    ("vcl", 'sub f { }'), ("vcl", 'sub g STRING { return "x"; }'), ("vcl", 'sub h(STRING a, INTEGER b) BOOL { return true; }'),
    ("vcl", 'sub vcl_recv { #FASTLY recv\n set req.http.A = "" ; return (pass); }'),
]

LEAF_TYPES = None


def frame_types():
    """name -> number, from the regenerated coq/Gen/CodecFrames.v (same table the model uses)"""
    import re
    txt = open(os.path.join(V.COQ, "Gen", "CodecFrames.v")).read()
    return {m.group(1): int(m.group(2)) for m in re.finditer(r"Definition FT_(\w+) : N := (\d+)\.", txt)}


def headers(b, ft):
    """offsets of the 3-byte frame headers of a VALID encoding (leaf frames carry a payload)"""
    leaf = {ft[k] for k in ("IDENT_VALUE", "STRING_VALUE", "IP_VALUE", "RTIME_VALUE", "INTEGER_VALUE", "FLOAT_VALUE", "BOOL_VALUE", "OPERATOR")}
    out = []
    pos = 0
    while pos < len(b):
        t = b[pos]
        if t in (ft["END"], ft["FIN"]):
            pos += 1
            continue
        if pos + 3 > len(b):
            break
        size = (b[pos + 1] << 8) | b[pos + 2]
        out.append((pos, t in leaf, size))
        pos += 3 + (size if t in leaf else 0)
    return out


def structural_mutants(hx, ft, rng, per_encoding):
    """every frame header x boundary sizes (with the payload kept, cut or padded accordingly) and
    x every frame type: the decoder's length / type handling at each position of a valid stream"""
    b = bytes.fromhex(hx)
    hs = headers(b, ft)
    out = []
    sizes = [0, 1, 2, 7, 8, 9, 255, 256, 65535]
    types = sorted(set(ft.values()))
    for pos, leaf, size in hs:
        for k in sizes + [max(size - 1, 0), size + 1]:
            nb = bytearray(b)
            nb[pos + 1], nb[pos + 2] = (k >> 8) & 255, k & 255
            out.append((bytes(nb).hex(), "size-only"))
            if leaf and k < 70000:
                payload = b[pos + 3: pos + 3 + size]
                newp = (payload + b"\x00" * k)[:k]
                out.append(((b[:pos + 1] + bytes([(k >> 8) & 255, k & 255]) + newp + b[pos + 3 + size:]).hex(), "size+payload"))
        for t in types:
            nb = bytearray(b)
            nb[pos] = t
            out.append((bytes(nb).hex(), "type"))
    if len(out) > per_encoding:
        out = rng.sample(out, per_encoding)
    return out


def boundary_sources():
    """string leaves whose multi-byte runes straddle every offset around the buffer sizes the codec uses
    (512-byte frame pool, 4096-byte bufio window), and expressions nested deeper than any fixed-size stack"""
    out = []
    for ch in ("\u00e9", "\u65e5", "\U0001F600"):           # 2-, 3-, 4-byte
        w = len(ch.encode())
        for total in (520, 1040, 4110, 8200):
            for shift in range(w + 1):
                body = "a" * shift + ch * ((total - shift) // w)
                out.append(("snippet", ('set req.http.X = "%s" "%s";' % (body, body[: 40])).encode(), "leaf-%dB-%d-shift%d" % (w, total, shift)))
                out.append(("snippet", ('log {"%s"};' % body).encode(), "longleaf-%dB-%d-shift%d" % (w, total, shift)))
    for depth in (15, 16, 17, 18, 24, 40, 80):
        chain = " + ".join('"s%d"' % i for i in range(depth + 1))
        ors = " || ".join("req.http.H%d" % i for i in range(depth + 1))
        groups = "(" * depth + "req.http.A" + ")" * depth
        calls = "std.tolower(" * depth + '"x"' + ")" * depth
        ifs = "if(req.http.A, " * depth + '"z"' + ', "n")' * depth
        for name, e in (("concat", chain), ("or", ors), ("group", groups), ("call", calls), ("ifexp", ifs)):
            cond = e if name in ("or", "group") else 'req.http.Q == "1"'
            val = e if name not in ("or",) else '"v"'
            # the deep statement is followed by ordinary compound statements in the SAME encode call
            out.append(("snippet", ('if (%s) { set req.http.X = %s; }\nset req.http.Y = "a" + req.http.B + std.tolower("C");\n'
                                    'if (req.http.A == "x" && !req.http.B) { log "k" req.url; }\n' % (cond, val)).encode(),
                        "deep-%s-%d" % (name, depth)))
    return out


def mutate(rng, hx, donors):
    b = bytearray.fromhex(hx)
    k = rng.random()
    if k < 0.35 and len(b) > 1:      # truncation
        return bytes(b[: rng.randrange(0, len(b))]).hex(), "trunc"
    if k < 0.6 and b:               # bit flip(s)
        for _ in range(rng.choice([1, 1, 2, 3])):
            i = rng.randrange(len(b))
            b[i] ^= 1 << rng.randrange(8)
        return bytes(b).hex(), "flip"
    if k < 0.7 and b:               # byte replace with an interesting value
        i = rng.randrange(len(b))
        b[i] = rng.choice([0, 1, 2, 255, 17, 30, 23, 52, 54, 50, 57, rng.randrange(256)])
        return bytes(b).hex(), "replace"
    if k < 0.85 and donors:          # splice
        d = bytearray.fromhex(rng.choice(donors))
        i = rng.randrange(len(b) + 1)
        j = rng.randrange(len(d) + 1)
        return bytes(b[:i] + d[j:]).hex(), "splice"
    if k < 0.92 and b:               # delete / duplicate a chunk
        i = rng.randrange(len(b))
        j = min(len(b), i + rng.randint(1, 6))
        if rng.random() < 0.5:
            return bytes(b[:i] + b[j:]).hex(), "delete"
        return bytes(b[:j] + b[i:j] + b[j:]).hex(), "dup"
    n = rng.randint(0, 40)           # random bytes biased to frame types
    return bytes(rng.choice([rng.randrange(256), rng.randrange(60), 0, 1, 2]) for _ in range(n)).hex(), "random"


def leaf_over_64k(ast_sexp):
    """does the statement contain a leaf string whose UTF-8 payload is >= 65536 bytes?"""
    import re
    return any(len(m) // 2 >= 65536 for m in re.findall(r'"([0-9a-f]*)"', ast_sexp))


def run(ctx):
    rng = ctx.rng
    thorough = ctx.thorough()
    proved = ctx.prove()
    with V.Lock("build"):
        model = V.driver("codec")
    impl = [os.path.join(V.BUILD, "implrun"), "codec"]
    ctx.trusted += [
        "Coq 8.16.1 kernel (coqc; vm_compute for table obligations; no native_compute)",
        "axioms: none (Print Assumptions of every theorem of Props/C19.v: Closed under the global context)",
        "extraction: ExtrOcamlBasic only, no Extract Constant/Inductive beyond it; OCaml 4.13.1; ocaml/common.ml + ocaml/codec_main.ml (S-expression glue)",
        "translator harness/cmd/trans (FrameType iota block -> Gen/CodecFrames.v)",
        "harness/cmd/implrun codec.go (projection of the Go AST onto Model/CodecAst.v: names, operators, literal values, arguments, parameters, nested statements)",
        "modelled not verified: Model/Codec.v is a hand transcription of ast/codec/*.go, tied by the differential run below",
        "Go strings are compared as the rune sequence `range s` yields (what stringToBytes encodes)",
    ]

    # ---------------- inputs
    g = vclgen.Gen(rng)
    n_gen = 6000 if thorough else 700
    sources = corpus_sources() + big_sources(rng)
    sources += [(m, src.encode(), "kind-%d" % i) for i, (m, src) in enumerate(KIND_CORPUS)]
    sources += boundary_sources()
    for path, data in vclgen.repo_vcl_files(V.REPO):
        sources.append(("vcl", data, path))
    for i in range(n_gen):
        if rng.random() < 0.5:
            sources.append(("snippet", g.snippet().encode(), "gen-snippet-%d" % i))
        else:
            sources.append(("vcl", g.program().encode(), "gen-vcl-%d" % i))
    reqs = ["src %s %s" % (m, s.hex()) for m, s, _ in sources]
    irep = V.run_batch(impl, reqs, hang_s=10)

    asts, encs, kinds = [], [], {}
    parse_fail = 0
    enc_fail_impl = 0
    cases = []   # (label, ast, impl_enc, impl_dec)
    for (m, s, label), rep in zip(sources, irep):
        if rep is None or rep.startswith(("hang", "died", "crash")):
            ctx.violation("codec (parse/encode/decode of a valid program) %s on %s" % (rep, label),
                          {"mode": m, "source_hex": s.hex()[:4000], "reply": rep})
            continue
        if rep.startswith("parseerr"):
            parse_fail += 1
            continue
        parts = rep.split(" | ")
        ast = parts[0][4:]
        if parts[1] == "encerr":
            enc_fail_impl += 1
            cases.append((label, ast, None, None, m, s))
            continue
        cases.append((label, ast, parts[1][4:], parts[2][4:], m, s))
        if len(parts) > 3 and parts[3] == "held MISMATCH":
            ctx.violation("bytes returned by an earlier Encodes call no longer decode to their statements after a later call (before %s)" % label,
                          {"mode": m, "source_hex": s.hex()[:4000], "note": "the previous request's held result was re-decoded after this request's encode/decode"},
                          {"kind": "held-result"})
    # model: encode the same ASTs
    mreq = ["enc " + c[1] for c in cases]
    mrep = V.run_batch([model], mreq, hang_s=60, mem_kb=8_000_000)
    import re
    valid_encs = []
    kind_encs = []
    roundtrip_ok = 0
    enc_agree = 0
    nontrivial = set()
    for c, mr in zip(cases, mrep):
        label, ast, ienc, idec, m, s = c
        for k in re.findall(r"\((\w+)", ast):
            kinds[k] = kinds.get(k, 0) + 1
        facts = {"kind": "leaf-over-64k"} if leaf_over_64k(ast) else {}
        if ienc is None:
            if mr != "err":
                ctx.violation("Encode: implementation returns an error, model says %s (%s)" % (mr[:80], label),
                              {"mode": m, "source_hex": s.hex()[:4000], "ast": ast[:2000]}, facts or None)
            continue
        if mr != "enc " + ienc:
            ctx.violation("Encode bytes differ between ast/codec and Model/Codec.v on %s" % label,
                          {"mode": m, "source_hex": s.hex()[:4000], "ast": ast[:2000], "impl": ienc[:2000], "model": mr[:2000]},
                          facts or None)
        else:
            enc_agree += 1
        # direct oracle on the implementation: decode(encode(x)) ~ x
        if idec != "ok " + ast:
            ctx.violation("round trip fails on the implementation: decode(encode(s)) != s for %s" % label,
                          {"mode": m, "source_hex": s.hex()[:4000], "ast": ast[:2000], "decoded": (idec or "")[:2000]},
                          facts or {"kind": "roundtrip"})
        else:
            roundtrip_ok += 1
        nontrivial.add(ast)
        if len(ienc) < 20000:
            valid_encs.append(ienc)
        if label.startswith("kind-"):
            kind_encs.append(ienc)
    # ---------------- decoder totality + correspondence on arbitrary bytes
    n_mut = 120000 if thorough else 14000
    byte_cases = [(h, lab) for h, lab in corpus_bytes()]
    byte_cases += [(h, "valid") for h in valid_encs[:2000]]
    small = [h for h in valid_encs if len(h) < 1200] or valid_encs
    mk = {}
    if small:
        # every truncation of a few valid encodings (exhaustive prefixes)
        for h in small[: (40 if thorough else 8)]:
            for i in range(0, len(h), 2):
                byte_cases.append((h[:i], "prefix"))
        for i in range(n_mut):
            h, kind = mutate(rng, rng.choice(small), small)
            byte_cases.append((h, kind))
    # structure-aware mutants of one encoding per node kind: every header x boundary sizes x every type
    ft = frame_types()
    for h in kind_encs:
        byte_cases += structural_mutants(h, ft, rng, 4000 if thorough else 700)
    for h in rng.sample(small, min(len(small), 300 if thorough else 25)):
        byte_cases += structural_mutants(h, ft, rng, 1500 if thorough else 200)
    for _, kind in byte_cases:
        mk[kind] = mk.get(kind, 0) + 1
    dreq = ["dec " + h for h, _ in byte_cases]
    irep2 = V.run_batch(impl, dreq, hang_s=5)
    mrep2 = V.run_batch([model], dreq, hang_s=60, mem_kb=8_000_000)
    outcome = {"ok": 0, "err": 0}
    dec_agree = 0
    for (h, kind), ir, mr in zip(byte_cases, irep2, mrep2):
        if ir is None or ir.startswith(("hang", "died", "crash")):
            ctx.violation("Decode %s on a byte string (%s): %s" % ((ir or "no reply").split()[0], kind, (ir or "")[:120]),
                          {"bytes_hex": h[:4000], "impl": ir, "model": (mr or "")[:500]}, {"kind": "decode-" + (ir or "none").split()[0]})
            continue
        outcome["ok" if ir.startswith("ok") else "err"] += 1
        if ir != mr:
            ctx.violation("Decode result differs between ast/codec and Model/Codec.v (%s input)" % kind,
                          {"bytes_hex": h[:4000], "impl": ir[:2000], "model": (mr or "")[:2000]})
        else:
            dec_agree += 1
    if not proved and not ctx.violations:
        ctx.violation("proof obligation of C19 no longer checks: " + (ctx.broken or "Props/C19.v"),
                      {"no_failing_input": True, "broken": ctx.broken,
                       "searched": "%d programs, %d byte strings: implementation round-trips and never crashes on them" % (len(cases), len(byte_cases))})
    ctx.samples = [{"source": sources[i][1][:200].decode("utf-8", "replace"), "label": sources[i][2]} for i in (0, len(sources) // 2, len(sources) - 1)]
    ctx.samples += [{"decode_input_hex": h[:120], "kind": k} for h, k in byte_cases[-3:]]
    ctx.coverage.update({
        "evaluations": len(cases) + len(byte_cases),
        "distinct_nontrivial": len(nontrivial) + len(set(h for h, _ in byte_cases)),
        "programs_parsed": len(cases), "programs_rejected_by_parser": parse_fail,
        "encode_agree": enc_agree, "impl_roundtrip_ok": roundtrip_ok,
        "decode_inputs": len(byte_cases), "decode_agree": dec_agree, "decode_outcomes": outcome,
        "mutation_kinds": mk, "node_kinds": dict(sorted(kinds.items(), key=lambda kv: -kv[1])[:60]),
        "generator_stats": dict(sorted(g.stats.items())),
    })
    return ctx.finish(
        level="proof",
        rule="theorems of coq/Props/C19.v over Model/Codec.v (unbounded); correspondence: repository .vcl files + corpus + "
             "grammar-generated programs (distinct = distinct projected AST), and for the decoder: valid encodings, all prefixes "
             "of a few, seeded truncation/flip/replace/splice/delete/dup/random mutations (distinct = distinct byte string)")
