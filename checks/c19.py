"""C19 - the AST codec round-trips every statement and decoding is total.

proof  : coq/Props/C19.v  (decode_encode, decode_total, decode_no_crash over Model/Codec.v)
tie    : T  Gen/CodecFrames.v regenerated from ast/codec/codec.go
         C  extracted model (build/modelrun_codec) vs real codec (build/implrun codec):
            Encode bytes, Decode result on valid encodings, truncations, bit flips, splices, random bytes
         wf: the extracted checker wfb_block (C19_wfb_sound/_complete) is run on every AST the REAL parser
            produced: `wf 1` is required (the round-trip theorem covers it), except exactly the known finding
         plugin path: Encoder.Encode(stmt) bytes vs encode1; plugin.ReadLinterRequest[T] for EVERY T of the
            LintStatement union vs read_request, on single-statement encodings and on mutated byte strings;
            end to end through linter.customLint -> plugin process (falco-verifecho = implrun codecplug-echo)
         T  Gen/CodecPlugin.v regenerated from plugin/linter.go, ast/*.go, linter/linter.go, ast/codec/encoder.go
oracle : on the implementation alone: decode(encode(parse src)) == parse src (projected), decode never
         panics / hangs on any byte string; ReadLinterRequest[T](Encode(s)) is s for T = type of s and a
         LinterRequestError naming the type for every other T.
"""
import os
import random
import vcommon as V
from gen import vclgen

HEX = "0123456789abcdef"


def corpus_sources():
    d = os.path.join(V.VERIF, "corpus", "C19")
    out = []
    if os.path.isdir(d):
        for fn in sorted(os.listdir(d)):
            if fn.endswith(".vcl"):
                mode = "vcl" if fn.startswith("vcl_") else "snippet"
                out.append((mode, open(os.path.join(d, fn), "rb").read(), "corpus/" + fn))
    return out


def corpus_bytes():
    d = os.path.join(V.VERIF, "corpus", "C19")
    out = []
    if os.path.isdir(d):
        for fn in sorted(os.listdir(d)):
            if fn.endswith(".hex"):
                out.append((open(os.path.join(d, fn)).read().strip(), "corpus/" + fn))
    return out


def big_sources(rng):
    """strings around the 16-bit leaf limit, many-statement blocks beyond the 4096-byte reader buffer"""
    out = []
    for n in (65535, 65536, 70000, 200000):
        out.append(("snippet", ('set req.http.X = "%s";' % ("a" * n)).encode(), "leaf%d" % n))
    # INTEGER / FLOAT frames carry 8 value bytes + the source literal: payload 65535 (fits) and 65536 (does not)
    out.append(("snippet", ("set var.f = 1.%s;" % ("0" * 65525)).encode(), "float-literal-65527"))
    out.append(("snippet", ("set var.f = 1.%s;" % ("0" * 65526)).encode(), "float-literal-65528"))
    out.append(("snippet", ("set var.i = %s1;" % ("0" * 65527)).encode(), "int-literal-65528"))
    out.append(("snippet", ("if (req.http.A) { " + 'set req.http.X = "abcdefghijklmnopqrstuvwxyz0123456789";' * 300 + " }").encode(), "block-10k"))
    out.append(("vcl", ("sub vcl_recv { " + "".join('set req.http.X%d = "%s";' % (i, "v" * (i % 97)) for i in range(400)) + " }").encode(), "sub-4k-boundaries"))
    return out


KIND_CORPUS = [
    ("snippet", 'set req.http.A = "x";'), ("snippet", 'set var.i += 10;'), ("snippet", 'add resp.http.Set-Cookie = "a" "b";'),
    ("snippet", 'unset req.http.A;'), ("snippet", 'remove req.http.A;'), ("snippet", 'declare local var.s STRING;'),
    ("snippet", 'call f;'), ("snippet", 'call f(1, "a", req.http.B);'), ("snippet", 'error;'), ("snippet", 'error 404;'),
    ("snippet", 'error "x";'),      # rejected by the parser today; if it were accepted the AST (no code, an argument) is outside wf
    ("snippet", 'error 601 "x" + req.url;'), ("snippet", 'esi;'), ("snippet", 'log "a" req.url 10 1.5 10s true;'), ("snippet", 'restart;'),
    ("snippet", 'return;'), ("snippet", 'return (lookup);'), ("snippet", 'return var.s;'), ("snippet", 'synthetic {"x"};'),
    ("snippet", 'synthetic.base64 "eA==";'), ("snippet", 'std.log("a", 1);'), ("snippet", 'goto l1;\nl1:\n'), ("snippet", 'include "m";'),
    ("snippet", '{ esi; { restart; } }'),
    ("snippet", 'if (req.http.A == "x" && !req.http.B || (req.url ~ "^/a")) { esi; } else if (a) { restart; } elsif (b) { } else { log "x"; }'),
    ("snippet", 'if (a) { switch (req.url) { case "a": esi; break; case ~ "b": fallthrough; default: restart; break; } }'),
    ("snippet", 'if (a) { switch (std.tolower(req.url)) { case "a": break; } }'),
    ("snippet", 'set var.s = if(req.http.A, "y", "n") + std.strlen(regsub(req.url, "a", "b")) + -1 + (1 + 2);'),
    ("snippet", 'set var.i = 0x7FFFFFFFFFFFFFFF; set var.f = 1e3; set var.t = 10ms;'),
    ("vcl", 'acl a { "10.0.0.0"/8; !"10.1.0.0"/16; "::1"; !"192.168.0.1"; }'),
    ("vcl", 'backend b { .host = "h"; .port = "80"; .ssl = true; .connect_timeout = 1s; .probe = { .request = "GET /" "Host: x"; .interval = 5s; } }'),
    ("vcl", 'director d random { .quorum = 50%; .retries = 3; { .backend = b; .weight = 1; } { .backend = c; .weight = 2; } }'),
    ("vcl", 'table t { "a": "b", "c": "d" }'), ("vcl", 'table t2 INTEGER { "a": 1, }'), ("vcl", 'table t3 BACKEND { }'),
    ("vcl", 'penaltybox p { }'), ("vcl", 'ratecounter r { }'), ("vcl", 'import m;'), ("vcl", 'include "x";'),
    ("vcl", 'sub f { }'), ("vcl", 'sub g STRING { return "x"; }'), ("vcl", 'sub h(STRING a, INTEGER b) BOOL { return true; }'),
    ("vcl", 'sub vcl_recv { #FASTLY recv\n set req.http.A = "" ; return (pass); }'),
]

LEAF_TYPES = None


def frame_types():
    """name -> number, from the regenerated coq/Gen/CodecFrames.v (same table the model uses)"""
    import re
    txt = open(os.path.join(V.COQ, "Gen", "CodecFrames.v")).read()
    return {m.group(1): int(m.group(2)) for m in re.finditer(r"Definition FT_(\w+) : N := (\d+)\.", txt)}


def headers(b, ft):
    """offsets of the 3-byte frame headers of a VALID encoding (leaf frames carry a payload)"""
    leaf = {ft[k] for k in ("IDENT_VALUE", "STRING_VALUE", "IP_VALUE", "RTIME_VALUE", "INTEGER_VALUE", "FLOAT_VALUE", "BOOL_VALUE", "OPERATOR")}
    out = []
    pos = 0
    while pos < len(b):
        t = b[pos]
        if t in (ft["END"], ft["FIN"]):
            pos += 1
            continue
        if pos + 3 > len(b):
            break
        size = (b[pos + 1] << 8) | b[pos + 2]
        out.append((pos, t in leaf, size))
        pos += 3 + (size if t in leaf else 0)
    return out


def structural_mutants(hx, ft, rng, per_encoding):
    """every frame header x boundary sizes (with the payload kept, cut or padded accordingly) and
    x every frame type: the decoder's length / type handling at each position of a valid stream"""
    b = bytes.fromhex(hx)
    hs = headers(b, ft)
    out = []
    sizes = [0, 1, 2, 7, 8, 9, 255, 256, 65535]
    types = sorted(set(ft.values()))
    for pos, leaf, size in hs:
        for k in sizes + [max(size - 1, 0), size + 1]:
            nb = bytearray(b)
            nb[pos + 1], nb[pos + 2] = (k >> 8) & 255, k & 255
            out.append((bytes(nb).hex(), "size-only"))
            if leaf and k < 70000:
                payload = b[pos + 3: pos + 3 + size]
                newp = (payload + b"\x00" * k)[:k]
                out.append(((b[:pos + 1] + bytes([(k >> 8) & 255, k & 255]) + newp + b[pos + 3 + size:]).hex(), "size+payload"))
        for t in types:
            nb = bytearray(b)
            nb[pos] = t
            out.append((bytes(nb).hex(), "type"))
    if len(out) > per_encoding:
        out = rng.sample(out, per_encoding)
    return out


def boundary_sources():
    """string leaves whose multi-byte runes straddle every offset around the buffer sizes the codec uses
    (512-byte frame pool, 4096-byte bufio window), and expressions nested deeper than any fixed-size stack"""
    out = []
    for ch in ("\u00e9", "\u65e5", "\U0001F600"):           # 2-, 3-, 4-byte
        w = len(ch.encode())
        for total in (520, 1040, 4110, 8200):
            for shift in range(w + 1):
                body = "a" * shift + ch * ((total - shift) // w)
                out.append(("snippet", ('set req.http.X = "%s" "%s";' % (body, body[: 40])).encode(), "leaf-%dB-%d-shift%d" % (w, total, shift)))
                out.append(("snippet", ('log {"%s"};' % body).encode(), "longleaf-%dB-%d-shift%d" % (w, total, shift)))
    for depth in (15, 16, 17, 18, 24, 40, 80):
        chain = " + ".join('"s%d"' % i for i in range(depth + 1))
        ors = " || ".join("req.http.H%d" % i for i in range(depth + 1))
        groups = "(" * depth + "req.http.A" + ")" * depth
        calls = "std.tolower(" * depth + '"x"' + ")" * depth
        ifs = "if(req.http.A, " * depth + '"z"' + ', "n")' * depth
        for name, e in (("concat", chain), ("or", ors), ("group", groups), ("call", calls), ("ifexp", ifs)):
            cond = e if name in ("or", "group") else 'req.http.Q == "1"'
            val = e if name not in ("or",) else '"v"'
            # the deep statement is followed by ordinary compound statements in the SAME encode call
            out.append(("snippet", ('if (%s) { set req.http.X = %s; }\nset req.http.Y = "a" + req.http.B + std.tolower("C");\n'
                                    'if (req.http.A == "x" && !req.http.B) { log "k" req.url; }\n' % (cond, val)).encode(),
                        "deep-%s-%d" % (name, depth)))
    return out


def mutate(rng, hx, donors):
    b = bytearray.fromhex(hx)
    k = rng.random()
    if k < 0.35 and len(b) > 1:      # truncation
        return bytes(b[: rng.randrange(0, len(b))]).hex(), "trunc"
    if k < 0.6 and b:               # bit flip(s)
        for _ in range(rng.choice([1, 1, 2, 3])):
            i = rng.randrange(len(b))
            b[i] ^= 1 << rng.randrange(8)
        return bytes(b).hex(), "flip"
    if k < 0.7 and b:               # byte replace with an interesting value
        i = rng.randrange(len(b))
        b[i] = rng.choice([0, 1, 2, 255, 17, 30, 23, 52, 54, 50, 57, rng.randrange(256)])
        return bytes(b).hex(), "replace"
    if k < 0.85 and donors:          # splice
        d = bytearray.fromhex(rng.choice(donors))
        i = rng.randrange(len(b) + 1)
        j = rng.randrange(len(d) + 1)
        return bytes(b[:i] + d[j:]).hex(), "splice"
    if k < 0.92 and b:               # delete / duplicate a chunk
        i = rng.randrange(len(b))
        j = min(len(b), i + rng.randint(1, 6))
        if rng.random() < 0.5:
            return bytes(b[:i] + b[j:]).hex(), "delete"
        return bytes(b[:j] + b[i:j] + b[j:]).hex(), "dup"
    n = rng.randint(0, 40)           # random bytes biased to frame types
    return bytes(rng.choice([rng.randrange(256), rng.randrange(60), 0, 1, 2]) for _ in range(n)).hex(), "random"


def leaf_over_64k(ast_sexp):
    """does the statement contain a leaf frame whose payload is >= 65536 bytes?  (string / ident / operator:
    the UTF-8 bytes; INTEGER / FLOAT: 8 value bytes + the source literal)"""
    import re
    if any(len(m) // 2 >= 65536 for m in re.findall(r'"([0-9a-f]*)"', ast_sexp)):
        return True
    return any(8 + len(m) // 2 >= 65536 for m in re.findall(r'\((?:int|float|m) x[0-9a-f]+ "([0-9a-f]*)"\)', ast_sexp))


# sexp head of a projected statement -> Go type name (reflect name ReadLinterRequest reports)
HEAD_TYPE = {
    "acl": "AclDeclaration", "backend": "BackendDeclaration", "director": "DirectorDeclaration", "table": "TableDeclaration",
    "sub": "SubroutineDeclaration", "penaltybox": "PenaltyboxDeclaration", "ratecounter": "RatecounterDeclaration",
    "block": "BlockStatement", "import": "ImportStatement", "include": "IncludeStatement", "declare": "DeclareStatement",
    "set": "SetStatement", "unset": "UnsetStatement", "remove": "RemoveStatement", "if": "IfStatement", "switch": "SwitchStatement",
    "restart": "RestartStatement", "esi": "EsiStatement", "add": "AddStatement", "call": "CallStatement", "error": "ErrorStatement",
    "log": "LogStatement", "return": "ReturnStatement", "synthetic": "SyntheticStatement", "synthetic64": "SyntheticBase64Statement",
    "goto": "GotoStatement", "gotodest": "GotoDestinationStatement", "funcall": "FunctionCallStatement",
    "break": "BreakStatement", "fallthrough": "FallthroughStatement", "case": "CaseStatement",
}
NOT_LINTABLE = {"BreakStatement", "FallthroughStatement", "CaseStatement"}   # replaced in run() by: statement types outside the regenerated union
# statement nodes (*Linter).lint is never handed (lintCaseStatement / lintIfStatement walk them directly;
# include statements are replaced by resolveIncludeStatements before the statements of a block are linted)
E2E_NOT_VISITED = ("BreakStatement", "FallthroughStatement", "CaseStatement", "IfStatement(", "IncludeStatement")

E2E_TEXT = [
    b"""// @plugin: verifecho
sub vcl_recv { #FASTLY recv
 // @plugin: verifecho arg1 arg2
 if (req.http.A) {
   # @plugin: verifecho
   esi;
 }
 /* @plugin: verifecho */
 set req.http.X = "y" + req.http.B;
 // @plugin:verifecho
 error;
 return (pass); }
// @plugin: verifecho
acl a { "10.0.0.0"/8; }
""",
    b"""sub f(STRING a, INTEGER b) BOOL {
 // @plugin: verifecho
 // @plugin: verifecho again
 call g(1, "x");
 # @plugin: verifecho
 return true; }
sub g { }
""",
]


def lint_statement_types():
    import re
    txt = open(os.path.join(V.COQ, "Gen", "CodecPlugin.v")).read()
    m = re.search(r"Definition lint_statement_types : list string := \[(.*?)\]\.", txt)
    return re.findall(r'"([^"]*)"', m.group(1)) if m else []


def expected_plug(ast, not_lintable):
    """what every instantiation of ReadLinterRequest must answer on Encode(s), from s alone"""
    import re
    k = HEAD_TYPE.get(re.match(r"\((\w+)", ast).group(1), "?")
    if k in not_lintable:
        return "none | rest type:" + k
    return "ok %s %s | rest type:%s" % (k, ast, k)


def par_batch(cmd, reqs, parts, min_n=64, **kw):
    """V.run_batch over `parts` contiguous chunks, one process each, in parallel: same replies in the same order
    (only for commands without per-process state)"""
    if parts <= 1 or len(reqs) < min_n:
        return V.run_batch(cmd, reqs, **kw)
    import concurrent.futures as cf
    size = (len(reqs) + parts - 1) // parts
    chunks = [reqs[i:i + size] for i in range(0, len(reqs), size)]
    with cf.ThreadPoolExecutor(len(chunks)) as ex:
        outs = list(ex.map(lambda c: V.run_batch(cmd, c, **kw), chunks))
    return [r for o in outs for r in o]


def both(f, g):
    """run two batch jobs side by side"""
    import concurrent.futures as cf
    with cf.ThreadPoolExecutor(2) as ex:
        a, b = ex.submit(f), ex.submit(g)
        return a.result(), b.result()


def run(ctx):
    rng = ctx.rng
    thorough = ctx.thorough()
    proved = ctx.prove()
    with V.Lock("build"):
        model = V.driver("codec")
    impl = [os.path.join(V.BUILD, "implrun"), "codec"]
    ctx.trusted += [
        "Coq 8.16.1 kernel (coqc; vm_compute for table obligations; no native_compute)",
        "axioms: none (Print Assumptions of every theorem of Props/C19.v: Closed under the global context)",
        "extraction: ExtrOcamlBasic only, no Extract Constant/Inductive beyond it; OCaml 4.13.1; ocaml/common.ml + ocaml/codec_main.ml (S-expression glue)",
        "translator harness/cmd/trans (FrameType iota block -> Gen/CodecFrames.v)",
        "harness/cmd/implrun codec.go (projection of the Go AST onto Model/CodecAst.v: names, operators, literal values, arguments, parameters, nested statements)",
        "harness/cmd/implrun codec_plugin.go (one ReadLinterRequest instantiation per member of LintStatement, compared with the regenerated union; "
        "classification of LinterRequestError by its three message shapes; falco-verifecho plugin = implrun codecplug-echo)",
        "translator harness/cmd/trans codec_plugin.go (LintStatement union, Statement() receivers, type switches of Linter.lint / Encoder.encode -> Gen/CodecPlugin.v)",
        "Model/CodecPlugin.v read_request is a hand transcription of plugin/linter.go ReadLinterRequest (os.Args not modelled), tied by the differential run",
        "modelled not verified: Model/Codec.v is a hand transcription of ast/codec/*.go, tied by the differential run below",
        "Go strings are compared as the rune sequence `range s` yields (what stringToBytes encodes)",
    ]

    # ---------------- inputs
    g = vclgen.Gen(rng)
    n_gen = 6000 if thorough else 700
    sources = corpus_sources() + big_sources(rng)
    sources += [(m, src.encode(), "kind-%d" % i) for i, (m, src) in enumerate(KIND_CORPUS)]
    sources += boundary_sources()
    for path, data in vclgen.repo_vcl_files(V.REPO):
        sources.append(("vcl", data, path))
    for i in range(n_gen):
        if rng.random() < 0.5:
            sources.append(("snippet", g.snippet().encode(), "gen-snippet-%d" % i))
        else:
            sources.append(("vcl", g.program().encode(), "gen-vcl-%d" % i))
    # --replay <file>: only the recorded program / byte string (the seeded corpus run is reproducible from the seed anyway)
    rp = None
    if ctx.replay:
        import json
        rp = json.load(open(ctx.replay)).get("replay", {})
        if rp.get("source_hex"):
            sources = [(rp.get("mode", "snippet"), bytes.fromhex(rp["source_hex"]), "replay")]
        elif rp.get("bytes_hex") is not None:
            sources = [(m, src.encode(), "kind-%d" % i) for i, (m, src) in enumerate(KIND_CORPUS)]
    reqs = ["src %s %s" % (m, s.hex()) for m, s, _ in sources]
    irep = V.run_batch(impl, reqs, hang_s=10)

    asts, encs, kinds = [], [], {}
    parse_fail = 0
    enc_fail_impl = 0
    cases = []   # (label, ast, impl_enc, impl_dec)
    for (m, s, label), rep in zip(sources, irep):
        if rep is None or rep.startswith(("hang", "died", "crash")):
            ctx.violation("codec (parse/encode/decode of a valid program) %s on %s" % (rep, label),
                          {"mode": m, "source_hex": s.hex()[:4000], "reply": rep})
            continue
        if rep.startswith("parseerr"):
            parse_fail += 1
            continue
        parts = rep.split(" | ")
        ast = parts[0][4:]
        if parts[1] == "encerr":
            enc_fail_impl += 1
            cases.append((label, ast, None, None, m, s))
            continue
        cases.append((label, ast, parts[1][4:], parts[2][4:], m, s))
        if len(parts) > 3 and parts[3] == "held MISMATCH":
            ctx.violation("bytes returned by an earlier Encodes call no longer decode to their statements after a later call (before %s)" % label,
                          {"mode": m, "source_hex": s.hex()[:4000], "note": "the previous request's held result was re-decoded after this request's encode/decode"},
                          {"kind": "held-result"})
    # model: encode the same ASTs
    mreq = ["enc " + c[1] for c in cases]
    mrep = par_batch([model], mreq, 4, hang_s=60, mem_kb=8_000_000)
    import re
    valid_encs = []
    kind_encs = []
    roundtrip_ok = 0
    enc_agree = 0
    wf_ok = 0
    nontrivial = set()
    for c, mr in zip(cases, mrep):
        label, ast, ienc, idec, m, s = c
        for k in re.findall(r"\((\w+)", ast):
            kinds[k] = kinds.get(k, 0) + 1
        facts = {"kind": "leaf-over-64k"} if leaf_over_64k(ast) else {}
        mr, _, wf = (mr or "").partition(" | wf ")
        # the hypothesis of C19_decode_encode, decided by the extracted wfb_block on what the parser produced
        if facts:
            if wf != "0 model":
                ctx.violation("a statement list with a leaf >= 64 KiB is reported `wf %s` by the extracted checker (%s)" % (wf, label),
                              {"mode": m, "source_hex": s.hex()[:4000], "ast": ast[:2000]})
        elif wf != "1":
            ctx.violation("the parser produced an AST outside the well-formedness hypothesis of the round-trip theorem "
                          "(wfb_block: wf %s): the theorem does not cover %s" % (wf, label),
                          {"mode": m, "source_hex": s.hex()[:4000], "ast": ast[:2000], "wf": wf})
        else:
            wf_ok += 1
        if ienc is None:
            if mr != "err":
                ctx.violation("Encode: implementation returns an error, model says %s (%s)" % (mr[:80], label),
                              {"mode": m, "source_hex": s.hex()[:4000], "ast": ast[:2000]}, facts or None)
            continue
        if mr != "enc " + ienc:
            ctx.violation("Encode bytes differ between ast/codec and Model/Codec.v on %s" % label,
                          {"mode": m, "source_hex": s.hex()[:4000], "ast": ast[:2000], "impl": ienc[:2000], "model": mr[:2000]},
                          facts or None)
        else:
            enc_agree += 1
        # direct oracle on the implementation: decode(encode(x)) ~ x
        if idec != "ok " + ast:
            ctx.violation("round trip fails on the implementation: decode(encode(s)) != s for %s" % label,
                          {"mode": m, "source_hex": s.hex()[:4000], "ast": ast[:2000], "decoded": (idec or "")[:2000]},
                          facts or {"kind": "roundtrip"})
        else:
            roundtrip_ok += 1
        nontrivial.add(ast)
        if len(ienc) < 20000:
            valid_encs.append(ienc)
        if label.startswith("kind-"):
            kind_encs.append(ienc)
    # ---------------- decoder totality + correspondence on arbitrary bytes
    n_mut = 120000 if thorough else 14000
    byte_cases = [(h, lab) for h, lab in corpus_bytes()]
    if rp and rp.get("bytes_hex") is not None:
        byte_cases.append((rp["bytes_hex"], "replay"))
        n_mut = 0
    byte_cases += [(h, "valid") for h in valid_encs[:2000]]
    small = [h for h in valid_encs if len(h) < 1200] or valid_encs
    mk = {}
    if small:
        # every truncation of a few valid encodings (exhaustive prefixes)
        for h in small[: (40 if thorough else 8)]:
            for i in range(0, len(h), 2):
                byte_cases.append((h[:i], "prefix"))
        for i in range(n_mut):
            h, kind = mutate(rng, rng.choice(small), small)
            byte_cases.append((h, kind))
    # structure-aware mutants of one encoding per node kind: every header x boundary sizes x every type
    ft = frame_types()
    for h in kind_encs:
        byte_cases += structural_mutants(h, ft, rng, 4000 if thorough else 700)
    for h in rng.sample(small, min(len(small), 300 if thorough else 25)):
        byte_cases += structural_mutants(h, ft, rng, 1500 if thorough else 200)
    for _, kind in byte_cases:
        mk[kind] = mk.get(kind, 0) + 1
    dreq = ["dec " + h for h, _ in byte_cases]
    irep2, mrep2 = both(lambda: par_batch(impl, dreq, 2, hang_s=5),
                        lambda: par_batch([model], dreq, 6, hang_s=60, mem_kb=8_000_000))
    outcome = {"ok": 0, "err": 0}
    dec_agree = 0
    for (h, kind), ir, mr in zip(byte_cases, irep2, mrep2):
        if ir is None or ir.startswith(("hang", "died", "crash")):
            ctx.violation("Decode %s on a byte string (%s): %s" % ((ir or "no reply").split()[0], kind, (ir or "")[:120]),
                          {"bytes_hex": h[:4000], "impl": ir, "model": (mr or "")[:500]}, {"kind": "decode-" + (ir or "none").split()[0]})
            continue
        outcome["ok" if ir.startswith("ok") else "err"] += 1
        if ir != mr:
            ctx.violation("Decode result differs between ast/codec and Model/Codec.v (%s input)" % kind,
                          {"bytes_hex": h[:4000], "impl": ir[:2000], "model": (mr or "")[:2000]})
        else:
            dec_agree += 1
    # ---------------- the plugin path: Encoder.Encode(stmt) -> ReadLinterRequest[T]
    import re as _re
    pimpl = [os.path.join(V.BUILD, "implrun"), "codecplug"]
    readers = (V.run_batch(pimpl, ["readers"], hang_s=10)[0] or "").split()
    union = lint_statement_types()
    not_lintable = set(HEAD_TYPE.values()) - set(union)     # statically: NOT_LINTABLE (theorem C19_plugin_kinds, last clause)
    if readers != union:
        ctx.violation("the LintStatement union of plugin/linter.go is not the set of ReadLinterRequest instantiations the harness runs",
                      {"no_failing_input": True, "union": union, "harness": readers})
    n_psrc = 1500 if thorough else 260
    per_src = 200 if thorough else 40
    fixed_src = [(m, s_, lab) for (m, s_, lab) in sources if lab.startswith(("kind-", "corpus/")) and len(s_) < 20000]
    other_src = [(m, s_, lab) for (m, s_, lab) in sources if not lab.startswith(("kind-", "corpus/", "leaf", "float-", "int-", "block-", "sub-4k", "longleaf", "deep-")) and len(s_) < 20000]
    psources = fixed_src + rng.sample(other_src, min(len(other_src), n_psrc))
    prep = par_batch(pimpl, ["src1 %s %s %d" % (m, s_.hex() or "-", per_src) for m, s_, _ in psources], 4, hang_s=20)
    singles = {}          # ast -> (enc hex | None, impl plug reply, label, mode, source)
    stmt_nodes = 0
    for (m, s_, lab), rep in zip(psources, prep):
        if rep is None or rep.startswith(("hang", "died", "crash")):
            ctx.violation("Encode / ReadLinterRequest of the statements of a valid program: %s (%s)" % ((rep or "no reply")[:120], lab),
                          {"mode": m, "source_hex": s_.hex()[:4000], "reply": rep}, {"kind": "plugin-" + (rep or "none").split()[0]})
            continue
        if rep.startswith("parseerr"):
            continue
        items = rep.split(" || ")
        if not _re.match(r"n \d+$", items[0]):
            ctx.violation("unreadable reply of the plugin-path harness (%s): %s" % (lab, rep[:200]), {"mode": m, "source_hex": s_.hex()[:4000], "reply": rep[:500]})
            continue
        stmt_nodes += int(items[0].split()[1])
        for it in items[1:]:
            f = it.split(" ; ")
            a = f[0][4:]
            if a in singles:
                continue
            if f[1] == "encerr":
                singles[a] = (None, None, lab, m, s_)
                continue
            if f[-1] != "same":
                ctx.violation("Encoder.Encode(s) and Encoder.Encodes([s]) return different bytes (%s)" % lab,
                              {"mode": m, "source_hex": s_.hex()[:4000], "statement": a[:2000], "encode": f[1][4:][:2000]}, {"kind": "encode-vs-encodes"})
            singles[a] = (f[1][4:], f[2][5:], lab, m, s_)
    plug_kinds = {}
    plug_oracle_ok = 0
    single_encs = {}      # Go type -> a single-statement encoding
    items = list(singles.items())
    mrep_e, mrep_p = both(lambda: par_batch([model], ["enc1 " + a for a, _ in items], 2, hang_s=60, mem_kb=8_000_000),
                          lambda: par_batch([model], ["plug " + (v[0] or "") for _, v in items], 2, hang_s=60, mem_kb=8_000_000))
    enc1_agree = plug_agree = 0
    import re as _re
    for (a, (enc1, iplug, lab, m, s_)), me, mp in zip(items, mrep_e, mrep_p):
        big = {"kind": "leaf-over-64k"} if leaf_over_64k(a) else None
        replay = {"mode": m, "source_hex": s_.hex()[:4000], "statement": a[:2000]}
        me, _, wf = (me or "").partition(" | wf ")
        if (wf != "1") != bool(big):
            ctx.violation("a statement the parser produced is outside the hypothesis of C19_plugin_roundtrip (wfb_stmt: wf %s) in %s" % (wf, lab),
                          dict(replay, wf=wf), big)
        if enc1 is None:
            if me != "err":
                ctx.violation("Encoder.Encode returns an error, encode1 of the model says %s (%s)" % (me[:80], lab), replay, big)
            continue
        if me != "enc " + enc1:
            ctx.violation("Encoder.Encode(stmt) bytes differ from encode1 of Model/CodecPlugin.v (%s)" % lab,
                          dict(replay, impl=enc1[:2000], model=me[:2000]), big)
        else:
            enc1_agree += 1
        k = HEAD_TYPE.get(_re.match(r"\((\w+)", a).group(1), "?")
        plug_kinds[k] = plug_kinds.get(k, 0) + 1
        # direct oracle on the implementation: every instantiation of ReadLinterRequest on Encode(s)
        if iplug != expected_plug(a, not_lintable):
            ctx.violation("plugin.ReadLinterRequest on Encoder.Encode(s): expected the statement for T = %s and a type error for every other T (%s)" % (k, lab),
                          dict(replay, bytes_hex=enc1[:2000], got=(iplug or "")[:2000], expected=expected_plug(a, not_lintable)[:2000]),
                          big or {"kind": "plugin-roundtrip"})
        else:
            plug_oracle_ok += 1
        if iplug != mp:
            ctx.violation("ReadLinterRequest result differs between plugin/linter.go and read_request of Model/CodecPlugin.v on Encode(s) (%s)" % lab,
                          dict(replay, bytes_hex=enc1[:2000], impl=(iplug or "")[:2000], model=(mp or "")[:2000]), big)
        else:
            plug_agree += 1
        if len(enc1) < 500 and (k not in single_encs or len(enc1) > len(single_encs[k])) and not big:
            single_encs[k] = enc1
    for k in sorted(set(HEAD_TYPE.values())):
        if plug_kinds.get(k, 0) == 0 and not rp:
            ctx.violation("no statement of kind %s reached the plugin-path correspondence (generator / corpus lost a kind)" % k,
                          {"no_failing_input": True, "kinds": plug_kinds})
    # ReadLinterRequest on arbitrary bytes: mutants of one single-statement encoding per kind + a sample of the decoder inputs
    pbytes = []
    donors = list(single_encs.values())
    fin_hex = "%02x" % ft["FIN"]
    end_hex = "%02x" % ft["END"]
    for k, h in sorted(single_encs.items()):
        for i in range(0, len(h) + 2, 2):
            pbytes.append((h[:i], "prefix"))
        pbytes.append((h[:-2], "no-fin"))
        pbytes.append((h[:-2] + rng.choice(donors), "two-statements"))
        pbytes.append((fin_hex + h, "fin-first"))
        pbytes.append((end_hex + h, "end-first"))
        pbytes += structural_mutants(h, ft, rng, 600 if thorough else 90)
        for _ in range(400 if thorough else 30):
            pbytes.append(mutate(rng, h, donors))
    pbytes += rng.sample(byte_cases, min(len(byte_cases), 20000 if thorough else 1500))
    if rp and rp.get("bytes_hex") is not None:
        pbytes = [(rp["bytes_hex"], "replay")]
    pbytes = list(dict.fromkeys(pbytes))
    preq = ["plug " + h for h, _ in pbytes]
    # a decoder that already hung / died in the Decode stage would make every chunk wait for its watchdog again
    # (same decoder underneath): the finding is recorded, keep this stage short
    decoder_stuck = sum(1 for r in irep2 if r is None or r.startswith(("hang", "died", "skipped"))) > 0
    if decoder_stuck:
        pbytes = pbytes[:400]
        preq = preq[:400]
    iprep, mprep = both(lambda: (V.run_batch(pimpl, preq, hang_s=5, max_failures=2, confirm_hangs=False) if decoder_stuck
                                 else par_batch(pimpl, preq, 6, hang_s=5)),
                        lambda: par_batch([model], preq, 2, hang_s=60, mem_kb=8_000_000))
    plug_out = {"request": 0, "decode": 0, "empty": 0, "type": 0}
    plug_bytes_agree = 0
    for (h, kind), ir, mr in zip(pbytes, iprep, mprep):
        if ir is None or ir.startswith(("hang", "died", "crash")) or " | rest " not in ir:
            ctx.violation("ReadLinterRequest %s on a byte string (%s): %s" % ((ir or "no reply").split()[0], kind, (ir or "")[:120]),
                          {"bytes_hex": h[:4000], "impl": ir, "model": (mr or "")[:500]}, {"kind": "plugin-" + (ir or "none").split()[0]})
            continue
        head, _, rest = ir.partition(" | rest ")
        # a request or a LinterRequestError of one of the three documented shapes, the same for every T but the matching one
        shapes = rest.split(",") if rest else []
        if any(not (x in ("decode", "empty") or x.startswith("type:")) for x in shapes) or len(shapes) > 1 or head.count("ok ") > 1:
            ctx.violation("ReadLinterRequest returned neither a request nor a LinterRequestError of a documented shape (%s input)" % kind,
                          {"bytes_hex": h[:4000], "impl": ir[:2000]}, {"kind": "plugin-shape"})
        plug_out["request" if head != "none" else (shapes[0].split(":")[0] if shapes else "type")] += 1
        if ir != mr:
            ctx.violation("ReadLinterRequest result differs between plugin/linter.go and Model/CodecPlugin.v (%s input)" % kind,
                          {"bytes_hex": h[:4000], "impl": ir[:2000], "model": (mr or "")[:2000]})
        else:
            plug_bytes_agree += 1
    # end to end: the real linter hands every statement to customLint, which pipes Encode(stmt) to the plugin process
    pdir = os.path.join(V.BUILD, "plugins")
    os.makedirs(pdir, exist_ok=True)
    script = "#!/bin/sh\nexec %s codecplug-echo \"$@\"\n" % os.path.join(V.BUILD, "implrun")
    sp = os.path.join(pdir, "falco-verifecho")
    if not os.path.exists(sp) or open(sp).read() != script:
        with open(sp, "w") as fh:
            fh.write(script)
        os.chmod(sp, 0o755)
    vcl_src = [(s_, lab) for (m, s_, lab) in sources if m == "vcl" and len(s_) < 6000 and not lab.startswith(("sub-4k",))]
    fixed_e2e = [(s_, lab) for (s_, lab) in vcl_src if lab.startswith(("kind-", "corpus/"))]
    rest_e2e = [(s_, lab) for (s_, lab) in vcl_src if not lab.startswith(("kind-", "corpus/"))]
    e2e = [("inject", s_, lab) for s_, lab in fixed_e2e + rng.sample(rest_e2e, min(len(rest_e2e), 600 if thorough else 45))]
    e2e += [("text", s_, "e2e-text-%d" % i) for i, s_ in enumerate(E2E_TEXT)]
    if rp and rp.get("e2e") and rp.get("source_hex"):
        e2e = [(rp["e2e"], bytes.fromhex(rp["source_hex"]), "replay")]
    env = dict(os.environ, VERIF_PLUGIN_DIR=pdir)
    erep = par_batch(pimpl, ["e2e %s %s" % (md, s_.hex()) for md, s_, _ in e2e], 6, min_n=8, hang_s=60, env=env)
    e2e_calls = e2e_expected = e2e_progs = 0
    e2e_missing = {}
    for (md, s_, lab), rep in zip(e2e, erep):
        if rep is None or rep.startswith(("hang", "died", "crash", "badreq")):
            ctx.violation("linting a program whose statements call a plugin: %s (%s)" % ((rep or "no reply")[:160], lab),
                          {"mode": "vcl", "e2e": md, "source_hex": s_.hex()[:8000], "reply": rep}, {"kind": "plugin-e2e-" + (rep or "none").split()[0]})
            continue
        if rep.startswith("parseerr"):
            continue
        mm = _re.match(r"e2e calls (\d+) expected (\d+) extra (\d+) (\[.*\]) missing \[(.*?)\] fails (\d+) (\[.*\]) unreadable \[(.*?)\]$", rep)
        if not mm:
            ctx.violation("unreadable e2e reply (%s)" % lab, {"reply": rep[:500]})
            continue
        e2e_progs += 1
        e2e_calls += int(mm.group(1))
        e2e_expected += int(mm.group(2))
        if int(mm.group(3)) or int(mm.group(6)):
            ctx.violation("a plugin started by linter.customLint did not receive the statement it was called for (%s): %s extra answers, %s failed calls"
                          % (lab, mm.group(3), mm.group(6)),
                          {"mode": "vcl", "e2e": md, "source_hex": s_.hex()[:8000], "extra": mm.group(4)[:2000], "fails": mm.group(7)[:2000]},
                          {"kind": "plugin-e2e"})
        if mm.group(8):
            ctx.violation("linter.customLint started a plugin on a statement no instantiation of ReadLinterRequest accepts "
                          "(its type is not in the LintStatement union): %s (%s)" % (", ".join(sorted(set(mm.group(8).split()))), lab),
                          {"mode": "vcl", "e2e": md, "source_hex": s_.hex()[:8000], "types": mm.group(8)}, {"kind": "plugin-e2e-unreadable"})
        for item in mm.group(5).split():
            kk, _, nn = item.rpartition(":")
            e2e_missing[kk] = e2e_missing.get(kk, 0) + int(nn)
            if md == "text" or not kk.startswith(E2E_NOT_VISITED):
                ctx.violation("linter.customLint did not call the plugin for an annotated %s (%s)" % (kk, lab),
                              {"mode": "vcl", "e2e": md, "source_hex": s_.hex()[:8000], "missing": mm.group(5)}, {"kind": "plugin-e2e-missing"})
    if e2e_progs and e2e_calls == 0:
        ctx.violation("no plugin call was observed end to end (falco-verifecho never started)", {"no_failing_input": True, "programs": e2e_progs})
    if not proved and not ctx.violations:
        ctx.violation("proof obligation of C19 no longer checks: " + (ctx.broken or "Props/C19.v"),
                      {"no_failing_input": True, "broken": ctx.broken,
                       "searched": "%d programs, %d byte strings: implementation round-trips and never crashes on them" % (len(cases), len(byte_cases))})
    ctx.samples = [{"source": sources[i][1][:200].decode("utf-8", "replace"), "label": sources[i][2]} for i in (0, len(sources) // 2, len(sources) - 1)]
    ctx.samples += [{"decode_input_hex": h[:120], "kind": k} for h, k in byte_cases[-3:]]
    ctx.coverage.update({
        "evaluations": len(cases) + len(byte_cases) + len(singles) + len(pbytes) + e2e_calls,
        "distinct_nontrivial": len(nontrivial) + len(set(h for h, _ in byte_cases)) + len(singles) + len(pbytes),
        "programs_parsed": len(cases), "programs_rejected_by_parser": parse_fail,
        "encode_agree": enc_agree, "impl_roundtrip_ok": roundtrip_ok, "parser_asts_wf": wf_ok,
        "plugin_statement_nodes_seen": stmt_nodes, "plugin_single_statements": len(singles), "plugin_encode1_agree": enc1_agree,
        "plugin_impl_oracle_ok": plug_oracle_ok, "plugin_readrequest_agree": plug_agree, "plugin_kinds": dict(sorted(plug_kinds.items())),
        "plugin_byte_inputs": len(pbytes), "plugin_byte_agree": plug_bytes_agree, "plugin_byte_outcomes": plug_out,
        "plugin_instantiations_per_input": len(readers),
        "e2e_programs": e2e_progs, "e2e_plugin_calls": e2e_calls, "e2e_annotated": e2e_expected, "e2e_not_visited_by_linter": e2e_missing,
        "decode_inputs": len(byte_cases), "decode_agree": dec_agree, "decode_outcomes": outcome,
        "mutation_kinds": mk, "node_kinds": dict(sorted(kinds.items(), key=lambda kv: -kv[1])[:60]),
        "generator_stats": dict(sorted(g.stats.items())),
    })
    return ctx.finish(
        level="proof",
        rule="theorems of coq/Props/C19.v over Model/Codec.v (unbounded); correspondence: repository .vcl files + corpus + "
             "grammar-generated programs (distinct = distinct projected AST), and for the decoder: valid encodings, all prefixes "
             "of a few, seeded truncation/flip/replace/splice/delete/dup/random mutations (distinct = distinct byte string); "
             "plugin path: every statement node (top level and nested) of a sample of those programs, single-statement encodings "
             "(distinct = distinct projected statement), their prefixes / structural / seeded mutants through all instantiations of "
             "ReadLinterRequest, and programs linted end to end with a plugin process per statement")
