"""C01 - Lexing and parsing are total, and diagnostics are located in the input.

proof  : coq/Props/C01.v  (lex_total, lex_no_crash, lex_typed, lex_located, pump_total, pump_no_crash, source_long_ok,
         parse_total, parse_no_crash, parse_error_located for the three entry points, keyword table = documented table) over
         Model/Lex.v + Model/Pump.v + Model/LexParse.v (+ C02's Model/Parse*.v)
tie    : T  Gen/Tokens.v (token type constants + keywords map) regenerated from token/token.go
         C  extracted model (build/modelrun_lex: lex, pump) vs the real lexer and the parser's ReadPeek
            (build/implrun lex|pump) on the same byte strings: token streams (type, literal, line, column)
            and pumped metas (token, nest level, leading comments with their flags, empty-line counts)
         C  extracted composed model (build/modelrun_lexparse: bytes -> lexer -> pump -> parser model) vs build/implrun parse:
            outcome class and error token (type, literal, line, column, offset) for ParseVCL, ParseSnippetVCL, ParseVCLOrSnippet
oracle : on the implementation alone (independent of the model): lexing ends with EOF, the EOF token is stable,
         no token has an empty type, every token's (line, column) lies inside the input and the text there starts
         with the token's surface form; the three parser entry points (ParseVCL, ParseSnippetVCL,
         ParseVCLOrSnippet) terminate under a watchdog without panic, and every error is a *ParseError whose
         token is located in the same sense.
"""
import os
import re
import vcommon as V
from gen import vclgen, lex_inputs as LI

MODES = ("vcl", "snippet", "auto")


def corpus_inputs():
    d = os.path.join(V.VERIF, "corpus", "C01")
    out = []
    if os.path.isdir(d):
        for fn in sorted(os.listdir(d)):
            p = os.path.join(d, fn)
            if fn.endswith(".hex"):
                out.append(("corpus/" + fn, bytes.fromhex(open(p).read().strip())))
            elif fn.endswith(".vcl"):
                out.append(("corpus/" + fn, open(p, "rb").read()))
    return out


def reference_keywords():
    """the documented keyword table, read from coq/Model/LexSpec.v (kw "spelling" "TYPE")"""
    txt = open(os.path.join(V.COQ, "Model", "LexSpec.v")).read()
    return re.findall(r'kw "([^"]+)" "([^"]+)"', txt)


def reference_operators():
    """(spelling, Go type string) of every operator / punctuation token of the documented table (coq/Model/LexOps.v)"""
    names = dict(re.findall(r'Definition T_(\w+) : list N := \[[^\]]*\]\. \(\* "([^"]*)" \*\)',
                            open(os.path.join(V.COQ, "Gen", "Tokens.v")).read()))
    out = []
    txt = open(os.path.join(V.COQ, "Model", "LexOps.v")).read()
    txt = txt[txt.index("Definition ref_op_table"):]
    for line in txt.splitlines():
        m = re.match(r'\s*\(chr "(.)",', line)
        if not m:
            continue
        c = m.group(1)
        for ty, lit in re.findall(r'(?<![A-Z])L T_(\w+) "([^"]+)"', line):
            out.append((lit, names.get(ty, ty)))
        for ty in re.findall(r'L1 T_(\w+)', line):
            out.append((c, names.get(ty, ty)))
    return out


# the documented character classes (same as Model/LexSpec.v ref_*), used to probe every byte
def _letter(b): return 97 <= b <= 122 or 65 <= b <= 90 or b == 95
def _decimal(b): return 48 <= b <= 57
def _hex(b): return _decimal(b) or 97 <= b <= 102 or 65 <= b <= 70


def class_probes():
    """(label, source, expected first token (TYPE, literal bytes) or None when only located-ness is checked)"""
    out = []
    for b in range(1, 128):
        ch = bytes([b])
        if b in (0x0a,):
            continue
        out.append(("class:letter:%02x" % b, ch + b"q", ("IDENT", ch + b"q") if _letter(b) else None))
        out.append(("class:ident-tail:%02x" % b, b"q" + ch + b"q",
                    ("IDENT", b"q" + ch + b"q") if (_letter(b) or _decimal(b) or b in (45, 46, 58, 42)) else ("IDENT", b"q")))
        out.append(("class:decimal:%02x" % b, b"7" + ch, ("INT", b"7" + ch) if _decimal(b) else None))
        out.append(("class:hex:%02x" % b, b"0x" + ch + b" ", ("INT", b"0x" + ch) if _hex(b) else None))
        out.append(("class:delimiter:%02x" % b, b"{" + ch + b'"x"' + ch + b"} ",
                    ("OPEN_LONG_STRING", ch) if (_letter(b) or _decimal(b)) else
                    ("OPEN_LONG_STRING", b"") if b == 0x22 else ("LEFT_BRACE", b"{")))
        # white space: the first token starts in column 2 exactly when the byte is blank, tab or CR
        out.append(("class:space:%02x" % b, ch + b"q", ("@col", 2 if b in (32, 9, 13) else 1)))
    return out


def first_fail(rep):
    return rep is None or rep.startswith(("hang", "died", "crash", "skipped"))


def cls(rep):
    return (rep or "none").split()[0]


def run(ctx):
    rng = ctx.rng
    thorough = ctx.thorough()
    proved = ctx.prove()
    with V.Lock("build"):
        model = V.driver("lex")
        V.driver("lexparse")
    implrun = os.path.join(V.BUILD, "implrun")
    ctx.trusted += [
        "Coq 8.16.1 kernel (coqc; vm_compute for the table obligation and the Examples; no native_compute)",
        "axioms: none (Print Assumptions of every theorem of Props/C01.v: Closed under the global context)",
        "extraction: ExtrOcamlBasic only; OCaml 4.13.1; ocaml/common.ml + ocaml/lex_main.ml (printing of tokens / metas)",
        "translators harness/cmd/trans/lex_tokens.go (token constants, keywords map -> Gen/Tokens.v), lex_classes.go (character classes and "
        "loop conditions -> Gen/LexClasses.v), lex_ops.go (the NextToken switch -> Gen/LexOps.v)",
        "harness/cmd/implrun/lex.go (drives lexer.NextToken, parser.New/NextToken/PeekToken, the three Parse entry points; "
        "computes the raw-byte position table of the oracle with Go's own []rune(string) decoding)",
        "modelled not verified: Model/Lex.v and Model/Pump.v are hand transcriptions of lexer/lexer.go, lexer/reader.go and "
        "Parser.ReadPeek, tied by the differential run below; bufio.Reader is modelled as the remaining byte list with a 4096-byte Peek window",
        "the parser model is C02's (Model/Parse*.v, Gen/TokenTypes.v, Gen/ParserTables.v); C01 composes it with the lexer/pump model "
        "(Model/LexParse.v) and compares the composition with the three real entry points (outcome class + error token); "
        "strconv.ParseFloat verdicts are an oracle supplied by the Go side (implrun floats)",
        "C01_parse_error_located rests on C02's parse_error_located (provenance of the parser model's error token); the error token is also compared with the real parser on every input",
        "lexer custom tokens (WithCustomTokens / parser custom parsers) are not modelled (empty map)",
    ]

    # ------------------------------------------------------------------ inputs
    inputs = []          # (label, bytes)
    if ctx.replay:       # bin/check C01 --replay replays/C01-....json : that input only
        import json
        rp = json.load(open(ctx.replay))["replay"]
        if rp.get("source_hex") is not None:
            return run_inputs(ctx, proved, model, implrun, [("replay", bytes.fromhex(rp["source_hex"]))], None, replaying=True)
    inputs += corpus_inputs()
    inputs += LI.handcrafted()
    inputs += LI.boundary_sweep(rng, thorough)      # multi-byte characters at every offset around the 4096-byte refills
    inputs += LI.dense_multibyte(thorough)          # multi-byte bodies in every phase across several refills
    inputs += LI.special_sequences()                # BOMs, controls, overlong / surrogate / invalid sequences as prefix / infix / suffix
    inputs += LI.long_runs(thorough)                # tokens and runs beyond the window, thousands of line feeds
    files = vclgen.repo_vcl_files(V.REPO)
    inputs += [("file:" + p, d) for p, d in files]
    inputs += LI.line_endings(files)                # every repository file with CRLF / CR / mixed line ends
    inputs += LI.nesting(thorough)                  # nesting depth 1 .. 1500 of every recursive construct, closed / open / over-closed
    inputs += LI.error_positions(rng, files, thorough)   # one error injected at positions spread over the longest files, LF and CRLF
    docs = LI.docs_blocks(V.REPO)
    inputs += docs if thorough else docs[:60]
    for kwd, ty in reference_keywords():
        inputs.append(("keyword", kwd.encode()))
        inputs.append(("keyword-stmt", ("sub f { " + kwd + " x; }").encode()))
    for lit, ty in reference_operators():           # every documented operator spelling, alone and between operands
        inputs.append(("operator-probe", lit.encode()))
        inputs.append(("operator-probe-ctx", ("a" + lit + "b " + lit).encode()))
    inputs += [(lab, src) for lab, src, _ in class_probes()]   # every ASCII byte against every documented character class
    if thorough:
        inputs += LI.prefixes(rng, files, small_limit=1 << 30, per_large=None)
    else:
        small = [f for f in files if len(f[1]) <= 700]
        rng.shuffle(small)
        inputs += LI.prefixes(rng, small[:10], small_limit=700, per_large=None)
        inputs += LI.prefixes(rng, [f for f in files if len(f[1]) > 700], small_limit=0, per_large=25)
    g = vclgen.Gen(rng)
    n_gen = 4000 if thorough else 300
    gens = []
    for i in range(n_gen):
        s = (g.snippet() if rng.random() < 0.5 else g.program()).encode()
        gens.append(("gen", s))
    inputs += gens
    bases = [d for _, d in files if 0 < len(d) < 4000] + [d for _, d in gens]
    n_mut = 60000 if thorough else 2200
    for i in range(n_mut):
        b = rng.choice(bases)
        if rng.random() < 0.5:
            m, kind = LI.mutate_byte(rng, b)
        else:
            m, kind = LI.mutate_token(rng, b)
        if rng.random() < 0.3:     # and truncated somewhere after the mutation
            m = m[: rng.randrange(len(m) + 1)]
            kind += "+trunc"
        inputs.append((kind, m))
    inputs += LI.soup(rng, 20000 if thorough else 1000)
    return run_inputs(ctx, proved, model, implrun, inputs, g)


def run_inputs(ctx, proved, model, implrun, inputs, g, replaying=False):
    dist = {}
    for lab, _ in inputs:
        k = lab.split(":")[0]
        dist[k] = dist.get(k, 0) + 1
    hexes = [d.hex() for _, d in inputs]

    # ------------------------------------------------------------------ runs
    big = 9_000_000
    # the batches are independent processes: run them side by side (each run_batch supervises its own process)
    from concurrent.futures import ThreadPoolExecutor
    with ThreadPoolExecutor(max_workers=8) as ex:
        f_lex = ex.submit(V.run_batch, [implrun, "lex"], hexes, hang_s=2, max_failures=3)
        f_pump = ex.submit(V.run_batch, [implrun, "pump"], hexes, hang_s=2, max_failures=3)
        f_mlex = ex.submit(V.run_batch, [model], ["lex " + h for h in hexes], hang_s=60, mem_kb=big)
        f_mpump = ex.submit(V.run_batch, [model], ["pump " + h for h in hexes], hang_s=60, mem_kb=big)
        f_getline = ex.submit(V.run_batch, [implrun, "getline"], hexes, hang_s=2, max_failures=3)
        f_parse = {m: ex.submit(V.run_batch, [implrun, "parse"], [m + " " + h for h in hexes], hang_s=2, max_failures=3)
                   for m in MODES}
        # the composed model bytes -> lexer -> pump -> parser model (Model/LexParse.v); strconv.ParseFloat verdicts from Go
        i_floats = V.run_batch([implrun, "floats"], hexes, hang_s=4, max_failures=3)
        m_parse = V.run_batch([os.path.join(V.BUILD, "modelrun_lexparse")],
                              [((f if f and not first_fail(f) else "-") + " " + h) for f, h in zip(i_floats, hexes)],
                              hang_s=120, mem_kb=big)
        i_lex, i_pump, m_lex, m_pump = f_lex.result(), f_pump.result(), f_mlex.result(), f_mpump.result()
        i_getline = f_getline.result()
        i_parse = {m: f_parse[m].result() for m in MODES}

    def replay(lab, d, **kw):
        r = {"label": lab, "source_hex": d.hex(), "source": d[:300].decode("utf-8", "replace")}
        r.update({k: (v or "")[:1500] if isinstance(v, str) or v is None else v for k, v in kw.items()})
        return r

    agree_lex = agree_pump = 0
    getline_ok = 0
    agree_parse = {}
    tok_types = {}
    n_tokens = 0
    outcomes = {m: {} for m in MODES}
    err_types = {}
    distinct = set()
    for k, (lab, d) in enumerate(inputs):
        distinct.add(d)
        il, ip, ml, mp = i_lex[k], i_pump[k], m_lex[k], m_pump[k]
        # ---- lexer: oracle on the implementation
        if first_fail(il):
            if cls(il) != "skipped":
                ctx.violation("lexer %s on input (%s): %s" % (cls(il), lab, (il or "")[:160]), replay(lab, d, impl=il))
        else:
            verdict, _, toks = il.partition(" | ")
            if verdict != "good":
                ctx.violation("lexer oracle (%s): %s" % (lab, verdict[4:200]), replay(lab, d, impl=il))
            for ty in re.findall(r"\((\S+) \"", toks):
                tok_types[ty] = tok_types.get(ty, 0) + 1
                n_tokens += 1
            # ---- lexer: model vs implementation
            if ml != toks:
                what = "token stream differs between lexer and Model/Lex.v (%s)" % lab
                if ml in ("outoffuel", "crash"):
                    what = "Model/Lex.v returns %s (%s)" % (ml, lab)
                ctx.violation(what, replay(lab, d, impl=toks, model=ml))
            else:
                agree_lex += 1
        # ---- GetLine / LineCount (what the CLI prints under a located diagnostic): oracle on the raw bytes
        gl = i_getline[k]
        if first_fail(gl):
            if cls(gl) != "skipped":
                ctx.violation("GetLine/LineCount %s on input (%s)" % (cls(gl), lab), replay(lab, d, impl=gl))
        elif not gl.startswith("good"):
            ctx.violation("GetLine does not return the source line (%s): %s" % (lab, gl[4:200]), replay(lab, d, impl=gl))
        else:
            getline_ok += 1
        # ---- pump
        if first_fail(ip):
            if cls(ip) != "skipped":
                ctx.violation("parser token pump (New/ReadPeek) %s on input (%s): %s" % (cls(ip), lab, (ip or "")[:160]),
                              replay(lab, d, impl=ip))
        elif ip.startswith("noeof"):
            ctx.violation("parser token pump does not reach EOF (%s)" % lab, replay(lab, d, impl=ip))
        elif ip != mp:
            what = "pumped tokens differ between Parser.ReadPeek and Model/Pump.v (%s)" % lab
            if mp in ("outoffuel", "crash"):
                what = "Model/Pump.v returns %s (%s)" % (mp, lab)
            ctx.violation(what, replay(lab, d, impl=ip, model=mp))
        else:
            agree_pump += 1
        # ---- parser entry points: watchdog + located errors
        mpr = (m_parse[k] or "none").split(" | ")
        for mi, m in enumerate(MODES):
            r = i_parse[m][k]
            c = cls(r)
            # ---- composed model vs the real parser: outcome class and located error token
            if not first_fail(r):
                want = "ok" if c == "ok" else "plain" if c == "plain" else "perr " + r.split(" ", 2)[2] if c == "perr" else r
                got = mpr[mi] if len(mpr) == 3 else (m_parse[k] or "none")
                if got != want:
                    what = "parse outcome (%s) differs between the real parser and the composed model Lex+Pump+Parse (%s)" % (m, lab)
                    if got in ("crash", "fuel", "outoffuel", "hang") or got.startswith(("died", "badreq")):
                        what = "composed model Lex+Pump+Parse returns %s (%s, %s)" % (got[:60], m, lab)
                    ctx.violation(what, replay(lab, d, mode=m, impl=r, model=got))
                else:
                    agree_parse[m] = agree_parse.get(m, 0) + 1
            outcomes[m][c] = outcomes[m].get(c, 0) + 1
            if first_fail(r):
                if c != "skipped":
                    ctx.violation("parser (%s) %s on input (%s): %s" % (m, c, lab, (r or "")[:160]), replay(lab, d, mode=m, impl=r))
            elif c == "plain":
                msg = bytes.fromhex(re.findall(r'"([0-9a-f]*)"', r)[0]).decode("utf-8", "replace")
                ctx.violation("parser (%s) returns an error without token/line/column: %s" % (m, msg[:120]),
                              replay(lab, d, mode=m, impl=r))
            elif c == "perr":
                parts = r.split(" ", 2)
                ty = re.findall(r"\((\S+) ", parts[2])
                if ty:
                    err_types[ty[0]] = err_types.get(ty[0], 0) + 1
                if parts[1] != "good":
                    ctx.violation("parse error (%s) is not located in the input: %s" % (m, parts[1][4:200].replace("_", " ")),
                                  replay(lab, d, mode=m, impl=r))
    # ---- the documented keywords lex to their documented types (focus of the table obligation)
    kw_ok = 0
    idx = {d: k for k, (lab, d) in enumerate(inputs) if lab == "keyword"}
    for kwd, ty in ([] if replaying else reference_keywords()):
        r = i_lex[idx[kwd.encode()]] or ""
        if "(%s \"%s\" 1 1 0)" % (ty, kwd.encode().hex()) in r:
            kw_ok += 1
        elif not first_fail(r):
            ctx.violation("keyword %r is not lexed as %s" % (kwd, ty), replay("keyword", kwd.encode(), impl=r, expected=ty))

    # ---- documented operator spellings and character classes (focus of the table / class obligations)
    ops_ok = classes_ok = 0
    if not replaying:
        first = {}
        for k, (lab, d) in enumerate(inputs):
            first.setdefault((lab, d), k)
        for lit, ty in reference_operators():
            r = i_lex[first[("operator-probe", lit.encode())]] or ""
            if '(%s "%s" 1 1 0)' % (ty, lit.encode().hex()) in r:
                ops_ok += 1
            elif not first_fail(r):
                ctx.violation("operator %r is not lexed as %s" % (lit, ty), replay("operator-probe", lit.encode(), impl=r, expected=ty))
        for lab, src, exp in class_probes():
            if exp is None:
                continue
            r = i_lex[first[(lab, src)]] or ""
            if first_fail(r):
                continue
            toks = r.partition(" | ")[2]
            if exp[0] == "@col":
                m0 = re.match(r'\(\S+ "[0-9a-f]*" (\d+) (\d+) ', toks)
                want = "first token at 1:%d" % exp[1]
                good = bool(m0) and (m0.group(1), m0.group(2)) == ("1", str(exp[1]))
            else:
                want = '(%s "%s" ' % (exp[0], exp[1].hex())
                good = toks.startswith(want)
            if good:
                classes_ok += 1
            else:
                ctx.violation("character class probe %s: expected %s" % (lab, want),
                              replay(lab, src, impl=r, expected=want))
    if not proved and not ctx.violations:
        ctx.violation("proof obligation of C01 no longer checks: " + (ctx.broken or "Props/C01.v"),
                      {"no_failing_input": True, "broken": ctx.broken,
                       "searched": "%d inputs: the implementation terminates, never panics, every token and parse error is located" % len(inputs)})
    pick = [0, len(inputs) // 3, 2 * len(inputs) // 3, len(inputs) - 1]
    ctx.samples = [{"label": inputs[i][0], "source": inputs[i][1][:160].decode("utf-8", "replace"),
                    "tokens": (i_lex[i] or "")[:300]} for i in pick]
    ctx.coverage.update({
        "evaluations": len(inputs) * 9,
        "distinct_nontrivial": len(distinct),
        "inputs": len(inputs), "input_distribution": dict(sorted(dist.items(), key=lambda kv: -kv[1])),
        "getline_ok": getline_ok, "lex_agree": agree_lex, "pump_agree": agree_pump, "parse_agree": agree_parse, "tokens_checked_by_oracle": n_tokens,
        "token_types_seen": dict(sorted(tok_types.items(), key=lambda kv: -kv[1])),
        "parse_outcomes": outcomes, "parse_error_token_types": dict(sorted(err_types.items(), key=lambda kv: -kv[1])),
        "keywords_checked": kw_ok, "operators_checked": ops_ok, "class_probes_checked": classes_ok, "bytes_total": sum(len(d) for _, d in inputs),
        "generator_stats": dict(sorted(g.stats.items())) if g else {},
    })
    return ctx.finish(
        level="proof",
        rule="theorems of coq/Props/C01.v over Model/Lex.v + Model/Pump.v + Model/LexParse.v (every byte string / every token stream); "
             "correspondence and oracle on: corpus, handcrafted malformed stream, buffer-boundary sweep (2/3/4-byte and cut characters at every offset around "
             "the 4096-byte refills in 8 token kinds), dense multi-byte bodies in every phase, special byte sequences (BOMs, controls, overlong, surrogates, "
             "invalid) as prefix/infix/suffix of programs and tokens, runs and tokens beyond the window, every repository .vcl file, documentation blocks, "
             "keywords, byte prefixes of small files, token-boundary prefixes of large ones, grammar-generated programs, "
             "seeded byte/token mutations (+truncation), lexeme soup; each input through lex, pump (model vs implementation) and the "
             "three parser entry points (watchdog + located *ParseError); distinct = distinct byte string")
