"""C08 - Simulation is total and bounded.

proof  : coq/Props/C08.v  (ops_total / oper_total: every assignment and binary operator on ALL operands is a
         value or an error; call-depth and restart bounds over Model/Exec.v with the limits and guard sites
         regenerated from the Go sources (Gen/EvalConst.v); include expansion total over Model/EvalInclude.v)
tie    : T  Gen/EvalConst.v  (maxCallStackExceedCount, MaxVarnishRestarts, guard sites in subroutine.go,
            statement.go, interpreter.go, include.go)
         C  real interpreter in watchdog-supervised worker processes (hang 3 s, memory limit):
            (i)   implrun evalcell : operator x type pair x boundary operand grid, outcome class + value vs model
            (ii)  implrun builtin  : every built-in of __generator__/builtin.yml x signatures x boundary arguments
            (iii) implrun simrun   : whole requests (1-3 per interpreter): recursive / mutually recursive
                  subroutines, call chains around the depth limit, restart / return(restart) in every scope,
                  self / mutual includes - outcome compared with Model/Exec.v serve, Model/EvalInclude.v resolve;
                  plus the whole finite product {restart; return(restart); error; recursive call (plain,
                  functional by call, functional inside an expression); self include} x {22 syntactic positions:
                  top level, block, if/else/else-if/nested arms, switch case/default/fallthrough, user subs (1-2
                  levels), FUNCTIONAL subs reached by call f(); / inside set / inside a condition / through other
                  subs} x {9 scopes}, every tier
oracle : on the implementation alone: every outcome is a value or a runtime error - a Go panic, a fatal error
         (stack overflow, out of memory) or no progress for 3 s is a violation with a replay.
"""
import os
import vcommon as V
import eval_util as EU
from gen import evalgen, simgen, builtingen, histgen, graphgen, pathgen
from checks import c07 as C07


def _bad(reply):
    return reply is None or reply.split()[:1] in (["crash"], ["died"], ["hang"], ["skipped"], ["badreq"], ["initerr"]) or reply == ""


def run_grid(ctx, model, impl, thorough):
    rng = ctx.rng
    corpus = [evalgen.Cell(*c) for c in C07.CELL_CORPUS]
    if thorough:
        cells = list(evalgen.assign_cells_exhaustive()) + list(evalgen.oper_cells_exhaustive()) + evalgen.sample_cells(rng, 100000, 100000)
    else:
        cells = evalgen.sample_cells(rng, 60000, 30000)
    cells = corpus + cells
    res = EU.run_cells(cells, model, impl)
    classes = {}
    per_op = {}
    for c, ir, mr, ic, mc in res:
        cl = EU.classify(ic)
        classes[cl] = classes.get(cl, 0) + 1
        per_op[c.op] = per_op.get(c.op, 0) + 1
        if cl not in ("value", "error"):
            ctx.violation("operator %s: %s -> %s" % (cl, c.describe(), (ir or "no reply")[:160]),
                          {"cell": c.impl(), "impl": ir, "model": mr})
        elif EU.classify(mc) != cl:
            ctx.violation("outcome class differs: %s -> interpreter %s, model %s" % (c.describe(), cl, (mr or "")[:80]),
                          {"cell": c.impl(), "impl": ir, "model_request": c.model(ir), "model": mr})
    ctx.coverage["grid"] = {"cells": len(cells), "exhaustive_boundary_grid": bool(thorough), "outcome_classes": classes,
                            "cells_per_operator": dict(sorted(per_op.items()))}
    ctx.samples += [{"cell": res[i][0].describe(), "interpreter": (res[i][1] or "")[:80]} for i in (0, len(res) // 2)]
    return len(cells), len(set(c.impl() for c in cells))


def run_builtins(ctx, impl, thorough):
    rng = ctx.rng
    fns = builtingen.load_functions(V.REPO)
    calls = [(t, n, s, c) for t, n, s, c in BUILTIN_CORPUS] + builtingen.gen_calls(rng, fns, 160 if thorough else 24)
    rep = EU.run_sharded(impl + ["builtin"], [c[0] for c in calls], hang_s=3, mem_kb=4_000_000, max_failures=60)
    classes = {}
    per_fn = {}
    for (text, name, sig, cls), r in zip(calls, rep):
        k = (r or "none").split()[0] if r else "none"
        k = {"ok": "value", "err": "error", "died": "crash"}.get(k, k)
        classes[k] = classes.get(k, 0) + 1
        per_fn[name] = per_fn.get(name, 0) + 1
        if k not in ("value", "error"):
            facts = {"function": name, "class": "big*big"} if list(cls).count("big") >= 2 else {"function": name}
            ctx.violation("built-in %s(%s) %s on boundary arguments [%s]: %s" % (name, ", ".join(sig), k, " ".join(cls), (r or "")[:120]),
                          {"call": text[:3000], "classes": list(cls), "reply": r}, facts)
    ctx.coverage["builtins"] = {"functions": len(fns), "signatures": sum(len(s) for _, s, _, _ in fns), "calls": len(calls),
                                "functions_called": len(per_fn), "outcome_classes": classes,
                                "argument_classes": builtingen.CLASSES}
    ctx.samples += [{"builtin": calls[i][0][:160], "outcome": (rep[i] or "")[:40]} for i in (len(BUILTIN_CORPUS), len(calls) - 1)]
    return len(calls), len(set(c[0] for c in calls))


def run_builtin_models(ctx, model, impl, thorough):
    """built-ins whose loops / allocations are driven by an argument, against Model/Builtins.v: std.strrep, std.strpad,
    randomstr with hostile arguments (huge / negative counts, counts around the workspace limit, empty and 64 KiB strings);
    compared: value or error, the length, the bytes when they are few"""
    rng = ctx.rng
    strs = [b"", b"a", b"ab", b"xyz" * 33, b"a" * 65536]
    counts = [-2**63, -5, -1, 0, 1, 2, 3, 7, 1000, 65535, 65536, 131072, 262143, 262144, 262145, 2**31, 2**53 + 1, 2**63 - 1]
    pads = [b"", b"x", b"xy", b"a" * 65536]
    cases = []
    for s_ in strs:
        for c in counts:
            cases.append(("std.strrep RECV %s %s" % (evalgen.impl_text(rng.choice("vl"), ("S", s_, 0)), evalgen.impl_text("v", ("I", c, 0, 0, 0))),
                          "bi strrep %s %d" % (s_.hex() or "-", c), "value"))
            for p_ in pads:
                for sign in (1, -1):
                    if c in (-2**63,) and sign == -1:
                        continue
                    cases.append(("std.strpad RECV %s %s %s" % (evalgen.impl_text("l", ("S", s_, 0)), evalgen.impl_text("v", ("I", sign * c, 0, 0, 0)),
                                                                 evalgen.impl_text("l", ("S", p_, 0))),
                                  "bi strpad %s %d %s" % (s_.hex() or "-", sign * c, p_.hex() or "-"), "value"))
    # (the extracted model builds the string recursively: lengths up to 100000; the limit itself is probed by 262145)
    for c in [-2**63, -5, -1, 0, 1, 7, 1000, 65536, 100000, 262145, 2**31, 2**63 - 1]:
        for cs in (None, b"", b"ab", b"a" * 65536):
            req = "randomstr RECV %s" % evalgen.impl_text("v", ("I", c, 0, 0, 0)) + ("" if cs is None else " " + evalgen.impl_text("l", ("S", cs, 0)))
            dflt = b"abcdefghijklmnopqrstuvwxyzABCDEFGHIJKLMNOPQRSTUVWXYZ0123456789-_"
            cases.append((req, "bi randomstr %d %s" % (c, ((dflt if cs is None else cs).hex() or "-")), "length"))
    if not thorough:     # the calls with 64 KiB arguments are slow: every twelfth of them in the quick tier, all in thorough
        big = [c for c in cases if len(c[0]) > 100000]
        cases = [c for c in cases if len(c[0]) <= 100000] + big[ctx.seed % 12::12]
    irep = EU.run_sharded(impl + ["builtin"], [c[0] for c in cases], hang_s=5, mem_kb=4_000_000, max_failures=20)
    mrep = EU.run_sharded([model], [c[1] for c in cases], hang_s=60)
    agree = 0
    out = {}
    for (ireq, mreq, how), ir, mr in zip(cases, irep, mrep):
        i, m = (ir or "none").split(), (mr or "none").split()
        out[i[0]] = out.get(i[0], 0) + 1
        if i[0] == "ok" and len(i) >= 4:
            ic = ("ok", i[2], i[3], (i[4] if len(i) > 4 else "") if how == "value" else "-")
        else:
            ic = (i[0],)
        if m[0] == "ok":
            mc = ("ok", m[1], m[2], (m[3] if len(m) > 3 else "") if how == "value" else "-")
        else:
            mc = (m[0],)
        if how == "length" and ic[0] == "ok" and mc[0] == "ok":
            ic, mc = ic[:3], mc[:3]
        if ic == mc:
            agree += 1
        else:
            ctx.violation("built-in differs from Model/Builtins.v: %s -> interpreter %s, model %s" % (
                " ".join(w[:60] for w in ireq.split()), " ".join(i[:4])[:100], " ".join(m[:3])[:100]),
                {"call": ireq[:3000], "impl": (ir or "")[:400], "model_request": mreq[:3000], "model": (mr or "")[:400]})
    ctx.coverage["builtin_models"] = {"calls": len(cases), "agree_with_model": agree, "interpreter_outcomes": out,
                                      "functions": ["std.strrep", "std.strpad", "randomstr"]}
    return len(cases), len(cases)


def _req(mods, reqs):
    return "%s %s" % (",".join("%s=%s" % (n, c.encode().hex()) for n, c in mods),
                      ";".join("%s=%s" % (m, u.encode().hex()) for m, u in reqs))


def run_sims(ctx, model, impl, thorough):
    rng = ctx.rng
    stats = {}
    cases, ireq, mreq = [], [], []

    def add(kind, payload, rq, mods, mtext):
        cases.append((kind, payload, rq))
        ireq.append(_req(mods, rq))
        mreq.append(mtext)

    for kind, payload, rq in SIM_CORPUS():
        if kind == "skel":
            add(kind, payload, rq, [("main", simgen.skel_vcl(payload))], "sim " + simgen.skel_sexp(payload))
        elif kind == "inc":
            add(kind, payload, rq, simgen.inc_modules(*payload), simgen.inc_model(payload[0], payload[1]))
        else:
            add(kind, payload, rq, [("main", payload)], "sim ((error))")
    # (D) every bound-relevant statement x every syntactic position x every scope: the whole finite product, every tier
    n_pos = 0
    for stmt, pos, scope in simgen.position_product():
        mods, rq = simgen.position_program(stmt, pos, scope)
        cases.append(("pos", (stmt, pos, scope, dict(mods)), rq))
        ireq.append(_req(mods, rq))
        mreq.append("sim ((error))")
        n_pos += 1
    n = 20000 if thorough else 1500
    for _ in range(n):
        k = rng.random()
        rq = simgen.gen_requests(rng)
        if k < 0.5:
            subs = simgen.gen_skeleton(rng, stats)
            add("skel", subs, rq, [("main", simgen.skel_vcl(subs))], "sim " + simgen.skel_sexp(subs))
        elif k < 0.75:
            mods, top, root = simgen.gen_includes(rng, stats)
            add("inc", (mods, top, root), rq, simgen.inc_modules(mods, top, root), simgen.inc_model(mods, top))
        else:
            p = simgen.gen_scope_program(rng, stats)
            add("scope", p, rq, [("main", p)], "sim ((error))")
    irep = EU.run_sharded(impl + ["simrun"], ireq, hang_s=3, mem_kb=4_000_000, max_failures=16)
    mrep = EU.run_sharded([model], mreq, hang_s=60)
    counts = {}
    requests = 0
    pos_reached, pos_restarted = {}, set()
    for (kind, payload, rq), ir, mr in zip(cases, irep, mrep):
        where = ""
        if kind == "pos":
            src = payload[3]
            where = " [%s at position %s in vcl_%s]" % payload[:3]
        else:
            src = payload if kind == "scope" else (simgen.skel_vcl(payload) if kind == "skel" else dict(simgen.inc_modules(*payload)))
        replay = {"kind": kind, "program": src, "requests": rq, "impl": ir, "model": mr}
        if kind == "pos":
            replay.update({"statement": payload[0], "position": payload[1], "scope": payload[2]})
        if _bad(ir):
            counts[(kind, "crash/hang")] = counts.get((kind, "crash/hang"), 0) + 1
            ctx.violation("simulation does not end in a response or a runtime error (%s)%s: %s" % (kind, where, (ir or "no reply")[:160]), replay)
            continue
        words = ir.split()
        requests += len(words)
        exp = (mr or "").split()
        for (method, _), w in zip(rq, words):
            st, rs, er, cl, lg = w.split(":")
            if int(rs) > 3:     # the documented Fastly limit, independent of the constant in the sources
                ctx.violation("a request was restarted %s times: restarts are limited to three%s" % (rs, where), replay)
            if kind == "pos":
                pos_reached[payload[:3]] = pos_reached.get(payload[:3], False) or int(lg) > 0
                if payload[0] in ("restart", "return-restart") and int(rs) == 3:
                    pos_restarted.add(payload[:3])
                counts[(kind, "error" if er == "1" else "response")] = counts.get((kind, "error" if er == "1" else "response"), 0) + 1
                continue
            if kind == "scope" or method == "FASTLYPURGE":
                key = (kind, "error" if er == "1" else "response")
            elif kind == "skel":
                ok = (exp[:1] == ["err"] and er == "1") or (exp[:1] == ["ok"] and er == "0" and exp[2] == rs and st == "200")
                key = (kind, "agree" if ok else "differ")
                if not ok:
                    ctx.violation("request outcome differs from Model/Exec.v: interpreter %s (status:restarts:error:..), model %s" % (w, mr), replay)
            else:
                root = payload[2]
                ok = (exp[:1] == ["err"] and er == "1") or (exp[:1] == ["ok"] and er == "0" and (root or exp[1] == lg))
                key = (kind, "agree" if ok else "differ")
                if not ok:
                    ctx.violation("include expansion differs from Model/EvalInclude.v: interpreter %s, model %s" % (w, mr), replay)
            counts[key] = counts.get(key, 0) + 1
    ctx.coverage["simulations"] = {"programs": len(cases), "requests": requests,
                                   "outcomes": {"%s %s" % k: v for k, v in sorted(counts.items())},
                                   "generator": dict(sorted(stats.items())),
                                   "position_product": {
                                       "statements": sorted(simgen.POS_STATEMENTS), "positions": sorted(simgen.POSITIONS), "scopes": simgen.SCOPES,
                                       "programs": n_pos, "exhaustive": True,
                                       "position_reached_by_a_request": sum(1 for v in pos_reached.values() if v),
                                       "not_reached": sorted("%s/%s/%s" % k for k, v in pos_reached.items() if not v)[:40],
                                       "restart_statements_that_restarted_three_times": len(pos_restarted)}}
    ctx.samples += [{"program": (cases[i][1] if cases[i][0] == "scope" else str(cases[i][1]))[:300], "requests": cases[i][2], "interpreter": irep[i]}
                    for i in (len(cases) - 1, len(cases) // 2)]
    return requests, len(set(ireq))


def run_histories(ctx, impl, thorough):
    """LONG HISTORIES WITH TIME: one simulator, hundreds / thousands of requests, clock jumps in between (add-only
    hook VerifAdvanceClock): everything that outlives a request and grows - rate counter entries, penalty boxes,
    cached objects, call statistics.  Oracle: the history ends (watchdog 20 s of no progress per history), no panic /
    fatal error, restarts <= 3."""
    rng = ctx.rng
    stats = {}
    cases = [("growth %s ~%d then idle %ds" % (n, size, idle), prog, ops) for n, size, idle, prog, ops in histgen.growth_sweep(thorough)]
    n_sweep = len(cases)
    for _ in range(600 if thorough else 15):
        prog, ops = histgen.gen_history(rng, stats)
        cases.append(("random", prog, ops))
    reqs = ["main=%s %s" % (prog.encode().hex(), ops) for _, prog, ops in cases]
    rep = EU.run_sharded(impl + ["simhist"], reqs, hang_s=20, mem_kb=4_000_000, max_failures=10)
    total = 0
    worst = {"rc": 0, "pb": 0, "cache": 0}
    for (label, prog, ops), r in zip(cases, rep):
        replay = {"history": label, "program": prog, "ops": ops, "impl": r}
        if _bad(r) or not r.startswith("requests="):
            ctx.violation("a long history does not end with a response or a runtime error for every request (%s): %s" % (
                label, (r or "no reply")[:160]), replay)
            continue
        kv = dict(w.split("=") for w in r.split())
        total += int(kv["requests"])
        for k in worst:
            worst[k] = max(worst[k], int(kv[k]))
        if int(kv["maxrestarts"]) > 3:
            ctx.violation("a request of a long history was restarted %s times" % kv["maxrestarts"], replay)
    ctx.coverage["histories"] = {"histories": len(cases), "growth_sweep": n_sweep, "requests": total,
                                 "largest_state_seen": worst, "generator": dict(sorted(stats.items())),
                                 "clock_jumps_s": histgen.JUMPS}
    ctx.samples += [{"history": cases[-1][2][:200], "interpreter": rep[-1]}]
    return total, len(set(reqs))


def run_paths(ctx, impl, thorough):
    """LIFECYCLE ACTION PATHS x CACHE STATE: on one simulator a warming request (or none) followed by two requests whose
    subroutines take, per restart round, every assignment of {restart from a scope | end by delivery or by an error raised
    in a scope}: all paths with 0 and 1 restart, the 2-restart paths (quick: first round through the cache; thorough: all),
    warm and cold.  Oracle: every request ends with a response or a reported error, no panic / hang, restarts <= 3."""
    hs = list(pathgen.histories(thorough))
    reqs = ["main=%s %s" % (p.encode().hex(), ";".join("%s=%s=%s" % (m, u.encode().hex(), h.encode().hex()) for m, u, h in r)) for _, p, r in hs]
    rep = EU.run_sharded(impl + ["simrun"], reqs, hang_s=3, mem_kb=4_000_000, max_failures=12)
    out = {}
    n = 0
    for (label, prog, rq), r in zip(hs, rep):
        replay = {"path": label, "program": prog, "requests": rq, "impl": r}
        if _bad(r):
            ctx.violation("a request on a lifecycle path does not end in a response or a runtime error (%s): %s" % (label, (r or "no reply")[:140]), replay)
            continue
        for w in r.split():
            st, rs, er, cl, lg = w.split(":")
            n += 1
            k = "%s after %s restart(s)" % ("error" if er == "1" else "response", rs)
            out[k] = out.get(k, 0) + 1
            if int(rs) > 3:
                ctx.violation("a request on a lifecycle path was restarted %s times (%s)" % (rs, label), replay)
    ctx.coverage["lifecycle_paths"] = {"histories": len(hs), "requests": n, "outcomes": dict(sorted(out.items())),
                                       "restart_rounds": sorted(pathgen.restart_rounds()), "end_rounds": sorted(pathgen.END_ROUNDS),
                                       "two_restart_paths": "all" if thorough else "first round through the cache (%s), one restart spelling for the second" % ", ".join(pathgen.THROUGH_CACHE),
                                       "cache_states": ["warm (object stored by an earlier request)", "cold"], "exhaustive": True}
    ctx.samples += [{"path": hs[300][0], "interpreter": rep[300]}]
    return n, len(set(reqs))


def run_include_resolvers(ctx, model, impl, thorough):
    """RESOLVER KIND: every include scenario (acyclic, diamond, self, mutual, missing module; at root, inside a subroutine,
    nested in a block; include strings with / without .vcl, through a directory or an include path) through (a) the in-memory
    resolver whose source name is the include string, (b) a stub resolver whose source name differs from it, (c) the real
    resolver.NewFileResolvers on files on disk, and (d) the `falco test` process.  Module identity = the include string as
    written (Model/EvalInclude.v): every spelling is a module of the model.  Oracle: ends within the watchdog; error or not
    (and the number of statements that ran) as the model says."""
    import shutil
    import subprocess
    rng = ctx.rng
    stats = {}
    tmp = os.path.join(V.BUILD, "tmp")
    os.makedirs(tmp, exist_ok=True)
    env = dict(os.environ, VERIF_TMP=tmp)
    graphs = [simgen.gen_spelled_includes(rng, stats, k) for k in ("acyclic", "diamond", "self", "mutual", "random") for _ in range(4)]
    graphs += [simgen.gen_spelled_includes(rng, stats) for _ in range(3000 if thorough else 130)]
    cases = [(g, res) for g in graphs for res in ("map", "stub", "file")]
    get = "GET=%s" % "/".encode().hex()
    ireq = [simgen.spelled_render(*g, res) + " " + get for g, res in cases]
    mreq = [simgen.spelled_model(g[0], g[1], g[2]) for g, res in cases]
    irep = EU.run_sharded(impl + ["simrun"], ireq, hang_s=5, mem_kb=4_000_000, max_failures=10, env=env)
    mrep = EU.run_sharded([model], mreq, hang_s=60)
    out = {}
    for (g, res), ir, mr in zip(cases, irep, mrep):
        files, bodies, top, root, nested = g
        replay = {"resolver": res, "files": {f: bodies[f] for f in files}, "top": top, "root_level": root, "nested_in_block": nested,
                  "modules": simgen.spelled_render(*g, res)[:6000], "impl": ir, "model": mr}
        if _bad(ir):
            ctx.violation("include expansion through the %s resolver does not end in a response or a runtime error: %s" % (res, (ir or "no reply")[:120]), replay)
            continue
        st, rs, er, cl, lg = ir.split()[0].split(":")
        exp = (mr or "").split()
        ok = nested or (exp[:1] == ["err"] and er == "1") or (exp[:1] == ["ok"] and er == "0" and (root or exp[1] == lg))
        key = "%s %s" % (res, "nested (totality only)" if nested else ("agree" if ok else "differ"))
        out[key] = out.get(key, 0) + 1
        if not ok:
            ctx.violation("include expansion through the %s resolver differs from Model/EvalInclude.v: interpreter %s, model %s" % (res, ir.split()[0], mr), replay)
    # (d) the falco CLI as a process, on files on disk
    procs = 0
    for gi, g in enumerate(graphs[:60 if thorough else 14]):
        files, bodies, top, root, nested = g
        d = os.path.join(tmp, "cli%d_%d" % (os.getpid(), gi))
        shutil.rmtree(d, ignore_errors=True)
        os.makedirs(d)
        mods = simgen.spelled_render(files, bodies, top, root, nested, "file").split(":", 1)[1]
        for m in mods.split(","):
            name, hx = m.split("=")
            fp = os.path.join(d, name + ".vcl")
            os.makedirs(os.path.dirname(fp), exist_ok=True)
            with open(fp, "w") as f:
                f.write(bytes.fromhex(hx).decode().replace("__BACKEND_HOST__", "127.0.0.1").replace("__BACKEND_PORT__", "1"))
        with open(os.path.join(d, "main.test.vcl"), "w") as f:
            f.write("// @scope: recv\nsub test_recv {\n  testing.call_subroutine(\"vcl_recv\");\n}\n")
        cmd = [os.path.join(V.BUILD, "falco"), "test"] + (["-I", os.path.join(d, "sub")] if os.path.isdir(os.path.join(d, "sub")) else []) + [os.path.join(d, "main.vcl")]
        procs += 1
        try:
            p = subprocess.run(cmd, stdout=subprocess.PIPE, stderr=subprocess.STDOUT, text=True, timeout=20)
            txt = p.stdout
            mr = mrep[3 * gi]
            recursive = "recursive include" in txt or "Failed to resolve include" in txt or "failed to include" in txt.lower()
            if "panic:" in txt or "fatal error" in txt:
                ctx.violation("falco test crashes on an include graph: %s" % txt.strip().splitlines()[0][:160], {"dir_listing": sorted(os.listdir(d)), "modules": mods[:6000], "output": txt[:2000]})
            elif not nested and (mr or "").startswith("err") != recursive:
                ctx.violation("falco test and Model/EvalInclude.v disagree on an include graph (model %s): %s" % (mr, txt.strip()[:200]),
                              {"modules": mods[:6000], "output": txt[:2000], "model": mr})
            out["cli " + ("include error" if recursive else "ran")] = out.get("cli " + ("include error" if recursive else "ran"), 0) + 1
        except subprocess.TimeoutExpired:
            ctx.violation("falco test does not end within 20 s on an include graph", {"modules": mods[:6000], "files": files, "top": top})
        shutil.rmtree(d, ignore_errors=True)
    ctx.coverage["include_resolvers"] = {"graphs": len(graphs), "runs": len(cases), "falco_test_processes": procs, "outcomes": dict(sorted(out.items())),
                                         "resolver_kinds": ["map (source name = include string)", "stub (source name differs)", "file (resolver.NewFileResolvers on disk)", "falco test process"],
                                         "module_identity": "the include string as written; spellings m, m.vcl, sub/m, m via include path are distinct modules with one content",
                                         "generator": dict(sorted(stats.items()))}
    return len(cases) + procs, len(set(ireq))


def run_graphs(ctx, model, impl, thorough):
    """PROGRAM SIZE / SHAPE for the static passes before execution (CheckFastlyCallTreeLimit, declarations): call graphs
    of 10-100 (and 1000) subroutines, fan-out 1-3, cycles of length 1-50, ladders, deep chains.  Oracle: the request ends
    within the watchdog; when vcl_recv does not enter the graph the verdict (accepted / Too many sub calls) is compared
    with Model/CallTree.v."""
    rng = ctx.rng
    stats = {}
    cases = [(label, g, ex) for label, g in graphgen.shape_sweep() for ex in (False, True)]
    n_sweep = len(cases)
    for _ in range(3000 if thorough else 150):
        cases.append(("random", graphgen.gen_graph(rng, stats), rng.random() < 0.4))
    g = [("GET", "/")]
    ireq = [_req([("main", graphgen.render(gr, ex))], g) for _, gr, ex in cases]
    mreq = [graphgen.model_text(gr, ex) for _, gr, ex in cases]
    irep = EU.run_sharded(impl + ["simrun"], ireq, hang_s=3, mem_kb=4_000_000, max_failures=12)
    mrep = EU.run_sharded([model], mreq, hang_s=60)
    out = {}
    for (label, gr, ex), ir, mr in zip(cases, irep, mrep):
        replay = {"shape": label, "subroutines": len(gr), "vcl_recv_enters_the_graph": ex, "program": graphgen.render(gr, ex)[:20000],
                  "impl": ir, "model": mr}
        if _bad(ir):
            ctx.violation("a request to a service with a large / cyclic call graph does not end (%s, %d subroutines): %s" % (
                label, len(gr), (ir or "no reply")[:120]), replay)
            continue
        st, rs, er, cl, lg = ir.split()[0].split(":")
        key = "error" if er == "1" else "response"
        if not ex:
            want = {"ok accepted": "0", "ok rejected": "1"}.get(mr or "")
            if want is None or want != er:
                ctx.violation("call-tree verdict differs from Model/CallTree.v (%s): interpreter error=%s, model %s" % (label, er, mr), replay)
            key = "accepted" if er == "0" else "too many sub calls"
        out[key] = out.get(key, 0) + 1
    ctx.coverage["call_graphs"] = {"graphs": len(cases), "shape_sweep": n_sweep, "outcomes": out, "generator": dict(sorted(stats.items())),
                                   "largest_graph": max(len(gr) for _, gr, _ in cases)}
    return len(cases), len(set(ireq))


def SIM_CORPUS():
    """minimised inputs of the repaired defects (run first)"""
    g = [("GET", "/")]
    chain99 = [[("call", i + 1)] for i in range(98)] + [[("skip",)]]
    chain99[0].append(("error",))
    rec_then_chain = simgen.BACKEND + simgen.VCL_ERROR + "sub rec { call rec; }\n" + \
        "".join("sub c%d { call c%d; }\n" % (i, i + 1) for i in range(1, 99)) + 'sub c99 { set req.http.X = "1"; }\n' + \
        'sub vcl_recv { if (req.url ~ "rec") { call rec; } call c1; error 601; }\n'
    return [
        ("skel", [[("ret", "restart")]], g),                                              # return(restart) unbounded
        ("skel", [[("restart",)]], g),
        ("skel", [[("call", 1), ("error",)], [("call", 1)]], g + g),                      # recursion, twice on one interpreter
        ("skel", chain99, g),
        ("scope", rec_then_chain, [("GET", "/"), ("GET", "/rec"), ("GET", "/"), ("GET", "/rec"), ("GET", "/")]),
        ("inc", ([[("i", 0)]], [("i", 0)], True), g),                                     # module including itself, root level
        ("inc", ([[("i", 1)], [("i", 0)]], [("i", 0)], True), g),                         # mutual
        ("inc", ([[("s", 1), ("i", 0)]], [("i", 0)], False), g),                          # inside a subroutine
        ("scope", simgen.BACKEND + 'backend b1 { .host = "127.0.0.1"; .port = "1"; }\ndirector d0 random { .quorum = 50%; { .backend = b0; .weight = 1; } { .backend = b1; .weight = 1; } }\n'
                  "sub vcl_recv { set req.backend = d0; return(pass); }\n", g),
        ("scope", simgen.BACKEND + "sub vcl_recv { declare local var.b BACKEND; set req.backend = var.b; return(pass); }\n", g),
        ("scope", simgen.BACKEND + "sub vcl_recv { declare local var.a ACL; if (client.ip ~ var.a) { } error 601; }\n", g),
    ]


_BIG = ("a" * 65536).encode().hex()
BUILTIN_CORPUS = [
    ('early_hints RECV lS:61:0 lS:62:0', "early_hints", ["STRING", "STRING"], ["typical", "typical"]),
    ('http_status_matches RECV vI:200:000 lS::0', "http_status_matches", ["INTEGER", "STRING"], ["typical", "empty"]),
    ('randomint RECV vI:-9223372036854775808:000 lI:2147483648:000', "randomint", ["INTEGER", "INTEGER"], ["min", "big"]),
    ('randomint_seeded RECV vI:-9223372036854775808:000 vI:9223372036854775807:000 lI:1:000', "randomint_seeded", ["INTEGER"] * 3, ["min", "max", "typical"]),
    ('randomstr RECV vI:-1:000', "randomstr", ["INTEGER"], ["nan"]),
    ('randomstr RECV vI:2147483648:000', "randomstr", ["INTEGER"], ["big"]),
    ('std.itoa_charset RECV vI:5:000 vS::0', "std.itoa_charset", ["INTEGER", "STRING"], ["typical", "empty"]),
    ('std.itoa_charset RECV vI:5:000 lS:61:0', "std.itoa_charset", ["INTEGER", "STRING"], ["typical", "typical"]),
    ('std.itoa_charset RECV vI:-5:000 lS:6162:0', "std.itoa_charset", ["INTEGER", "STRING"], ["typical", "typical"]),
    ('accept.language_filter_basic RECV lS:656e3a6672:0 lS:656e:0 lS:656e2c6672:0 vI:-1:000', "accept.language_filter_basic", ["STRING"] * 3 + ["INTEGER"], ["typical"] * 3 + ["nan"]),
    ('fastly.hash RECV vS::0 vI:0:000 lI:0:000 vI:0:000', "fastly.hash", ["STRING", "INTEGER", "INTEGER", "INTEGER"], ["empty"] * 4),
    ('std.strpad RECV lS:61:0 lI:5:000 lS::0', "std.strpad", ["STRING", "INTEGER", "STRING"], ["typical", "typical", "empty"]),
    ('std.strrep RECV lS:61:0 lI:9223372036854775807:000', "std.strrep", ["STRING", "INTEGER"], ["typical", "max"]),
    ('utf8.strpad RECV lS:61:0 lI:2147483648:000 lS:62:0', "utf8.strpad", ["STRING", "INTEGER", "STRING"], ["typical", "big", "typical"]),
    ('std.replaceall RECV lS:%s:0 lS::0 lS:%s:0' % (_BIG, _BIG), "std.replaceall", ["STRING"] * 3, ["big", "empty", "big"]),
    ('regsuball RECV vS:%s:0 lS:61:0 vS:%s:0' % (_BIG, _BIG), "regsuball", ["STRING"] * 3, ["big", "typical", "big"]),
] + [('digest.time_hmac_md5 RECV lS:%s:0 vI:%d:000 vI:0:000' % ("aGVsbG8=".encode().hex(), k), "digest.time_hmac_md5", ["STRING", "INTEGER", "INTEGER"], ["typical"] * 3)
     for k in range(1, 40)]


def run(ctx):
    thorough = ctx.thorough()
    proved = ctx.prove()
    with V.Lock("build"):
        model = V.driver("eval")
    impl = EU.implrun()
    ctx.trusted += [
        "Coq 8.16.1 kernel (coqc; vm_compute for closed witnesses; no native_compute); axioms: none",
        "extraction: ExtrOcamlBasic only; OCaml 4.13.1; ocaml/common.ml + ocaml/eval_main.ml",
        "translator harness/cmd/trans/evalconst.go (integer constants; guard sites recognised by the rendered condition text "
        "len(i.callStack)>maxCallStackExceedCount, i.ctx.Restarts+1>limitations.MaxVarnishRestarts, range over `including`)",
        "harness/cmd/implrun eval_*.go; workers supervised by vcommon.run_batch (3 s without progress = hang, ulimit -v 4 GB)",
        "modelled not verified: Model/Assign.v, Oper.v (crash points = Go integer / and % by zero, shifts by a negative count), "
        "Model/Exec.v (control skeleton of subroutine.go / statement.go / interpreter.go restart), Model/EvalInclude.v (include.go)",
        "NOT modelled, exercised only through the implementation: built-in function bodies, the request flow outside vcl_recv "
        "(hash/hit/miss/pass/fetch/error/deliver/log), net/http, PCRE",
    ]
    import time as _t
    t0 = _t.time()
    timing = {}

    def lap(name):
        nonlocal t0
        timing[name] = round(_t.time() - t0, 1)
        t0 = _t.time()
    lap("prove+build")
    n1, d1 = run_grid(ctx, model, impl, thorough)
    lap("grid")
    n2, d2 = run_builtins(ctx, impl, thorough)
    lap("builtins")
    n3, d3 = run_sims(ctx, model, impl, thorough)
    lap("simulations")
    n4, d4 = run_histories(ctx, impl, thorough)
    lap("histories")
    n5, d5 = run_graphs(ctx, model, impl, thorough)
    lap("call graphs")
    n6, d6 = run_paths(ctx, impl, thorough)
    lap("lifecycle paths")
    n7, d7 = run_builtin_models(ctx, model, impl, thorough)
    lap("builtin models")
    n8, d8 = run_include_resolvers(ctx, model, impl, thorough)
    lap("include resolvers")
    n7, d7 = n7 + n8, d7 + d8
    ctx.coverage["seconds_per_part"] = timing
    n3, d3 = n3 + n4 + n5 + n6 + n7, d3 + d4 + d5 + d6 + d7
    if not proved and not ctx.violations:
        # a theorem or the regenerated tables no longer check and the quick volumes found no failing input:
        # search with the thorough volumes (full products, 10x samples) before giving up
        V.log("C08: proof obligation broken (%s) and no failing input yet: escalating the search to the thorough volumes" % ctx.broken)
        for part in (lambda: run_sims(ctx, model, impl, True), lambda: run_paths(ctx, impl, True), lambda: run_graphs(ctx, model, impl, True),
                     lambda: run_builtins(ctx, impl, True), lambda: run_builtin_models(ctx, model, impl, True),
                     lambda: run_histories(ctx, impl, True), lambda: run_grid(ctx, model, impl, True)):
            part()
            if ctx.violations:
                break
        ctx.coverage["escalated_search"] = True
    if not proved and not ctx.violations:
        ctx.violation("proof obligation of C08 no longer checks: " + (ctx.broken or "Props/C08.v"),
                      {"no_failing_input": True, "broken": ctx.broken,
                       "searched": "%d operator cells, %d built-in calls, %d requests: all ended in a value or an error" % (n1, n2, n3)})
    ctx.coverage.update({"evaluations": n1 + n2 + n3, "distinct_nontrivial": d1 + d2 + d3})
    return ctx.finish(
        level="proof",
        rule="theorems of coq/Props/C08.v (unbounded: all operands, all programs of the control skeleton, all module sets); "
             "correspondence / totality run: (i) operator cells (thorough: the full boundary grid), (ii) every built-in x "
             "signature x argument class, (iii) generated services x 1-3 requests per interpreter; distinct = distinct request text")
