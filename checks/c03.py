"""C03 - formatting preserves the meaning of the program.

proof  : coq/Props/C03.v over the token-stream model Model/FmtTok.v + Model/FmtNorm.v
         (norm_significant: significant tokens kept up to exactly the documented rewrites;
          sort_is_permutation; configuration T tie)
tie    : T  Gen/FmtConfig.v regenerated from config/config.go and formatter/*.go
         C  tokens(format c src) = norm c (tokens src): the real formatter and the extracted model on
            every .vcl of the repository x every single-option flip, focus programs, generated
            programs (plain and decorated with comments) x sampled configurations; both sides are
            lexed by the real Go lexer
oracle : on the implementation alone, every input x configuration: the formatter does not crash,
         its output parses, and the projected tree of the output equals the projected tree of the
         source with exactly the documented rewrites applied (harness/cmd/implrun/fmt_ast.go)
"""
import vcommon as V
import fmt_util as F

ASPECTS = ("crash", "reparse", "ast", "tokens_sig", "tokens_order", "model", "decorated-unparseable")


def run(ctx):
    thorough = ctx.thorough()
    proved = ctx.prove()
    ctx.trusted += F.TRUSTED
    p = F.Pipeline(ctx, "C03", n_gen=9000 if thorough else 420, n_random=6 if thorough else 3)
    seen = p.report(ASPECTS)
    if not proved and not ctx.violations:
        ctx.violation("proof obligation of C03 no longer checks: " + (ctx.broken or "Props/C03.v"),
                      {"no_failing_input": True, "broken": ctx.broken,
                       "searched": "%d program x configuration pairs: output parses, tree preserved, tokens agree with the model" % len(p.pairs)})
    ctx.samples = p.samples()
    cov = p.coverage()
    cov["failures_by_kind"] = seen
    ctx.coverage.update(cov)
    return ctx.finish(
        level="proof",
        rule="theorems of coq/Props/C03.v (unbounded: every configuration, every token stream); correspondence and "
             "implementation oracle on: every .vcl file of the repository x default + every single-option flip (exhaustive), "
             "focus programs x the same flips, grammar-generated programs (plain, and decorated with comments at the "
             "documented placeholders) x default + sampled random configurations; string literals rewritten with every kind of inner whitespace (gen/fmt_literals relit) and the exhaustive literal matrix (24 string positions x 20 whitespace features x quoted/long/delimited); SCALE (gen/fmt_scale: one token / output line of 4 KiB, 64 KiB - 1, 64 KiB, 64 KiB + 1, 200 KiB as quoted / long / multi-line string, comment, identifier; conditions, concatenations and argument lists with 300 operands; 300 statements, else-if branches, cases, properties, entries, declarations; nesting 60 - always next to runs of empty lines); COMMENT TEXT (gen/decorate hostile alphabet, 22 line + 22 block classes: multi-line blocks with / without stars, indented, trailing blanks, empty lines; line comments containing or ending in /* */ // # \\\\; code; empty; > 4 KiB; tabs; multi-byte - every placeholder x one class of each family, every condition / branch placeholder of a compound-condition template x every class, own line and line of the previous token); SHAPES (gen/fmt_shapes: if alone / + else / + 1-3 else-if with and without else in every spelling, empty bodies, nested; switch with 1-3 cases +- default; sub with 0-2 statements; acl / backend / director / table with 0-3 entries, probe and backend objects; files of 1-3 declarations - 79 shapes x one comment at EVERY placeholder of the shape in block and line style, own line and line of the previous token, exhaustive); RUNS OF EMPTY LINES (gen/fmt_blank: 0-8 empty / blank-only / tab-only lines at 35 places - inside block comments at every kind of position, inside long strings, between declarations / statements / properties / entries / cases / branches, at the start and end of the file, around braces - exhaustive x 3 configurations that post-process lines); distinct = distinct (source, configuration); per-dimension counts in coverage.dimensions")
