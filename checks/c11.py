"""C11 - linting is total and deterministic.

proof  : coq/Props/C11.v  (include_total, include_cycle_reported, infer_terminates,
         infer_lfp_order_free, cycle_set_order_free, unused_multiset_order_free over
         Model/Include.v and Model/ScopeInfer.v; include_unrepaired_refuted)
tie    : T  Gen/InferScopes.v regenerated from linter/context/scope.go + scope_inference.go
         C  extracted model (build/modelrun_lintdet) vs the real linter (build/implrun lint):
            include expansion (resolved statements, errors) on every include graph over <= 2
            module files + sampled graphs over 3-4 files; inferred scopes of every subroutine and
            the recursion set on generated programs and permutations of their declarations
oracle : on the implementation alone: every configuration lints without hang / panic / fatal
         error; 5 fresh processes report the same multiset of (rule, severity, file, line,
         position, message) and the same scopes; permuting the subroutine declarations keeps the
         multiset of (rule, severity, message).
"""
import itertools
import json
import os
import re
import shutil
import subprocess
from collections import Counter

import vcommon as V
from gen import lintdet_gen as LG

RUNS = 8     # fresh processes per configuration (Go map order differs per process and per range)


def corpus_cases():
    d = os.path.join(V.VERIF, "corpus", "C11")
    out = []
    if os.path.isdir(d):
        for fn in sorted(os.listdir(d)):
            p = os.path.join(d, fn)
            if os.path.isdir(p):
                # perm_<group>_<variant>/ : the same program with its declarations in another order
                label = fn.rsplit("_", 1)[0] if fn.startswith("perm_") else fn
                out.append((label, {f: open(os.path.join(p, f)).read() for f in sorted(os.listdir(p)) if f.endswith((".vcl", ".json"))}))
            elif fn.endswith(".vcl"):
                out.append((fn, {"main.vcl": open(p).read()}))
    return out


def write_cfg(base, idx, files):
    d = os.path.join(base, "cfg%05d" % idx)
    os.makedirs(d, exist_ok=True)
    for fn, txt in files.items():
        with open(os.path.join(d, fn), "w") as f:
            f.write(txt)
    return d


def parse_reply(rep):
    """-> (status, obj): status in ok / hang / died / crash / bad"""
    if rep is None:
        return "bad", None
    for k in ("hang", "died", "crash", "skipped", "badreq"):
        if rep.startswith(k):
            return ("bad" if k in ("skipped", "badreq") else k), rep
    try:
        return "ok", json.loads(rep)
    except ValueError:
        return "bad", rep


def ms_full(o):
    return Counter((d[0], d[1], d[2], d[3], d[4], d[5]) for d in o["diags"])


def ms_noloc(o):
    """diagnostics without locations; the per-configuration directory in messages is not a location of the program"""
    return Counter((d[0], d[1], re.sub(r"/[^ ]*/cfg\d+/", "<dir>/", d[5])) for d in o["diags"])


MAP_ORDERED_RULES = ("unused/declaration", "unused/variable", "unused/goto", "subroutine/recursive-call")


def seq_ordered(o):
    """the diagnostics that do not come from a map-ordered pass, IN REPORT ORDER: statement order, includes
    expanded in place - the same sequence in every run"""
    return [tuple(d) for d in o["diags"] if d[0] not in MAP_ORDERED_RULES]


def go_inc_events(o, prefix="m"):
    """projection of the Go include expansion onto the model's events (module files <prefix>N, snippets snippet::gN)"""
    stmts = []
    for r in o.get("resolved", []):
        stmts.append(int(r[5:]) if r.startswith("sub:t") else r)
    errs = []
    pat = re.compile(r"(?:/%s|: %s|snippet::g)(\d+)" % (prefix, prefix))
    for d in o["diags"]:
        if d[0] not in ("include/module-load-failed", "include/module-not-found"):
            continue
        m = d[5]
        num = pat.search(m)
        if m.startswith("Cyclic include detected") and num:
            errs.append(("c", int(num.group(1))))
        elif (m.startswith("Failed to resolve include file") or "was not found among Fastly managed snippets" in m) and num:
            errs.append(("m", int(num.group(1))))
        else:
            errs.append(("?", m))
    return stmts, errs, bool(o["fatal"])


def model_inc_events(rep):
    if not rep or not rep.startswith("ok"):
        return None
    stmts, errs, fatal = [], [], False
    for k, v in re.findall(r"\((\w) (\d+)\)", rep):
        if k == "s":
            stmts.append(int(v))
        elif k == "f":
            fatal = True
        else:
            errs.append((k, int(v)))
    return stmts, errs, fatal


def run(ctx):
    rng = ctx.rng
    thorough = ctx.thorough()
    proved = ctx.prove()
    with V.Lock("build"):
        model = V.driver("lintdet")
    impl = [os.path.join(V.BUILD, "implrun"), "lint"]
    falco = os.path.join(V.BUILD, "falco")
    base = os.path.join(V.BUILD, "c11")
    shutil.rmtree(base, ignore_errors=True)
    os.makedirs(base)
    ctx.trusted += [
        "Coq 8.16.1 kernel (coqc; vm_compute only for the ten regenerated scope constants)",
        "axioms: none (Print Assumptions of every theorem of Props/C11.v: Closed under the global context)",
        "extraction: ExtrOcamlBasic only; OCaml 4.13.1; ocaml/common.ml + ocaml/lintdet_main.ml (S-expression glue, pseudo-random key orders)",
        "translator harness/cmd/trans/infer_scopes.go (scope constants, fastlyScopes table -> Gen/InferScopes.v)",
        "harness/cmd/implrun/inert_lint.go (runs parser + linter.New(&config.LinterConfig{}).Lint, prints l.Errors, l.FatalError, ctx.Subroutines[*].Scopes); hook linter/verif_inert.go (VerifResolveIncludes)",
        "gen/lintdet_gen.py derives the model input (callee lists, explicit scopes from name / @scope annotation) independently of linter/scope_inference.go",
        "modelled not verified: Model/Include.v and Model/ScopeInfer.v are hand transcriptions of resolveIncludeStatements/resolveFileInclusion, detectRecursion, inferSubroutineScopes and the lintUnused* loops, tied by the differential run; the rest of the linter (rule bodies, hoisting, local state) is covered only by the direct oracle (termination, no panic, run-to-run and permutation invariance)",
        "Go map iteration order is modelled as an arbitrary key order per `range` statement",
    ]
    cov = {"violations_by_kind": {}}
    cov["generator_tables_from_go_source"] = LG.load_generated_tables(os.path.join(V.COQ, "Gen"))

    def viol(kind, what, replay, facts=None):
        cov["violations_by_kind"][kind] = cov["violations_by_kind"].get(kind, 0) + 1
        ctx.violation(what, replay, facts)

    # ------------------------------------------------------------------ A. include graphs
    graphs = []      # (label, main_inc, mods, broken)
    for k in (1, 2):
        for main_inc, mods in LG.all_graphs(k):
            graphs.append(("all-k%d" % k, main_inc, mods, ()))
    exhaustive_k = 2
    if thorough:
        for main_inc, mods in LG.all_graphs(3):
            graphs.append(("all-k3", main_inc, mods, ()))
        exhaustive_k = 3
    n_sample = 3000 if thorough else 700
    for _ in range(n_sample):
        k = rng.choice([3, 3, 4, 4] if not thorough else [4])
        targets = list(range(1, k + 1)) + [9]
        pick = lambda: [t for t in targets if rng.random() < rng.choice([0.2, 0.4, 0.6])]
        mods = {i: pick() for i in range(1, k + 1)}
        main_inc = pick() or [1]
        broken = tuple(i for i in range(1, k + 1) if rng.random() < 0.08)
        graphs.append(("sample-k%d" % k, main_inc, mods, broken))
    gdirs = []
    for i, (lab, main_inc, mods, broken) in enumerate(graphs):
        gdirs.append(write_cfg(os.path.join(base, "g"), i, LG.graph_files(main_inc, mods, broken)))
    irep = V.run_batch(impl, ["inc " + d for d in gdirs], hang_s=10)
    mrep = V.run_batch([model], [LG.graph_model(m, mods, br) for _, m, mods, br in graphs], hang_s=30)
    inc_agree = 0
    graph_kinds = Counter()
    cyc_graphs = 0
    for (lab, main_inc, mods, broken), d, ir, mr in zip(graphs, gdirs, irep, mrep):
        graph_kinds[lab] += 1
        files = LG.graph_files(main_inc, mods, broken)
        st, o = parse_reply(ir)
        if st != "ok":
            viol("include-" + st, "include expansion of a module graph: %s (%s)" % (st, str(o)[:160]),
                 {"files": files, "reply": str(o)[:400]}, {"kind": "include-" + st})
            continue
        if o["parse"]:
            viol("harness", "main.vcl of a generated include graph does not parse: " + o["parse"][:100], {"files": files})
            continue
        me = model_inc_events(mr)
        if me is None:
            viol("include-model", "Model/Include.v does not finish within |modules|+1 fuel: %s" % mr, {"files": files, "model": mr})
            continue
        ge = go_inc_events(o)
        if any(k == "c" for k, _ in me[1]):
            cyc_graphs += 1
        if ge != me:
            viol("include-diff", "include expansion differs between linter and Model/Include.v (%s)" % lab,
                 {"files": files, "impl": [ge[0], ge[1], ge[2]], "model": [me[0], me[1], me[2]]})
        else:
            inc_agree += 1
    # full lint of every graph, two fresh processes: terminates, no panic, same multiset
    greps = [V.run_batch(impl, ["dir " + d for d in gdirs], hang_s=10) for _ in range(2)]
    graph_lints = 0
    for gi, d in enumerate(gdirs):
        outs = []
        for rr in greps:
            st, o = parse_reply(rr[gi])
            if st != "ok":
                viol("lint-" + st, "lint of an include graph: %s (%s)" % (st, str(o)[:160]),
                     {"files": LG.graph_files(*graphs[gi][1:]), "reply": str(o)[:400]}, {"kind": "lint-" + st})
                break
            outs.append(o)
        else:
            graph_lints += 1
            if ms_full(outs[0]) != ms_full(outs[1]):
                viol("nondeterminism", "two runs of the linter on the same include graph report different diagnostics",
                     {"files": LG.graph_files(*graphs[gi][1:]), "run1": outs[0]["diags"], "run2": outs[1]["diags"]})

    # ------------------------------------------------------------------ A2. statement-level modules with includes nested in blocks
    g = LG.LintGen(rng)
    sgraphs = [g.stmt_graph() for _ in range(3000 if thorough else 220)]
    sdirs = [write_cfg(os.path.join(base, "s"), i, LG.stmt_graph_files(*sg)) for i, sg in enumerate(sgraphs)]
    sreps = [V.run_batch(impl, ["dir " + d for d in sdirs], hang_s=10) for _ in range(2)]
    smod = V.run_batch([model], [LG.stmt_graph_model(*sg) for sg in sgraphs], hang_s=30)
    nested_agree = 0
    nested_cyc = 0
    for si, sg in enumerate(sgraphs):
        files = LG.stmt_graph_files(*sg)
        outs = []
        for rr in sreps:
            st, o = parse_reply(rr[si])
            if st != "ok":
                viol("lint-" + st, "lint of statement-level modules with nested includes: %s (%s)" % (st, str(o)[:160]),
                     {"files": files, "reply": str(o)[:400]}, {"kind": "lint-" + st})
                break
            outs.append(o)
        else:
            if ms_full(outs[0]) != ms_full(outs[1]):
                viol("nondeterminism", "two runs of the linter on the same statement-level include graph differ", {"files": files})
            me = model_inc_events(smod[si])
            if me is None:
                viol("include-model", "Model/Include.v does not finish within |modules|+1 fuel: %s" % smod[si], {"files": files})
                continue
            ge = go_inc_events(outs[0], "sm")
            if any(k == "c" for k, _ in me[1]):
                nested_cyc += 1
            if Counter(ge[1]) != Counter(me[1]) or ge[2] != me[2]:
                viol("include-diff", "include errors of nested statement-level includes differ between linter and Model/Include.v",
                     {"files": files, "impl": [sorted(ge[1]), ge[2]], "model": [sorted(me[1]), me[2]]})
            else:
                nested_agree += 1

    # ------------------------------------------------------------------ B. programs x permutations x RUNS runs
    n_prog = 4000 if thorough else 520
    max_perm = 12 if thorough else 6
    configs = []      # (prog index, order, text, model request, ids)
    progs = []
    corpus_pi = {}
    for label, files in corpus_cases():
        if label not in corpus_pi:
            corpus_pi[label] = len(progs)
            progs.append(("corpus/" + label, None, None, []))
        progs[corpus_pi[label]][3].append(files)
    for pi in range(n_prog):
        if pi % 5 < 2:
            subs, others = g.shaped_program()
            progs.append(("shape-%d" % pi, subs, others, None))
        else:
            subs, others = g.program()
            progs.append(("gen-%d" % pi, subs, others, None))
    scale_split = {}
    for si in range(40 if thorough else 5):
        subs, nmod = g.scale_program()
        scale_split[len(progs)] = nmod
        progs.append(("scale-%d" % si, subs, [], None))
    cfg_dirs = []
    for pi, (label, subs, others, files) in enumerate(progs):
        if files is not None:
            for k, fs in enumerate(files):
                configs.append((pi, (k,), fs, None, None))
            continue
        n = len(subs)
        if n <= 5:
            perms = list(itertools.permutations(range(n)))
            if len(perms) > max_perm:
                perms = [perms[0]] + rng.sample(perms[1:], max_perm - 1)
        else:                       # larger call-graph shapes: a few random orders
            perms = [tuple(range(n))]
            for _ in range(min(max_perm, 4) - 1):
                o = list(range(n))
                rng.shuffle(o)
                perms.append(tuple(o))
        inc = ()
        extra = {}
        if any("include \"sm" in t for sb in subs for t, _ in sb.items):
            extra.update(g.stmt_modules())
        if rng.random() < 0.25:       # a program that also pulls in a (possibly cyclic) module graph
            k = rng.choice([1, 2])
            mods = {i: [t for t in list(range(1, k + 1)) + [9] if rng.random() < 0.4] for i in range(1, k + 1)}
            extra.update({fn: t for fn, t in LG.graph_files([], mods).items() if fn != "main.vcl"})
            inc = tuple("m%d" % i for i in range(1, k + 1) if rng.random() < 0.7)
        if pi in scale_split:
            perms = perms[:2]
        for order in perms:
            text = LG.render(subs, others, list(order), inc)
            mreq, ids = LG.model_decls(subs, list(order))
            f = dict(extra)
            f["main.vcl"] = text
            if scale_split.get(pi):
                # many includes: the declarations are spread over module files included from main, in the same order
                k = scale_split[pi]
                chunks = [list(order)[j::1][:0] for j in range(0)]
                size = max(1, len(order) // (k + 1))
                parts = [list(order)[j:j + size] for j in range(0, len(order), size)]
                f["main.vcl"] = LG.render(subs, others, parts[0], ["mod%d" % j for j in range(1, len(parts))])
                for j in range(1, len(parts)):
                    f["mod%d.vcl" % j] = LG.render(subs, [], parts[j])
            configs.append((pi, order, f, mreq, ids))
    for ci, (pi, order, files, mreq, ids) in enumerate(configs):
        cfg_dirs.append(write_cfg(os.path.join(base, "p"), ci, files))
    reqs = ["dir " + d for d in cfg_dirs]
    # RUNS fresh processes; from the second on every process receives the configurations in another order, so
    # that package-level state surviving from one Lint call to the next (caches, counters) shows as a difference
    runs = []
    for k in range(RUNS):
        idx = list(range(len(reqs)))
        if k:
            rng.shuffle(idx)
        rep = V.run_batch(impl, [reqs[i] for i in idx], hang_s=10)
        back = [None] * len(reqs)
        for pos, i in enumerate(idx):
            back[i] = rep[pos]
        runs.append(back)
    mreqs = [(ci, "infer %d %s" % (rng.randint(1, 10 ** 6), c[3])) for ci, c in enumerate(configs) if c[3]]
    mrep = dict(zip([ci for ci, _ in mreqs], V.run_batch([model], [r for _, r in mreqs], hang_s=30)))
    lint_ok = 0
    scope_agree = 0
    cyc_agree = 0
    parse_rejected = 0
    nondet = 0
    by_prog = {}
    rule_hist = Counter()
    progs_with_cycle = 0
    nontrivial = set()
    for ci, (pi, order, files, mreq, ids) in enumerate(configs):
        outs = []
        bad = False
        for rr in runs:
            st, o = parse_reply(rr[ci])
            if st != "ok":
                viol("lint-" + st, "linter %s on %s: %s" % (st, progs[pi][0], str(o)[:200]),
                     {"files": files, "reply": str(o)[:600]}, {"kind": "lint-" + st})
                bad = True
                break
            outs.append(o)
        if bad:
            continue
        o0 = outs[0]
        if o0["parse"]:
            parse_rejected += 1
            if mreq:
                viol("harness", "generated program does not parse: " + o0["parse"][:120], {"files": files})
            continue
        lint_ok += 1
        nontrivial.add(files["main.vcl"])
        for d in o0["diags"]:
            rule_hist[d[0] or "(no rule)"] += 1
        # determinism across fresh processes
        for k, o in enumerate(outs[1:], 1):
            if ms_full(o) == ms_full(o0) and seq_ordered(o) != seq_ordered(o0):
                viol("order", "the diagnostics outside the map-ordered passes are reported in a different order in run %d (%s)" % (k + 1, progs[pi][0]),
                     {"files": files, "run1": seq_ordered(o0)[:20], "other": seq_ordered(o)[:20]})
                break
            if ms_full(o) != ms_full(o0) or o["scopes"] != o0["scopes"] or o["fatal"] != o0["fatal"]:
                nondet += 1
                a, b = ms_full(o0), ms_full(o)
                viol("nondeterminism", "run 1 and run %d of the linter on the same program differ (%s)" % (k + 1, progs[pi][0]),
                     {"files": files, "only_run1": [list(x) for x in (a - b)][:10], "only_other": [list(x) for x in (b - a)][:10],
                      "scopes1": o0["scopes"], "scopes_other": o["scopes"]})
                break
        by_prog.setdefault(pi, []).append((order, o0, files))
        # model: scopes and recursion set
        if mreq:
            mr = mrep.get(ci) or ""
            m = re.match(r"ok \((.*)\) cyc ok \((.*)\)$", mr)
            if not m:
                viol("model", "Model/ScopeInfer.v gives no result within its fuel: %s" % mr[:200],
                     {"files": files, "model_request": mreq, "model": mr})
                continue
            rev = {v: k for k, v in ids.items()}
            mscopes = {rev[int(a)]: int(b) for a, b in re.findall(r"\((\d+) (\d+)\)", m.group(1))}
            gscopes = {k: v for k, v in o0["scopes"].items() if k in mscopes or v != 0 or not k.startswith("t")}
            if mscopes != gscopes:
                viol("scopes-diff", "inferred subroutine scopes differ between linter and Model/ScopeInfer.v (%s)" % progs[pi][0],
                     {"files": files, "impl": o0["scopes"], "model": mscopes, "model_request": mreq})
            else:
                scope_agree += 1
            mcyc = sorted(rev[int(x)] for x in m.group(2).split())
            gcyc = sorted(d[5].split('"')[1] for d in o0["diags"] if d[0] == "subroutine/recursive-call")
            mcyc = [n for n in mcyc if n in o0["scopes"]]
            if mcyc:
                progs_with_cycle += 1
            if mcyc != gcyc:
                viol("cycle-diff", "recursion set differs between linter and Model/ScopeInfer.v (%s)" % progs[pi][0],
                     {"files": files, "impl": gcyc, "model": mcyc, "model_request": mreq})
            else:
                cyc_agree += 1
    # permutation invariance (apart from locations)
    perm_groups = 0
    perm_pairs = 0
    for pi, lst in by_prog.items():
        if len(lst) < 2:
            continue
        perm_groups += 1
        ref = ms_noloc(lst[0][1])
        for order, o, files in lst[1:]:
            perm_pairs += 1
            cur = ms_noloc(o)
            if cur == ref and progs[pi][1] is not None and pi not in scale_split:
                # the same multiset could still be distributed differently: compare per declaration
                pa = per_decl(lst[0][1], progs[pi][1], progs[pi][2], lst[0][0])
                pb = per_decl(o, progs[pi][1], progs[pi][2], order)
                if pa != pb:
                    viol("permutation", "permuting the declarations moves diagnostics from one declaration to another (%s, order %s)" % (progs[pi][0], order),
                         {"files_reference": lst[0][2], "files_permuted": files,
                          "reference": {str(k): sorted(map(list, v)) for k, v in pa.items() if pb.get(k) != v},
                          "permuted": {str(k): sorted(map(list, v)) for k, v in pb.items() if pa.get(k) != v}},
                         {"kind": "permutation", "dup_user_sub_differs": dup_differs(progs[pi][1])})
                    break
            if cur != ref:
                viol("permutation", "permuting the subroutine declarations changes the diagnostics (%s, order %s)" % (progs[pi][0], order),
                     {"files_reference": lst[0][2], "files_permuted": files,
                      "only_reference": [list(x) for x in (ref - cur)][:10], "only_permuted": [list(x) for x in (cur - ref)][:10]},
                     {"kind": "permutation", "dup_user_sub_differs": dup_differs(progs[pi][1])})
                break
    # ------------------------------------------------------------------ C. the CLI in really fresh processes
    cli_runs = 0
    sample = rng.sample(range(len(cfg_dirs)), min(len(cfg_dirs), 40 if thorough else 8)) if cfg_dirs else []
    sample_g = rng.sample(range(len(gdirs)), min(len(gdirs), 40 if thorough else 6))
    for d in [cfg_dirs[i] for i in sample] + [gdirs[i] for i in sample_g]:
        seen = None
        for k in range(RUNS):
            try:
                p = subprocess.run("ulimit -v 4000000; exec '%s' lint -json -I '%s' '%s/main.vcl'" % (falco, d, d), shell=True,
                                   stdout=subprocess.PIPE, stderr=subprocess.PIPE, timeout=20)
            except subprocess.TimeoutExpired:
                viol("cli-hang", "falco lint does not terminate within 20 s", {"dir": d, "files": _files(d)}, {"kind": "cli-hang"})
                break
            cli_runs += 1
            if p.returncode not in (0, 1):
                viol("cli-crash", "falco lint exits with %d: %s" % (p.returncode, p.stderr.decode("utf-8", "replace")[:200]),
                     {"dir": d, "files": _files(d)}, {"kind": "cli-crash"})
                break
            txt = p.stdout.decode("utf-8", "replace")
            try:
                js = json.loads(txt[txt.index("{"):])
                cur = Counter((e["Rule"], e["Severity"], fn, e["Token"]["Line"], e["Token"]["Position"], e["Message"])
                              for fn, es in (js.get("LintErrors") or {}).items() for e in es)
                cur = (cur, js.get("Errors"), js.get("Warnings"), js.get("Infos"))
            except (ValueError, KeyError, TypeError):
                cur = ("unparsed", txt[:300])
            if seen is not None and cur != seen:
                viol("cli-nondeterminism", "two runs of `falco lint -json` on the same files differ", {"dir": d, "files": _files(d)})
                break
            seen = cur

    if not proved and not ctx.violations:
        ctx.violation("proof obligation of C11 no longer checks: " + (ctx.broken or "Props/C11.v"),
                      {"no_failing_input": True, "broken": ctx.broken,
                       "searched": "%d include graphs, %d program configurations x %d runs: the linter terminates, does not panic and is deterministic on them"
                                   % (len(graphs), len(configs), RUNS)})
    ctx.samples = [{"program": configs[i][2]["main.vcl"][:400], "diags": len(by_prog.get(configs[i][0], [[0, {"diags": []}]])[0][1]["diags"])}
                   for i in (0, len(configs) // 2, len(configs) - 1) if configs]
    ctx.samples += [{"include_graph": LG.graph_files(*graphs[i][1:])} for i in (len(graphs) // 3, len(graphs) - 1)]
    ctx.coverage.update(cov)
    ctx.coverage.update({
        "evaluations": len(graphs) * 3 + lint_ok * RUNS + cli_runs,
        "distinct_nontrivial": len(nontrivial) + len(graphs),
        "include_graphs": len(graphs), "include_graph_kinds": dict(graph_kinds), "include_graphs_exhaustive_up_to_modules": exhaustive_k,
        "include_graphs_with_cycle": cyc_graphs, "include_expansion_agree": inc_agree, "include_graph_lints_ok": graph_lints,
        "nested_include_graphs": len(sgraphs), "nested_include_agree": nested_agree, "nested_include_graphs_with_cycle": nested_cyc,
        "scale_programs": len(scale_split), "scale_sizes": sorted(len(progs[pi][1]) for pi in scale_split),
        "programs": len(progs), "shaped_call_graph_programs": sum(1 for p in progs if p[0].startswith("shape-")), "configurations": len(configs), "runs_per_configuration": RUNS,
        "configurations_linted": lint_ok, "parse_rejected": parse_rejected,
        "scope_inference_agree": scope_agree, "recursion_set_agree": cyc_agree, "programs_with_recursion": progs_with_cycle,
        "permutation_groups": perm_groups, "permutation_pairs": perm_pairs, "cli_process_runs": cli_runs,
        "rule_histogram": dict(rule_hist.most_common(40)), "generator_stats": dict(sorted(g.stats.items())),
    })
    return ctx.finish(
        level="proof",
        rule="theorems of coq/Props/C11.v (unbounded: every module graph, call graph, key order); correspondence: every include graph "
             "over <= %d module files + seeded graphs over 3-4 files (distinct = graph), seeded programs from gen/lintdet_gen.py "
             "(distinct = main.vcl text) x permutations of <= 5 declarations (all when <= %d, sampled above) x %d fresh processes"
             % (exhaustive_k, max_perm, RUNS))


def per_decl(o, subs, others, order):
    """diagnostics of main.vcl grouped by the declaration (index in subs) whose text contains their line"""
    owner = {}
    line = 1 + sum(t.count("\n") for t in others)
    canon = {}                    # identical declarations are one owner: which copy is "the duplicate" is a location
    ident = lambda sb: ("sub", sb.name) if sb.name else ("decl", sb.text())     # same-name subroutines are one owner too
    for i, sb in enumerate(subs):
        canon.setdefault(ident(sb), i)
    for i in order:
        n = subs[i].text().count("\n")
        for ln in range(line, line + n):
            owner[ln] = canon[ident(subs[i])]
        line += n
    out = {}
    for d in o["diags"]:
        key = owner.get(d[3]) if d[2] == "main.vcl" else "other-file"
        out.setdefault(key, Counter())[(d[0], d[1], re.sub(r"/[^ ]*/cfg\d+/", "<dir>/", d[5]))] += 1
    return out


def dup_differs(subs):
    """two declarations of the same non-Fastly subroutine name whose return type or @scope annotation differ
    (the first declaration is the one registered, so their order is observable)"""
    seen = {}
    for s in subs or []:
        if s.name in LG.FASTLY:
            continue
        sig = (s.rtype, getattr(s, "params", ""), LG.explicit_scope(s.name, s.annots))
        if s.name in seen and seen[s.name] != sig:
            return True
        seen.setdefault(s.name, sig)
    return False


def _files(d):
    return {f: open(os.path.join(d, f)).read() for f in sorted(os.listdir(d))}
